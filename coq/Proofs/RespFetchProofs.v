(* Proofs/RespFetchProofs.v — C03: a complete FETCH response line written by the server is read
   by the client's reader as the items in normal form, literals byte-identical and in order
   (imapserver FetchResponseWriter, imapclient readResponse / readResponseData / handleFetch). *)
From GoImap.Base Require Import Bytes.
From GoImap.Model Require Import NumSet MatchList Utf7 Wire Resp RespFetch RespCmd.
From GoImap.Proofs Require Import NumSetText Utf7Spec WireSpec WireLemmas WireProofs RespSpec RespEnvProofs RespBodyProofs.
Open Scope N_scope.

Ltac istart_closed := eexists _, _; split; [reflexivity|repeat split].

(* NOTE: fetch_line carries one hypothesis more than originally stated (see [plain] below):
     forall t, time_ok t = true -> plain (x_fmt_idate x t) = true. *)

(* ---------------------------------------------------------------- *)
(* writers *)
Lemma wcat_some : forall a b bs, a +++ b = Some bs ->
  exists x y, a = Some x /\ b = Some y /\ bs = x ++ y.
Proof.
  intros [x|] [y|] bs H; cbn in H; try discriminate. inversion H. eauto.
Qed.

Lemma ws_cat : forall s b bs, ws s +++ b = Some bs -> exists y, b = Some y /\ bs = s2b s ++ y.
Proof.
  intros s b bs H. apply wcat_some in H. destruct H as (x & y & Hx & Hy & ->).
  inversion Hx. eauto.
Qed.

Lemma wb_cat : forall s b bs, wb s +++ b = Some bs -> exists y, b = Some y /\ bs = s ++ y.
Proof.
  intros s b bs H. apply wcat_some in H. destruct H as (x & y & Hx & Hy & ->).
  inversion Hx. eauto.
Qed.

Lemma cat_ws : forall a s bs, a +++ ws s = Some bs -> exists x, a = Some x /\ bs = x ++ s2b s.
Proof.
  intros a s bs H. apply wcat_some in H. destruct H as (x & y & Hx & Hy & ->).
  unfold ws in Hy. injection Hy as <-. eauto.
Qed.

Lemma omap_some : forall (A B : Type) (f : A -> B) o b, option_map f o = Some b ->
  exists a, o = Some a /\ b = f a.
Proof. intros A B f [a|] b H; cbn in H; [inversion H; eauto|discriminate]. Qed.

(* ---------------------------------------------------------------- *)
(* what follows an item / what an item starts with *)
Definition follow (rest : bytes) : Prop :=
  match rest with c :: _ => c = ch " " \/ c = ch ")" | [] => False end.

Definition istart (b : bytes) : Prop := exists c t, b = c :: t /\ vstart c.

Lemma follow_nodigit : forall rest, follow rest ->
  match rest with [] => False | c :: _ => is_digit c = false end.
Proof. intros [|c r] H; [exact H|]. destruct H as [->| ->]; reflexivity. Qed.

Lemma follow_delimited : forall rest, follow rest -> delimited rest.
Proof. intros [|c r] H; [exact H|]. destruct H as [->| ->]; split; reflexivity. Qed.

Lemma follow_sp : forall t, follow (ch " " :: t).
Proof. intros t. left. reflexivity. Qed.
Lemma follow_rp : forall t, follow (ch ")" :: t).
Proof. intros t. right. reflexivity. Qed.

Lemma istart_app : forall a b, istart a -> istart (a ++ b).
Proof. intros a b (c & t & -> & H). exists c, (t ++ b). split; [reflexivity|exact H]. Qed.

Lemma ex_sp_ok : forall c t, vstart c -> ex_sp (ch " " :: c :: t) = DOk tt (c :: t).
Proof.
  intros c t (_ & H1 & H2). unfold ex_sp, dec_sp. change (beqb (ch " ") SP_) with true. cbv iota.
  rewrite H1, H2. reflexivity.
Qed.

Lemma ex_sp_istart : forall b rest, istart b -> ex_sp (ch " " :: b ++ rest) = DOk tt (b ++ rest).
Proof. intros b rest (c & t & -> & H). cbn [app]. apply ex_sp_ok. exact H. Qed.

Lemma dec_sp_istart : forall b rest, istart b -> dec_sp (ch " " :: b ++ rest) = DOk tt (b ++ rest).
Proof.
  intros b rest H. pose proof (ex_sp_istart b rest H) as E. unfold ex_sp in E.
  destruct (dec_sp (ch " " :: b ++ rest)); try discriminate E. exact E.
Qed.

Lemma rparen_miss : forall b rest, istart b -> dec_special (ch ")") (b ++ rest) = DNo (b ++ rest).
Proof. intros b rest (c & t & -> & H & _). cbn [app]. apply dec_special_miss. exact H. Qed.

(* ---------------------------------------------------------------- *)
(* lists: Encoder.List of separately written items against Decoder.ExpectList *)
Definition witem_ok {A} (f : P A) (w : wr) (v : A) : Prop :=
  forall b rest, w = Some b -> follow rest -> f (b ++ rest) = DOk v rest /\ istart b.

Lemma w_join_map : forall A (f : A -> wr) l, w_join f l = w_join (fun w => w) (map f l).
Proof.
  intros A f. induction l as [|a l IH]; [reflexivity|].
  destruct l as [|a' l]; [reflexivity|].
  change (w_join f (a :: a' :: l)) with (f a +++ ws " " +++ w_join f (a' :: l)).
  rewrite IH. reflexivity.
Qed.

Lemma w_list_map : forall A (f : A -> wr) l, w_list f l = w_list (fun w => w) (map f l).
Proof. intros. unfold w_list. rewrite w_join_map. reflexivity. Qed.

Lemma join_items : forall A (f : P A) ws vs, Forall2 (witem_ok f) ws vs -> ws <> [] ->
  forall bs rest fuel, w_join (fun w => w) ws = Some bs -> (length ws <= fuel)%nat ->
  list_items fuel f (bs ++ ch ")" :: rest) = DOk vs rest /\ istart bs /\ (length ws <= length bs)%nat.
Proof.
  intros A f ws0 vs H. induction H as [|w v ws0 vs Hwv Hrest IH]; intros Hne bs rest fuel Hj Hf; [congruence|].
  destruct fuel as [|k]; [cbn [length] in Hf; lia|].
  destruct ws0 as [|w' ws0].
  - inversion Hrest; subst. cbn [w_join] in Hj.
    destruct (Hwv bs (ch ")" :: rest) Hj (follow_rp rest)) as [Hr Hs].
    cbn [list_items]. rewrite Hr, dec_special_hit. split; [reflexivity|]. split; [exact Hs|].
    destruct Hs as (c & t & -> & _). cbn [length]. lia.
  - change (w_join (fun w => w) (w :: w' :: ws0)) with (w +++ ws " " +++ w_join (fun w => w) (w' :: ws0)) in Hj.
    apply wcat_some in Hj. destruct Hj as (b1 & y & Hb1 & Hy & ->).
    apply ws_cat in Hy. destruct Hy as (b2 & Hb2 & ->).
    cbn [length] in Hf.
    destruct (IH ltac:(discriminate) b2 rest k Hb2 ltac:(cbn [length]; lia)) as (IH1 & IH2 & IH3).
    change (s2b " ") with [ch " "]. rewrite <- !app_assoc. cbn [app].
    destruct (Hwv b1 (ch " " :: b2 ++ ch ")" :: rest) Hb1 (follow_sp _)) as [Hr Hs].
    cbn [list_items]. unfold byte, bytes in *. rewrite Hr. rewrite dec_special_miss by reflexivity.
    rewrite (dec_sp_istart b2 _ IH2). rewrite IH1. split; [reflexivity|]. split; [apply istart_app; exact Hs|].
    destruct Hs as (c & t & -> & _). cbn [length] in *. rewrite !app_length. cbn [length]. lia.
Qed.

Lemma join_len : forall A (f : P A) ws vs, Forall2 (witem_ok f) ws vs ->
  forall bs, w_join (fun w => w) ws = Some bs -> (length ws <= length bs)%nat.
Proof.
  intros A f ws0 vs H. induction H as [|w v ws0 vs Hwv Hrest IH]; intros bs Hj; [cbn [length]; lia|].
  destruct ws0 as [|w' ws0].
  - cbn [w_join] in Hj. destruct (Hwv bs [ch ")"] Hj (follow_rp [])) as [_ (c & t & -> & _)].
    cbn [length]. lia.
  - change (w_join (fun w => w) (w :: w' :: ws0)) with (w +++ ws " " +++ w_join (fun w => w) (w' :: ws0)) in Hj.
    apply wcat_some in Hj. destruct Hj as (b1 & y & Hb1 & Hy & ->).
    apply ws_cat in Hy. destruct Hy as (b2 & Hb2 & ->).
    specialize (IH b2 Hb2). change (s2b " ") with [ch " "]. rewrite !app_length. cbn [length] in *. lia.
Qed.

Lemma ex_list_items : forall A (f : P A) ws vs bs rest, Forall2 (witem_ok f) ws vs ->
  w_list (fun w => w) ws = Some bs -> ex_list f (bs ++ rest) = DOk vs rest.
Proof.
  intros A f ws0 vs bs rest H Hw. unfold w_list in Hw.
  apply ws_cat in Hw. destruct Hw as (y & Hy & ->).
  apply cat_ws in Hy. destruct Hy as (b & Hb & ->).
  change (s2b "(") with [ch "("]. change (s2b ")") with [ch ")"]. rewrite <- !app_assoc. cbn [app].
  unfold ex_list, dec_list. rewrite dec_special_hit.
  destruct ws0 as [|w ws0].
  - inversion H; subst. cbn in Hb. inversion Hb; subst b. cbn [app]. rewrite dec_special_hit. reflexivity.
  - destruct (join_items A f (w :: ws0) vs H ltac:(discriminate) b rest
               (S (length (b ++ ch ")" :: rest))) Hb) as (H1 & H2 & H3).
    + pose proof (join_len A f _ _ H b Hb). rewrite app_length. lia.
    + unfold byte, bytes in *. rewrite (rparen_miss b _ H2). rewrite H1. reflexivity.
Qed.

Lemma ex_list_first : forall A (f : A -> wr) l bs, w_list f l = Some bs -> exists t, bs = ch "(" :: t.
Proof.
  intros A f l bs H. unfold w_list in H. apply ws_cat in H. destruct H as (y & _ & ->).
  eexists. reflexivity.
Qed.

Lemma Forall2_flat_map : forall (A B C : Type) (R : B -> C -> Prop) (f : A -> list B) (g : A -> list C) l,
  (forall a, In a l -> Forall2 R (f a) (g a)) -> Forall2 R (flat_map f l) (flat_map g l).
Proof.
  intros A B C R f g. induction l as [|a l IH]; intros H; cbn [flat_map]; [constructor|].
  apply Forall2_app; [apply H; left; reflexivity|apply IH; intros b Hb; apply H; right; exact Hb].
Qed.

Lemma Forall2_map_l : forall (A B : Type) (R : B -> A -> Prop) (f : A -> B) l,
  (forall a, In a l -> R (f a) a) -> Forall2 R (map f l) l.
Proof.
  intros A B R f. induction l as [|a l IH]; intros H; cbn [map]; constructor.
  - apply H. left. reflexivity.
  - apply IH. intros b Hb. apply H. right. exact Hb.
Qed.

(* ---------------------------------------------------------------- *)
(* the dispatch on the item name *)
Definition item_body (x : ext) (name r : bytes) : dres citem :=
  let body_structure (extended : bool) (r : bytes) : dres citem :=
    do _, r <- ex_sp r; do bs, r <- read_body (S (length r)) 0 x r; DOk (CBody bs extended) r in
  if bytes_eqb name (s2b "FLAGS") then do _, r <- ex_sp r; do fl, r <- dec_flag_list r; DOk (CFlags fl) r
  else if bytes_eqb name (s2b "ENVELOPE") then do _, r <- ex_sp r; do e, r <- read_envelope x r; DOk (CEnvelope e) r
  else if bytes_eqb name (s2b "INTERNALDATE") then do _, r <- ex_sp r; do t, r <- read_datetime x r; DOk (CIDate t) r
  else if bytes_eqb name (s2b "RFC822.SIZE") then do _, r <- ex_sp r; do n, r <- ex_number64 r; DOk (CSize n) r
  else if bytes_eqb name (s2b "UID") then
    do _, r <- ex_sp r; do n, r <- ex_number r; if n =? 0 then DErr else DOk (CUid n) r
  else if bytes_eqb name (s2b "BODY") then
    match dec_special (ch "[") r with
    | DErr => DErr
    | DNo _ => body_structure false r
    | DOk _ r =>
        do sec, r <- read_section_spec r;
        do _, r <- ex_sp r;
        do lit, r <- read_nstring_reader r;
        DOk (CSection sec lit) r
    end
  else if bytes_eqb name (s2b "BINARY") then
    do _, r <- ex_special (ch "[") r;
    do part, r <- read_section_binary r;
    do _, r <- ex_sp r;
    let r := match dec_special (ch "~") r with DOk _ r' => r' | _ => r end in
    do lit, r <- read_nstring_reader r;
    DOk (CBinary part lit) r
  else if bytes_eqb name (s2b "BODYSTRUCTURE") then body_structure true r
  else if bytes_eqb name (s2b "BINARY.SIZE") then
    do _, r <- ex_special (ch "[") r;
    do part, r <- read_section_binary r;
    do _, r <- ex_sp r;
    do n, r <- ex_number r;
    DOk (CBinSize part n) r
  else if bytes_eqb name (s2b "MODSEQ") then
    do _, r <- ex_sp r; do _, r <- ex_special (ch "(") r; do n, r <- ex (dec_modseq r);
    do _, r <- ex_special (ch ")") r; DOk (CModSeq n) r
  else DErr.

Lemma read_fetch_item_eq : forall x s,
  read_fetch_item x s = do name, r <- ex (dec_func is_msgatt_char s); item_body x (ascii_upper name) r.
Proof. reflexivity. Qed.

Lemma item_name : forall x name c t, name <> [] -> forallb is_msgatt_char name = true ->
  is_msgatt_char c = false ->
  read_fetch_item x (name ++ c :: t) = item_body x (ascii_upper name) (c :: t).
Proof.
  intros x name c t Hn Ha Hc. rewrite read_fetch_item_eq.
  rewrite (dec_func_app _ _ _ _ Hn Ha Hc). reflexivity.
Qed.

Lemma body_uid : forall x r, item_body x (ascii_upper (s2b "UID")) r =
  do _, r <- ex_sp r; do n, r <- ex_number r; if n =? 0 then DErr else DOk (CUid n) r.
Proof. reflexivity. Qed.
Lemma body_flags : forall x r, item_body x (ascii_upper (s2b "FLAGS")) r =
  do _, r <- ex_sp r; do fl, r <- dec_flag_list r; DOk (CFlags fl) r.
Proof. reflexivity. Qed.
Lemma body_size : forall x r, item_body x (ascii_upper (s2b "RFC822.SIZE")) r =
  do _, r <- ex_sp r; do n, r <- ex_number64 r; DOk (CSize n) r.
Proof. reflexivity. Qed.
Lemma body_idate : forall x r, item_body x (ascii_upper (s2b "INTERNALDATE")) r =
  do _, r <- ex_sp r; do t, r <- read_datetime x r; DOk (CIDate t) r.
Proof. reflexivity. Qed.
Lemma body_env : forall x r, item_body x (ascii_upper (s2b "ENVELOPE")) r =
  do _, r <- ex_sp r; do e, r <- read_envelope x r; DOk (CEnvelope e) r.
Proof. reflexivity. Qed.
Lemma body_body : forall x r, item_body x (ascii_upper (s2b "BODY")) r =
  match dec_special (ch "[") r with
  | DErr => DErr
  | DNo _ => do _, r <- ex_sp r; do bs, r <- read_body (S (length r)) 0 x r; DOk (CBody bs false) r
  | DOk _ r =>
      do sec, r <- read_section_spec r;
      do _, r <- ex_sp r;
      do lit, r <- read_nstring_reader r;
      DOk (CSection sec lit) r
  end.
Proof. reflexivity. Qed.
Lemma body_bodystructure : forall x r, item_body x (ascii_upper (s2b "BODYSTRUCTURE")) r =
  do _, r <- ex_sp r; do bs, r <- read_body (S (length r)) 0 x r; DOk (CBody bs true) r.
Proof. reflexivity. Qed.
Lemma body_binary : forall x r, item_body x (ascii_upper (s2b "BINARY")) r =
  do _, r <- ex_special (ch "[") r;
  do part, r <- read_section_binary r;
  do _, r <- ex_sp r;
  let r := match dec_special (ch "~") r with DOk _ r' => r' | _ => r end in
  do lit, r <- read_nstring_reader r;
  DOk (CBinary part lit) r.
Proof. reflexivity. Qed.
Lemma body_binsize : forall x r, item_body x (ascii_upper (s2b "BINARY.SIZE")) r =
  do _, r <- ex_special (ch "[") r;
  do part, r <- read_section_binary r;
  do _, r <- ex_sp r;
  do n, r <- ex_number r;
  DOk (CBinSize part n) r.
Proof. reflexivity. Qed.

(* ---------------------------------------------------------------- *)
(* numbers *)
Lemma digit_vstart : forall c, is_digit c = true -> vstart c.
Proof. intros c H. apply atom_vstart. apply digit_numset_char in H. apply H. Qed.

Lemma dec_istart : forall n, istart (dec_of_N n).
Proof.
  intros n. destruct (dec_first n) as (c & t & E & Hc). exists c, t. split; [exact E|].
  apply digit_vstart. exact Hc.
Qed.

Lemma w_num64_inv : forall z b, w_num64 z = Some b -> (0 <= z)%Z /\ b = dec_of_N (Z.to_N z).
Proof.
  intros z b H. unfold w_num64, enc_number64 in H. destruct (z <? 0)%Z eqn:E; [discriminate|].
  cbn [option_map] in H. rewrite flatten_single in H. inversion H. split; [|reflexivity].
  apply Z.ltb_ge. exact E.
Qed.

Lemma ex_number_rt : forall n rest, n < 4294967296 ->
  (match rest with [] => False | c :: _ => is_digit c = false end) ->
  ex_number (dec_of_N n ++ rest) = DOk n rest.
Proof.
  intros n rest Hn Hr. unfold ex_number. change (dec_of_N n) with (enc_number n).
  rewrite number_roundtrip by assumption. reflexivity.
Qed.

Lemma ex_number64_rt : forall z rest, (0 <= z)%Z -> (z < 9223372036854775808)%Z ->
  (match rest with [] => False | c :: _ => is_digit c = false end) ->
  ex_number64 (dec_of_N (Z.to_N z) ++ rest) = DOk (Z.to_N z) rest.
Proof.
  intros z rest H0 Hz Hr. unfold ex_number64, dec_number64. rewrite dec_uint_roundtrip; [reflexivity| |exact Hr].
  lia.
Qed.

Lemma i64_inv : forall z, i64 z = true -> (0 <= z)%Z /\ (z < 9223372036854775808)%Z.
Proof. intros z H. unfold i64 in H. lia. Qed.

(* ---------------------------------------------------------------- *)
(* simple items *)

Lemma item_uid : forall x n, (0 <? n) && u32 n = true ->
  witem_ok (read_fetch_item x) (ws "UID " +++ w_num n) (CUid n).
Proof.
  intros x n Hw b rest Hb Hr. apply ws_cat in Hb. destruct Hb as (y & Hy & ->).
  unfold w_num, enc_number in Hy. injection Hy as <-.
  split; [|istart_closed].
  change (s2b "UID " ++ dec_of_N n) with (s2b "UID" ++ ch " " :: dec_of_N n).
  rewrite <- app_assoc. cbn [app].
  rewrite item_name by (try reflexivity; discriminate). rewrite body_uid.
  rewrite (ex_sp_istart _ _ (dec_istart n)). cbn [bind].
  unfold u32 in Hw. rewrite ex_number_rt; [|lia|apply follow_nodigit; exact Hr]. cbn [bind].
  replace (n =? 0) with false by lia. reflexivity.
Qed.

Lemma item_size : forall x z, i64 z = true ->
  witem_ok (read_fetch_item x) (ws "RFC822.SIZE " +++ w_num64 z) (CSize (Z.to_N z)).
Proof.
  intros x z Hw b rest Hb Hr. apply ws_cat in Hb. destruct Hb as (y & Hy & ->).
  apply w_num64_inv in Hy. destruct Hy as [H0 ->]. apply i64_inv in Hw.
  split; [|istart_closed].
  change (s2b "RFC822.SIZE " ++ dec_of_N (Z.to_N z)) with (s2b "RFC822.SIZE" ++ ch " " :: dec_of_N (Z.to_N z)).
  rewrite <- app_assoc. cbn [app].
  rewrite item_name by (try reflexivity; discriminate). rewrite body_size.
  rewrite (ex_sp_istart _ _ (dec_istart _)). cbn [bind].
  rewrite ex_number64_rt; [|lia|lia|apply follow_nodigit; exact Hr]. reflexivity.
Qed.


(* ---------------------------------------------------------------- *)
(* FLAGS *)
Lemma valid_flag_istart : forall f, is_valid_flag f = true -> istart f.
Proof.
  intros f H. unfold is_valid_flag in H. apply andb_true_iff in H. destruct H as [H _].
  apply andb_true_iff in H. destruct H as [H Hn]. destruct f as [|c t]; [discriminate|].
  exists c, t. split; [reflexivity|]. cbn [valid_flag_chars] in H. apply andb_true_iff in H.
  destruct H as [H _]. destruct (beqb c BSL_) eqn:E.
  - apply beqb_true_iff in E. subst c. repeat split.
  - apply atom_vstart. exact H.
Qed.

Lemma flag_item : forall f, witem_ok dec_flag (w_flag f) (canonical_flag f).
Proof.
  intros f b rest Hb Hr. unfold w_flag in Hb. apply omap_some in Hb. destruct Hb as (segs & Hs & ->).
  split; [apply flag_roundtrip; [apply follow_delimited; exact Hr|exact Hs]|].
  unfold enc_flag in Hs. destruct (bytes_eqb f (s2b "\*")) eqn:E; cbn [orb] in Hs.
  - apply bytes_eqb_eq in E. subst f. injection Hs as <-. rewrite flatten_single. istart_closed.
  - destruct (is_valid_flag f) eqn:Ev; [|discriminate]. injection Hs as <-. rewrite flatten_single.
    apply valid_flag_istart. exact Ev.
Qed.

Lemma flag_list_rt : forall l b rest, w_list w_flag l = Some b ->
  dec_flag_list (b ++ rest) = DOk (norm_flags l) rest.
Proof.
  intros l b rest Hb. rewrite w_list_map in Hb. unfold dec_flag_list.
  apply (ex_list_items _ dec_flag (map w_flag l)); [|exact Hb].
  unfold norm_flags. clear Hb. induction l as [|f l IH]; cbn [map]; constructor; [apply flag_item|exact IH].
Qed.

Lemma item_flags : forall x l,
  witem_ok (read_fetch_item x) (ws "FLAGS " +++ w_list w_flag l) (CFlags (norm_flags l)).
Proof.
  intros x l b rest Hb Hr. apply ws_cat in Hb. destruct Hb as (y & Hy & ->).
  split; [|istart_closed].
  destruct (ex_list_first _ _ _ _ Hy) as (t & Et).
  change (s2b "FLAGS " ++ y) with (s2b "FLAGS" ++ ch " " :: y).
  rewrite <- app_assoc. cbn [app].
  rewrite item_name by (try reflexivity; discriminate). rewrite body_flags.
  rewrite ex_sp_istart by (rewrite Et; istart_closed). cbn [bind].
  rewrite (flag_list_rt l y rest Hy). reflexivity.
Qed.

(* ---------------------------------------------------------------- *)
(* INTERNALDATE *)
(* read_datetime only accepts a QUOTED string, and ext_ok says nothing about the bytes
   x_fmt_idate produces: a format containing CR, LF, NUL (or 8-bit bytes without QuotedUTF8, or
   more than 4096 bytes) is written as a literal and the item is refused by the reader.  Hence
   the hypothesis "the formatted date is plain" (to become the field xo_idate_plain of ext_ok;
   [plain] is to move to RespSpec.v). *)
(* [plain] is defined in RespSpec.v; the hypothesis is the field xo_idate_plain of ext_ok *)
Lemma plain_valid_quoted : forall cfg s, plain s = true -> valid_quoted cfg s = true.
Proof.
  intros cfg s H. unfold plain in H. apply andb_true_iff in H. destruct H as [H1 H2].
  unfold valid_quoted. rewrite H1. cbn [andb]. rewrite forallb_forall in *. intros c Hc.
  specialize (H2 c Hc). cbv zeta.
  replace (b2n c =? 0) with false by lia. replace (b2n c =? 13) with false by lia.
  replace (b2n c =? 10) with false by lia. replace (b2n c <=? 127) with true by lia.
  cbn [orb negb andb]. apply orb_true_r.
Qed.

Lemma item_idate : forall x q t, ext_ok x ->
  (forall t, time_ok t = true -> plain (x_fmt_idate x t) = true) ->
  time_ok t && negb (time_is_zero (time_norm t)) && fits (x_fmt_idate x t) = true ->
  witem_ok (read_fetch_item x) (ws "INTERNALDATE " +++ w_string q (x_fmt_idate x t)) (CIDate (time_norm t)).
Proof.
  intros x q t Hx Hp Hw b rest Hb Hr. apply ws_cat in Hb. destruct Hb as (y & Hy & ->).
  split; [|istart_closed].
  apply andb_true_iff in Hw. destruct Hw as [Hw _]. apply andb_true_iff in Hw. destruct Hw as [Hok Hnz].
  destruct (string_quoted_only_if_valid (scfg q) _ (plain_valid_quoted (scfg q) _ (Hp t Hok))) as [He _].
  unfold w_string in Hy. rewrite He in Hy. cbn [option_map] in Hy. rewrite flatten_single in Hy.
  injection Hy as <-.
  change (s2b "INTERNALDATE " ++ enc_quoted (x_fmt_idate x t))
    with (s2b "INTERNALDATE" ++ ch " " :: enc_quoted (x_fmt_idate x t)).
  rewrite <- app_assoc. cbn [app].
  rewrite item_name by (try reflexivity; discriminate). rewrite body_idate.
  rewrite ex_sp_istart by istart_closed. cbn [bind].
  unfold read_datetime. rewrite quoted_roundtrip. rewrite (xo_idate x Hx t Hok).
  destruct (time_is_zero (time_norm t)); [discriminate|]. reflexivity.
Qed.

(* ---------------------------------------------------------------- *)
(* ENVELOPE, BODY, BODYSTRUCTURE *)
Lemma item_envelope : forall x q e, ext_ok x -> wf_env x e = true ->
  witem_ok (read_fetch_item x) (ws "ENVELOPE " +++ w_envelope x q e) (CEnvelope (norm_env e)).
Proof.
  intros x q e Hx Hw b rest Hb Hr. apply ws_cat in Hb. destruct Hb as (y & Hy & ->).
  split; [|istart_closed].
  destruct (envelope_first _ _ _ _ Hy) as (t & Et).
  change (s2b "ENVELOPE " ++ y) with (s2b "ENVELOPE" ++ ch " " :: y).
  rewrite <- app_assoc. cbn [app].
  rewrite item_name by (try reflexivity; discriminate). rewrite body_env.
  rewrite ex_sp_istart by (rewrite Et; istart_closed). cbn [bind].
  rewrite (envelope_roundtrip x q e y rest Hx Hw Hy). reflexivity.
Qed.

Lemma read_body_top : forall x q extended bs y rest, ext_ok x -> wf_bs x extended bs = true ->
  Nat.leb (bs_height bs) 1000 = true -> w_body x q extended bs = Some y ->
  read_body (S (length (y ++ rest))) 0 x (y ++ rest) = DOk (norm_bs extended bs) rest.
Proof.
  intros x q extended bs y rest Hx Hw Hh Hy. apply Nat.leb_le in Hh.
  apply (body_roundtrip x q extended bs y rest _ _ Hx Hw Hy).
  - exact Hh.
  - pose proof (body_height_len _ _ _ _ _ Hy). rewrite app_length. lia.
Qed.

Lemma item_body_plain : forall x q bs, ext_ok x -> wf_bs x false bs = true ->
  Nat.leb (bs_height bs) 1000 = true ->
  witem_ok (read_fetch_item x) (ws "BODY " +++ w_body x q false bs) (CBody (norm_bs false bs) false).
Proof.
  intros x q bs Hx Hw Hh b rest Hb Hr. apply ws_cat in Hb. destruct Hb as (y & Hy & ->).
  split; [|istart_closed].
  destruct (body_first _ _ _ _ _ Hy) as (t & Et).
  change (s2b "BODY " ++ y) with (s2b "BODY" ++ ch " " :: y).
  rewrite <- app_assoc. cbn [app].
  rewrite item_name by (try reflexivity; discriminate). rewrite body_body.
  rewrite dec_special_miss by reflexivity.
  rewrite ex_sp_istart by (rewrite Et; istart_closed). cbn [bind].
  rewrite (read_body_top x q false bs y rest Hx Hw Hh Hy). reflexivity.
Qed.

Lemma item_body_ext : forall x q bs, ext_ok x -> wf_bs x true bs = true ->
  Nat.leb (bs_height bs) 1000 = true ->
  witem_ok (read_fetch_item x) (ws "BODYSTRUCTURE " +++ w_body x q true bs) (CBody (norm_bs true bs) true).
Proof.
  intros x q bs Hx Hw Hh b rest Hb Hr. apply ws_cat in Hb. destruct Hb as (y & Hy & ->).
  split; [|istart_closed].
  destruct (body_first _ _ _ _ _ Hy) as (t & Et).
  change (s2b "BODYSTRUCTURE " ++ y) with (s2b "BODYSTRUCTURE" ++ ch " " :: y).
  rewrite <- app_assoc. cbn [app].
  rewrite item_name by (try reflexivity; discriminate). rewrite body_bodystructure.
  rewrite ex_sp_istart by (rewrite Et; istart_closed). cbn [bind].
  rewrite (read_body_top x q true bs y rest Hx Hw Hh Hy). reflexivity.
Qed.


Lemma fits_int64_of : forall s, fits s = true -> fits_int64 s.
Proof. intros s H. unfold fits in H. unfold fits_int64. apply N.ltb_lt. exact H. Qed.

(* ---------------------------------------------------------------- *)
(* the literal after a section *)
Lemma literal_reader : forall q data b rest, fits data = true -> w_literal q data = Some b ->
  read_nstring_reader (b ++ rest) = DOk (Some data) rest /\ exists t, b = ch "{" :: t.
Proof.
  intros q data b rest Hf Hb. unfold w_literal in Hb. apply omap_some in Hb.
  destruct Hb as (segs & Hs & ->).
  destruct (enc_literal_shape _ _ _ Hs) as (plus & Hp & E).
  destruct (literal_roundtrip (scfg q) data segs rest (fits_int64_of _ Hf) Hs) as [Hl _].
  change (client_side (scfg q)) with false in Hl.
  split; [|rewrite E; eexists; reflexivity].
  unfold read_nstring_reader. rewrite E in Hl |- *. cbn [app] in Hl |- *.
  unfold dec_atom. rewrite dec_func_no by reflexivity. rewrite dec_quoted_miss by reflexivity.
  unfold byte, bytes in *. rewrite Hl. reflexivity.
Qed.

(* ---------------------------------------------------------------- *)
(* section parts *)
Definition dotted (p : list Z) : bytes := flat_map (fun z => ch "." :: dec_of_Z z) p.

Lemma dotted_cons : forall z p, dotted (z :: p) = ch "." :: dec_of_Z z ++ dotted p.
Proof. reflexivity. Qed.

Lemma join_dotted : forall z p, join_bytes (s2b ".") (map dec_of_Z (z :: p)) = dec_of_Z z ++ dotted p.
Proof.
  intros z p. revert z. induction p as [|y p IH]; intros z.
  - cbn. rewrite app_nil_r. reflexivity.
  - unfold join_bytes in *. cbn [map]. rewrite join_cons2. cbn [map] in IH. rewrite IH.
    rewrite dotted_cons. reflexivity.
Qed.

Lemma dec_of_Z_nonneg : forall z, (0 <= z)%Z -> dec_of_Z z = dec_of_N (Z.to_N z).
Proof. intros z H. unfold dec_of_Z. replace (z <? 0)%Z with false by lia. reflexivity. Qed.

Lemma wf_part_cons : forall z p, wf_part (z :: p) = true ->
  (0 <= z)%Z /\ (z < 4294967296)%Z /\ wf_part p = true.
Proof.
  intros z p H. unfold wf_part in *. cbn [forallb] in H. apply andb_true_iff in H.
  destruct H as [H1 H2]. split; [lia|]. split; [lia|exact H2].
Qed.

Lemma dec_number_Z : forall z rest, (0 <= z)%Z -> (z < 4294967296)%Z ->
  (match rest with [] => False | c :: _ => is_digit c = false end) ->
  dec_number (dec_of_Z z ++ rest) = DOk (Z.to_N z) rest.
Proof.
  intros z rest H0 H1 Hr. rewrite dec_of_Z_nonneg by exact H0.
  change (dec_of_N (Z.to_N z)) with (enc_number (Z.to_N z)). apply number_roundtrip; [lia|exact Hr].
Qed.

Lemma read_part_S : forall k acc s, read_part (S k) acc s =
  let dot := negb (lnil acc) in
  let number (s1 : bytes) :=
    match dec_number s1 with
    | DOk n r => read_part k (acc ++ [Z.of_N n]) r
    | DNo r => if Nat.eqb (length r) (length s1) then (acc, dot, r) else (acc, dot, [])
    | DErr => (acc, dot, [])
    end in
  if dot then
    match dec_special (ch ".") s with
    | DOk _ r => number r
    | DNo r => (acc, false, r)
    | DErr => (acc, false, [])
    end
  else number s.
Proof. reflexivity. Qed.

Lemma nonnil_snoc : forall (A : Type) (l : list A) a, lnil (l ++ [a]) = false.
Proof. intros A [|x l] a; reflexivity. Qed.

(* after the first number: ".n.n" then something that is neither "." nor a digit *)
Lemma read_part_dots_end : forall p acc c t fuel, lnil acc = false -> wf_part p = true ->
  (length p < fuel)%nat -> beqb c (ch ".") = false -> is_digit c = false ->
  read_part fuel acc (dotted p ++ c :: t) = (acc ++ p, false, c :: t).
Proof.
  induction p as [|z p IH]; intros acc c t fuel Ha Hw Hf Hc Hd.
  - destruct fuel as [|k]; [cbn [length] in Hf; lia|]. rewrite read_part_S. rewrite Ha. cbn [negb dotted flat_map app].
    rewrite (dec_special_miss _ _ _ Hc). rewrite app_nil_r. reflexivity.
  - destruct fuel as [|k]; [cbn [length] in Hf; lia|]. rewrite read_part_S. rewrite Ha.
    cbn [negb]. rewrite dotted_cons. cbn [app]. rewrite <- app_assoc. rewrite dec_special_hit.
    apply wf_part_cons in Hw. destruct Hw as (H0 & H1 & Hw).
    rewrite dec_number_Z; [|exact H0|exact H1|].
    + rewrite Z2N.id by exact H0. rewrite IH; [|apply nonnil_snoc|exact Hw|cbn [length] in Hf; lia|exact Hc|exact Hd].
      rewrite <- app_assoc. reflexivity.
    + destruct p as [|y p]; [exact Hd|reflexivity].
Qed.

(* ".n.n" then "." and a specifier (not a digit) *)
Lemma read_part_dots_spec : forall p acc c t fuel, lnil acc = false -> wf_part p = true ->
  (length p < fuel)%nat -> is_digit c = false ->
  read_part fuel acc (dotted p ++ ch "." :: c :: t) = (acc ++ p, true, c :: t).
Proof.
  induction p as [|z p IH]; intros acc c t fuel Ha Hw Hf Hd.
  - destruct fuel as [|k]; [cbn [length] in Hf; lia|]. rewrite read_part_S. rewrite Ha. cbn [negb dotted flat_map app].
    rewrite dec_special_hit. unfold dec_number, dec_uint. rewrite dec_func_no by exact Hd.
    rewrite Nat.eqb_refl. rewrite app_nil_r. reflexivity.
  - destruct fuel as [|k]; [cbn [length] in Hf; lia|]. rewrite read_part_S. rewrite Ha.
    cbn [negb]. rewrite dotted_cons. cbn [app]. rewrite <- app_assoc. rewrite dec_special_hit.
    apply wf_part_cons in Hw. destruct Hw as (H0 & H1 & Hw).
    rewrite dec_number_Z; [|exact H0|exact H1|].
    + rewrite Z2N.id by exact H0. rewrite IH; [|apply nonnil_snoc|exact Hw|cbn [length] in Hf; lia|exact Hd].
      rewrite <- app_assoc. reflexivity.
    + destruct p as [|y p]; reflexivity.
Qed.

Definition part_bytes (p : list Z) : bytes := join_bytes (s2b ".") (map dec_of_Z p).

Lemma read_part_end : forall p c t fuel, wf_part p = true -> (length p < fuel)%nat ->
  beqb c (ch ".") = false -> is_digit c = false ->
  read_part fuel [] (part_bytes p ++ c :: t) = (p, false, c :: t).
Proof.
  intros p c t fuel Hw Hf Hc Hd. destruct fuel as [|k]; [lia|]. destruct p as [|z p].
  - rewrite read_part_S. cbn [lnil negb]. cbv zeta. cbv iota. cbn [part_bytes map join_bytes join_with app].
    unfold dec_number, dec_uint. rewrite dec_func_no by exact Hd. rewrite Nat.eqb_refl. reflexivity.
  - unfold part_bytes. rewrite join_dotted. rewrite read_part_S. cbn [lnil negb]. cbv zeta. cbv iota.
    rewrite <- app_assoc. apply wf_part_cons in Hw. destruct Hw as (H0 & H1 & Hw).
    rewrite dec_number_Z; [|exact H0|exact H1|].
    + rewrite Z2N.id by exact H0. cbn [app].
      rewrite read_part_dots_end; [reflexivity|reflexivity|exact Hw|cbn [length] in Hf; lia|exact Hc|exact Hd].
    + destruct p as [|y p]; [exact Hd|reflexivity].
Qed.

Lemma read_part_spec : forall p c t fuel, wf_part p = true -> p <> [] -> (length p < fuel)%nat ->
  is_digit c = false ->
  read_part fuel [] (part_bytes p ++ ch "." :: c :: t) = (p, true, c :: t).
Proof.
  intros p c t fuel Hw Hn Hf Hd. destruct fuel as [|k]; [lia|]. destruct p as [|z p]; [congruence|].
  unfold part_bytes. rewrite join_dotted. rewrite read_part_S. cbn [lnil negb]. cbv zeta. cbv iota.
  rewrite <- app_assoc. apply wf_part_cons in Hw. destruct Hw as (H0 & H1 & Hw).
  rewrite dec_number_Z; [|exact H0|exact H1|].
  - rewrite Z2N.id by exact H0. cbn [app].
    rewrite read_part_dots_spec; [reflexivity|reflexivity|exact Hw|cbn [length] in Hf; lia|exact Hd].
  - destruct p as [|y p]; reflexivity.
Qed.

Lemma part_len : forall p rest, (length p < S (length (part_bytes p ++ rest)))%nat.
Proof.
  intros p rest. rewrite app_length. assert (length p <= length (part_bytes p))%nat; [|lia].
  destruct p as [|z p]; [cbn; lia|]. unfold part_bytes. rewrite join_dotted, app_length.
  assert (length p <= length (dotted p))%nat.
  { clear z. induction p as [|y p IH]; [cbn; lia|]. rewrite dotted_cons. cbn [length].
    rewrite app_length. lia. }
  assert (1 <= length (dec_of_Z z))%nat; [|cbn [length]; lia].
  unfold dec_of_Z. destruct (z <? 0)%Z; [cbn [length]; lia|].
  pose proof (dec_nonnil (Z.to_N z)). destruct (dec_of_N (Z.to_N z)); [congruence|cbn [length]; lia].
Qed.

Lemma w_part_inv : forall p b, w_part p = Some b -> b = part_bytes p.
Proof. intros p b H. unfold w_part in H. injection H as <-. reflexivity. Qed.

(* BINARY[...] and BINARY.SIZE[...] *)
Lemma section_binary_rt : forall p t, wf_part p = true ->
  read_section_binary (part_bytes p ++ ch "]" :: t) = DOk p t.
Proof.
  intros p t Hw. unfold read_section_binary.
  rewrite read_part_end; [|exact Hw|apply part_len|reflexivity|reflexivity].
  unfold ex_special. rewrite dec_special_hit. reflexivity.
Qed.

Lemma item_binary : forall x q p data, wf_part p && fits data = true ->
  witem_ok (read_fetch_item x) (ws "BINARY[" +++ w_part p +++ ws "] ~" +++ w_literal q data)
           (CBinary p (Some data)).
Proof.
  intros x q p data Hw b rest Hb Hr. apply andb_true_iff in Hw. destruct Hw as [Hp Hd].
  apply ws_cat in Hb. destruct Hb as (y & Hy & ->).
  apply wcat_some in Hy. destruct Hy as (pb & y2 & Hpb & Hy2 & ->). apply w_part_inv in Hpb. subst pb.
  apply ws_cat in Hy2. destruct Hy2 as (lit & Hlit & ->).
  split; [|istart_closed].
  destruct (literal_reader q data lit rest Hd Hlit) as [Hl (t & Et)].
  change (s2b "BINARY[") with (s2b "BINARY" ++ [ch "["]).
  change (s2b "] ~") with [ch "]"; ch " "; ch "~"].
  rewrite <- !app_assoc. cbn [app].
  rewrite item_name by (try reflexivity; discriminate). rewrite body_binary.
  unfold ex_special at 1. rewrite dec_special_hit. cbn [ex bind].
  rewrite section_binary_rt by exact Hp. cbn [bind].
  rewrite ex_sp_ok by (repeat split). cbn [bind]. rewrite dec_special_hit. cbv zeta.
  rewrite Hl. reflexivity.
Qed.

Lemma item_binsize : forall x p n, wf_part p && u32 n = true ->
  witem_ok (read_fetch_item x) (ws "BINARY.SIZE[" +++ w_part p +++ ws "] " +++ w_num n) (CBinSize p n).
Proof.
  intros x p n Hw b rest Hb Hr. apply andb_true_iff in Hw. destruct Hw as [Hp Hn].
  apply ws_cat in Hb. destruct Hb as (y & Hy & ->).
  apply wcat_some in Hy. destruct Hy as (pb & y2 & Hpb & Hy2 & ->). apply w_part_inv in Hpb. subst pb.
  apply ws_cat in Hy2. destruct Hy2 as (nb & Hnb & ->).
  unfold w_num, enc_number in Hnb. injection Hnb as <-.
  split; [|istart_closed].
  change (s2b "BINARY.SIZE[") with (s2b "BINARY.SIZE" ++ [ch "["]).
  change (s2b "] ") with [ch "]"; ch " "].
  rewrite <- !app_assoc. cbn [app].
  rewrite item_name by (try reflexivity; discriminate). rewrite body_binsize.
  unfold ex_special at 1. rewrite dec_special_hit. cbn [ex bind].
  rewrite section_binary_rt by exact Hp. cbn [bind].
  rewrite (ex_sp_istart _ _ (dec_istart n)). cbn [bind].
  unfold u32 in Hn. rewrite ex_number_rt; [|lia|apply follow_nodigit; exact Hr]. reflexivity.
Qed.


(* ---------------------------------------------------------------- *)
(* header field lists *)
Lemma astring_item : forall q h, fits h = true -> witem_ok (dec_astring false) (w_string q h) h.
Proof.
  intros q h Hf b rest Hb _. unfold w_string in Hb. apply omap_some in Hb. destruct Hb as (segs & Hs & ->).
  destruct (string_roundtrip (scfg q) h segs rest (fits_int64_of _ Hf) Hs) as (_ & Ha & _).
  change (peer_server (scfg q)) with false in Ha. split; [exact Ha|].
  unfold enc_string in Hs. destruct (valid_quoted (scfg q) h).
  - injection Hs as <-. rewrite flatten_single. istart_closed.
  - destruct (enc_literal_shape _ _ _ Hs) as (plus & _ & E). rewrite E. istart_closed.
Qed.

Lemma header_list_rt : forall q hl b rest, forallb fits hl = true -> w_list (w_string q) hl = Some b ->
  read_header_list (b ++ rest) = DOk hl rest.
Proof.
  intros q hl b rest Hf Hb. rewrite w_list_map in Hb. unfold read_header_list.
  apply (ex_list_items _ (dec_astring false) (map (w_string q) hl)); [|exact Hb].
  clear Hb. induction hl as [|h hl IH]; cbn [map]; constructor.
  - apply astring_item. cbn [forallb] in Hf. apply andb_true_iff in Hf. apply Hf.
  - apply IH. cbn [forallb] in Hf. apply andb_true_iff in Hf. apply Hf.
Qed.

(* ---------------------------------------------------------------- *)
(* readSectionSpec in three steps: part, specifier, "]" and partial *)
Definition spec_body (part : list Z) (spec r : bytes) : dres section :=
  if bytes_eqb spec (s2b "HEADER.FIELDS") then
    do _, r <- ex_sp r; do hl, r <- read_header_list r; DOk (mkSec (s2b "HEADER") part hl [] None false) r
  else if bytes_eqb spec (s2b "HEADER.FIELDS.NOT") then
    do _, r <- ex_sp r; do hl, r <- read_header_list r; DOk (mkSec (s2b "HEADER") part [] hl None false) r
  else DOk (mkSec spec part [] [] None false) r.

Definition sec_after (part : list Z) (dot : bool) (r : bytes) : dres section :=
  if dot || lnil part then
    do spec, r <-
      (if dot then ex_atom r
       else match dec_atom r with DOk a r' => DOk a r' | DNo r' => DOk [] r' | DErr => DErr end);
    spec_body part (ascii_upper spec) r
  else DOk (mkSec [] part [] [] None false) r.

Definition sec_finish (sec : section) (r : bytes) : dres section :=
  do _, r <- ex_special (ch "]") r;
  match dec_special (ch "<") r with
  | DErr => DErr
  | DNo _ => DOk sec r
  | DOk _ r =>
      do off, r <- ex_number64 r;
      do _, r <- ex_special (ch ">") r;
      DOk (mkSec (sec_spec sec) (sec_part sec) (sec_fields sec) (sec_notfields sec) (Some (Z.of_N off, 0%Z)) false) r
  end.

Definition part_then_spec (fuel : nat) (s : bytes) : dres section :=
  let '(part, dot, r) := read_part fuel [] s in sec_after part dot r.

Lemma read_section_spec_eq : forall s,
  read_section_spec s = do sec, r <- part_then_spec (S (length s)) s; sec_finish sec r.
Proof. intros s. unfold read_section_spec, part_then_spec. destruct (read_part (S (length s)) [] s) as [[part dot] r]. reflexivity. Qed.

Lemma sec_after_atom : forall part dot a r r', dot || lnil part = true -> dec_atom r = DOk a r' ->
  sec_after part dot r = spec_body part (ascii_upper a) r'.
Proof.
  intros part dot a r r' H Hd. unfold sec_after. rewrite H. unfold ex_atom. rewrite Hd.
  destruct dot; reflexivity.
Qed.

Lemma part_then_atom : forall p full rest c0 full' fuel, wf_part p = true -> (length p < fuel)%nat ->
  full = c0 :: full' -> is_digit c0 = false -> beqb c0 (ch ".") = false ->
  forallb is_atom_char full = true -> nonatom rest ->
  part_then_spec fuel (part_bytes p ++ (if lnil p then [] else [ch "."]) ++ full ++ rest) =
  spec_body p (ascii_upper full) rest.
Proof.
  intros p full rest c0 full' fuel Hw Hf E Hd Hc Ha Hr. unfold part_then_spec.
  assert (Hatom : dec_atom (full ++ rest) = DOk full rest)
    by (apply dec_atom_app; [rewrite E; discriminate|exact Ha|exact Hr]).
  destruct p as [|z p].
  - cbn [lnil app]. rewrite E. cbn [app]. rewrite read_part_end by assumption.
    rewrite <- E. change (c0 :: full' ++ rest) with ((c0 :: full') ++ rest). rewrite <- E.
    apply sec_after_atom; [reflexivity|exact Hatom].
  - cbn [lnil app]. rewrite E. cbn [app]. rewrite read_part_spec; [|exact Hw|discriminate|exact Hf|exact Hd].
    change (c0 :: full' ++ rest) with ((c0 :: full') ++ rest). rewrite <- E.
    apply sec_after_atom; [reflexivity|exact Hatom].
Qed.

Lemma part_then_nospec : forall p t fuel, wf_part p = true -> (length p < fuel)%nat ->
  part_then_spec fuel (part_bytes p ++ ch "]" :: t) = DOk (mkSec [] p [] [] None false) (ch "]" :: t).
Proof.
  intros p t fuel Hw Hf. unfold part_then_spec.
  rewrite read_part_end; [|exact Hw|exact Hf|reflexivity|reflexivity].
  destruct p as [|z p]; [|reflexivity].
  unfold sec_after. cbn [orb lnil]. unfold dec_atom. rewrite dec_func_no by reflexivity. reflexivity.
Qed.

Lemma spec_body_plain : forall p spec r,
  spec = s2b "HEADER" \/ spec = s2b "TEXT" \/ spec = s2b "MIME" ->
  spec_body p (ascii_upper spec) r = DOk (mkSec spec p [] [] None false) r.
Proof. intros p spec r [->|[->| ->]]; reflexivity. Qed.
Lemma spec_body_fields : forall p r, spec_body p (ascii_upper (s2b "HEADER.FIELDS")) r =
  do _, r <- ex_sp r; do hl, r <- read_header_list r; DOk (mkSec (s2b "HEADER") p hl [] None false) r.
Proof. reflexivity. Qed.
Lemma spec_body_notfields : forall p r, spec_body p (ascii_upper (s2b "HEADER.FIELDS.NOT")) r =
  do _, r <- ex_sp r; do hl, r <- read_header_list r; DOk (mkSec (s2b "HEADER") p [] hl None false) r.
Proof. reflexivity. Qed.

Definition sec_core (s : section) : section :=
  mkSec (sec_spec s) (sec_part s) (sec_fields s) (sec_notfields s) None false.

Lemma known_spec_inv : forall s, known_spec s = true ->
  s = [] \/ s = s2b "HEADER" \/ s = s2b "TEXT" \/ s = s2b "MIME".
Proof.
  intros s H. unfold known_spec in H.
  apply orb_true_iff in H. destruct H as [H|H]; [|right; right; right; apply bytes_eqb_eq; exact H].
  apply orb_true_iff in H. destruct H as [H|H]; [|right; right; left; apply bytes_eqb_eq; exact H].
  apply orb_true_iff in H. destruct H as [H|H]; [|right; left; apply bytes_eqb_eq; exact H].
  left. destruct s; [reflexivity|discriminate].
Qed.

(* the bytes between "BODY[" and "]" *)
Definition w_sec_mid (q : bool) (s : section) : wr :=
  w_part (sec_part s) +++
  (if negb (lnil (sec_part s)) && negb (is_nil (sec_spec s)) then ws "." else Some []) +++
  (if is_nil (sec_spec s) then Some []
   else
     wb (sec_spec s) +++
     (let '(suffix, hl) :=
        if negb (lnil (sec_fields s)) then (s2b ".FIELDS", sec_fields s)
        else if negb (lnil (sec_notfields s)) then (s2b ".FIELDS.NOT", sec_notfields s)
        else ([], []) in
      wb suffix +++ (if lnil hl then Some [] else ws " " +++ w_list (w_string q) hl))).

Definition w_sec_partial (s : section) : wr :=
  match sec_partial s with
  | Some (off, _) => ws "<" +++ w_num64 off +++ ws ">"
  | None => Some []
  end.

Lemma w_section_split : forall q s b, w_section q s = Some b ->
  exists m c, w_sec_mid q s = Some m /\ w_sec_partial s = Some c /\
              b = s2b "BODY[" ++ m ++ ch "]" :: c.
Proof.
  intros q s b H. unfold w_section in H. apply ws_cat in H. destruct H as (y & Hy & ->).
  apply wcat_some in Hy. destruct Hy as (pb & y1 & Hpb & Hy1 & ->).
  apply wcat_some in Hy1. destruct Hy1 as (a & y2 & Ha & Hy2 & ->).
  apply wcat_some in Hy2. destruct Hy2 as (sb & y3 & Hsb & Hy3 & ->).
  apply ws_cat in Hy3. destruct Hy3 as (c & Hc & ->).
  exists (pb ++ a ++ sb), c. split; [|split].
  - unfold w_sec_mid. rewrite Hpb, Ha, Hsb. reflexivity.
  - exact Hc.
  - change (s2b "]") with [ch "]"]. rewrite <- !app_assoc. reflexivity.
Qed.

Lemma section_mid_rt : forall q s m t fuel, wf_section s = true -> w_sec_mid q s = Some m ->
  (length (sec_part s) < fuel)%nat ->
  part_then_spec fuel (m ++ ch "]" :: t) = DOk (sec_core s) (ch "]" :: t).
Proof.
  intros q [spec p fl nfl partial peek] m t fuel Hw Hm Hf.
  unfold wf_section in Hw. unfold w_sec_mid in Hm. unfold sec_core.
  cbn [sec_spec sec_part sec_fields sec_notfields sec_partial] in *.
  apply andb_true_iff in Hw. destruct Hw as [Hw _].
  apply andb_true_iff in Hw. destruct Hw as [Hw Hnfl].
  apply andb_true_iff in Hw. destruct Hw as [Hw Hfl].
  apply andb_true_iff in Hw. destruct Hw as [Hw Hhdr].
  apply andb_true_iff in Hw. destruct Hw as [Hw Hone].
  apply andb_true_iff in Hw. destruct Hw as [Hp Hk].
  apply wcat_some in Hm. destruct Hm as (pb & y1 & Hpb & Hy1 & ->). apply w_part_inv in Hpb. subst pb.
  apply wcat_some in Hy1. destruct Hy1 as (a & sb & Ha & Hsb & ->).
  apply known_spec_inv in Hk. destruct Hk as [->|Hk].
  - (* no specifier *)
    cbn [is_nil negb] in Ha, Hsb. rewrite andb_false_r in Ha. injection Ha as <-. injection Hsb as <-.
    change (bytes_eqb [] (s2b "HEADER")) with false in Hhdr. rewrite orb_false_r in Hhdr.
    apply andb_true_iff in Hhdr. destruct Hhdr as [H1 H2].
    destruct fl; [|discriminate]. destruct nfl; [|discriminate].
    cbn [app]. rewrite <- app_assoc. cbn [app]. apply part_then_nospec; assumption.
  - assert (Hnn : is_nil spec = false) by (destruct Hk as [->|[->| ->]]; reflexivity).
    rewrite Hnn in Ha, Hsb. cbn [negb] in Ha. rewrite andb_true_r in Ha.
    assert (Ea : a = if lnil p then [] else [ch "."]).
    { destruct (lnil p); cbn [negb] in Ha; injection Ha as <-; reflexivity. }
    subst a. clear Ha.
    apply wb_cat in Hsb. destruct Hsb as (y & Hy & ->).
    destruct fl as [|f fl].
    + destruct nfl as [|nf nfl].
      * (* plain specifier *)
        cbn [lnil negb] in Hy. cbn in Hy. injection Hy as <-. rewrite app_nil_r.
        rewrite <- !app_assoc.
        assert (Hs : exists c0 s', spec = c0 :: s' /\ is_digit c0 = false /\ beqb c0 (ch ".") = false /\
                                   forallb is_atom_char spec = true).
        { destruct Hk as [->|[->| ->]]; eexists _, _; repeat split. }
        destruct Hs as (c0 & s' & E & H1 & H2 & H3).
        etransitivity; [apply (part_then_atom p spec (ch "]" :: t) c0 s' fuel Hp Hf E H1 H2 H3); reflexivity|].
        apply spec_body_plain. exact Hk.
      * (* HEADER.FIELDS.NOT *)
        cbn [lnil negb andb orb] in Hhdr. apply bytes_eqb_eq in Hhdr. subst spec.
        cbn [lnil negb] in Hy. apply wb_cat in Hy. destruct Hy as (y2 & Hy2 & ->).
        apply ws_cat in Hy2. destruct Hy2 as (lb & Hlb & ->).
        destruct (ex_list_first _ _ _ _ Hlb) as (lt & Elt).
        rewrite <- !app_assoc.
        change (s2b "HEADER" ++ s2b ".FIELDS.NOT" ++ s2b " " ++ lb ++ ch "]" :: t)
          with (s2b "HEADER.FIELDS.NOT" ++ ch " " :: lb ++ ch "]" :: t).
        etransitivity; [apply (part_then_atom p (s2b "HEADER.FIELDS.NOT") _ (ch "H") (s2b "EADER.FIELDS.NOT") fuel Hp Hf);
                        reflexivity|].
        rewrite spec_body_notfields.
        rewrite ex_sp_istart by (rewrite Elt; istart_closed). cbn [bind].
        rewrite (header_list_rt q _ lb _ Hnfl Hlb). reflexivity.
    + (* HEADER.FIELDS *)
      destruct nfl as [|nf nfl]; [|discriminate].
      cbn [lnil negb andb orb] in Hhdr. apply bytes_eqb_eq in Hhdr. subst spec.
      cbn [lnil negb] in Hy. apply wb_cat in Hy. destruct Hy as (y2 & Hy2 & ->).
      apply ws_cat in Hy2. destruct Hy2 as (lb & Hlb & ->).
      destruct (ex_list_first _ _ _ _ Hlb) as (lt & Elt).
      rewrite <- !app_assoc.
      change (s2b "HEADER" ++ s2b ".FIELDS" ++ s2b " " ++ lb ++ ch "]" :: t)
        with (s2b "HEADER.FIELDS" ++ ch " " :: lb ++ ch "]" :: t).
      etransitivity; [apply (part_then_atom p (s2b "HEADER.FIELDS") _ (ch "H") (s2b "EADER.FIELDS") fuel Hp Hf);
                      reflexivity|].
      rewrite spec_body_fields.
      rewrite ex_sp_istart by (rewrite Elt; istart_closed). cbn [bind].
      rewrite (header_list_rt q _ lb _ Hfl Hlb). reflexivity.
Qed.

Lemma sec_finish_rt : forall s c t, wf_section s = true -> w_sec_partial s = Some c ->
  sec_finish (sec_core s) (ch "]" :: c ++ ch " " :: t) = DOk (norm_section s) (ch " " :: t).
Proof.
  intros [spec p fl nfl partial peek] c t Hw Hc. unfold wf_section in Hw. apply andb_true_iff in Hw.
  destruct Hw as [_ Hw]. unfold w_sec_partial in Hc. unfold sec_core, norm_section.
  cbn [sec_spec sec_part sec_fields sec_notfields sec_partial] in *.
  unfold sec_finish, ex_special. rewrite dec_special_hit. cbn [ex bind].
  destruct partial as [[off sz]|].
  - apply ws_cat in Hc. destruct Hc as (y & Hy & ->). apply cat_ws in Hy. destruct Hy as (nb & Hnb & ->).
    apply w_num64_inv in Hnb. destruct Hnb as [H0 ->]. apply i64_inv in Hw.
    change (s2b "<") with [ch "<"]. change (s2b ">") with [ch ">"]. rewrite <- !app_assoc. cbn [app].
    rewrite dec_special_hit.
    rewrite ex_number64_rt; [|lia|lia|reflexivity]. cbn [bind]. rewrite dec_special_hit. cbn [ex bind].
    cbn [sec_spec sec_part sec_fields sec_notfields]. rewrite Z2N.id by lia. reflexivity.
  - injection Hc as <-. cbn [app]. rewrite dec_special_miss by reflexivity. reflexivity.
Qed.

Lemma item_section : forall x q s data, wf_section s && fits data = true ->
  witem_ok (read_fetch_item x) (w_section q s +++ ws " " +++ w_literal q data)
           (CSection (norm_section s) (Some data)).
Proof.
  intros x q s data Hw b rest Hb Hr. apply andb_true_iff in Hw. destruct Hw as [Hs Hd].
  apply wcat_some in Hb. destruct Hb as (sb & y & Hsb & Hy & ->).
  apply ws_cat in Hy. destruct Hy as (lit & Hlit & ->).
  destruct (w_section_split q s sb Hsb) as (m & c & Hm & Hc & ->).
  split; [|istart_closed].
  destruct (literal_reader q data lit rest Hd Hlit) as [Hl (lt & Elt)].
  change (s2b "BODY[") with (s2b "BODY" ++ [ch "["]). change (s2b " ") with [ch " "].
  rewrite <- !app_assoc. cbn [app].
  rewrite item_name by (try reflexivity; discriminate). rewrite body_body.
  rewrite dec_special_hit. rewrite read_section_spec_eq.
  rewrite (section_mid_rt q s m _ _ Hs Hm).
  - cbn [bind]. rewrite (sec_finish_rt s c _ Hs Hc). cbn [bind].
    rewrite ex_sp_istart by (rewrite Elt; istart_closed). cbn [bind]. rewrite Hl. reflexivity.
  - unfold w_sec_mid in Hm. apply wcat_some in Hm. destruct Hm as (pb & y1 & Hpb & _ & ->).
    apply w_part_inv in Hpb. subst pb. rewrite <- app_assoc. apply part_len.
Qed.


(* ---------------------------------------------------------------- *)
(* every item *)
Lemma items_ok : forall x q nonext extd i, ext_ok x ->
  (forall t, time_ok t = true -> plain (x_fmt_idate x t) = true) ->
  wf_item x nonext extd i = true ->
  Forall2 (witem_ok (read_fetch_item x)) (w_item x q nonext extd i) (norm_item nonext extd i).
Proof.
  intros x q nonext extd i Hx Hp Hw. destruct i as [n|l|z|t|e|bs|s data|p data|p n]; cbn [wf_item w_item norm_item] in *.
  - constructor; [apply item_uid; exact Hw|constructor].
  - constructor; [apply item_flags|constructor].
  - constructor; [apply item_size; exact Hw|constructor].
  - constructor; [apply item_idate; assumption|constructor].
  - constructor; [apply item_envelope; assumption|constructor].
  - apply andb_true_iff in Hw. destruct Hw as [Hw Hh]. apply andb_true_iff in Hw. destruct Hw as [H1 H2].
    apply Forall2_app.
    + destruct nonext; [|constructor]. constructor; [apply item_body_plain; assumption|constructor].
    + destruct extd; [|constructor]. constructor; [apply item_body_ext; assumption|constructor].
  - constructor; [apply item_section; exact Hw|constructor].
  - constructor; [apply item_binary; exact Hw|constructor].
  - constructor; [apply item_binsize; exact Hw|constructor].
Qed.

(* ---------------------------------------------------------------- *)
(* readResponseData's dispatch on the type *)
Definition rd_body (x : ext) (num : N) (typ r : bytes) : dres resp :=
  if is_cond_type typ then do ct, r <- read_resp_text false r; DOk (RCond typ (fst ct) (snd ct)) r
  else if bytes_eqb typ (s2b "CAPABILITY") then do c, r <- read_capability r; DOk (RCapability c) r
  else if bytes_eqb typ (s2b "NAMESPACE") then do _, r <- ex_sp r; do d, r <- read_namespace r; DOk (RNamespace d) r
  else if bytes_eqb typ (s2b "FLAGS") then do _, r <- ex_sp r; do fl, r <- dec_flag_list r; DOk (RFlags fl) r
  else if bytes_eqb typ (s2b "EXISTS") then DOk (RExists num) r
  else if bytes_eqb typ (s2b "RECENT") then DOk RRecent r
  else if bytes_eqb typ (s2b "LIST") then do _, r <- ex_sp r; do d, r <- read_list r; DOk (RList d) r
  else if bytes_eqb typ (s2b "STATUS") then do _, r <- ex_sp r; do d, r <- read_status r; DOk (RStatus d) r
  else if bytes_eqb typ (s2b "FETCH") then
    do _, r <- ex_sp r; if num =? 0 then DErr else do items, r <- read_fetch x r; DOk (RFetch num items) r
  else if bytes_eqb typ (s2b "EXPUNGE") then if num =? 0 then DErr else DOk (RExpunge num) r
  else if bytes_eqb typ (s2b "SEARCH") then do l, r <- read_search r; DOk (RSearch l) r
  else if bytes_eqb typ (s2b "ESEARCH") then do e, r <- read_esearch r; DOk (RESearch e) r
  else DErr.

Lemma read_response_data_num : forall x n s, n < 4294967296 ->
  read_response_data x (dec_of_N n) s =
  do _, r <- ex_sp s; do t, r <- ex_atom r; rd_body x n t r.
Proof.
  intros x n s Hn. unfold read_response_data.
  destruct (dec_first n) as (c & t & E & Hc). rewrite E at 1. rewrite Hc.
  rewrite (parse_uint_dec n M32 Hn).
  destruct (ex_sp s) as [u r| |]; cbn [bind]; try reflexivity.
  destruct (ex_atom r) as [a r'| |]; cbn [bind]; reflexivity.
Qed.

Lemma rd_body_fetch : forall x num r, rd_body x num (s2b "FETCH") r =
  do _, r <- ex_sp r; if num =? 0 then DErr else do items, r <- read_fetch x r; DOk (RFetch num items) r.
Proof. reflexivity. Qed.

Lemma dec_atom_chars : forall n, forallb is_atom_char (dec_of_N n) = true.
Proof.
  intros n. apply forallb_forall. intros c Hc. apply digits_dec in Hc. apply digit_numset_char in Hc. apply Hc.
Qed.

Lemma fetch_line : forall x q nonext extd seq items bs rest, ext_ok x ->
  (forall t, time_ok t = true -> plain (x_fmt_idate x t) = true) ->
  0 < seq -> u32 seq = true -> forallb (wf_item x nonext extd) items = true ->
  w_fetch x q nonext extd seq items = Some bs ->
  read_response x (bs ++ rest) = DOk (RFetch seq (norm_items nonext extd items)) rest.
Proof.
  intros x q nonext extd seq items bs rest Hx Hp Hpos Hu Hw Hb.
  unfold w_fetch in Hb. apply ws_cat in Hb. destruct Hb as (y & Hy & ->).
  apply wcat_some in Hy. destruct Hy as (nb & y1 & Hnb & Hy1 & ->).
  unfold w_num, enc_number in Hnb. injection Hnb as <-.
  apply ws_cat in Hy1. destruct Hy1 as (y2 & Hy2 & ->).
  apply wcat_some in Hy2. destruct Hy2 as (lb & y3 & Hlb & Hy3 & ->).
  unfold wb in Hy3. injection Hy3 as <-.
  destruct (ex_list_first _ _ _ _ Hlb) as (lt & Elt).
  unfold u32 in Hu. apply N.ltb_lt in Hu.
  change (s2b "* ") with [ch "*"; ch " "]. change (s2b " FETCH ") with (ch " " :: s2b "FETCH" ++ [ch " "]).
  rewrite <- !app_assoc. cbn [app]. rewrite <- !app_assoc. cbn [app].
  unfold read_response. rewrite dec_special_miss by reflexivity. rewrite dec_special_hit.
  rewrite (ex_sp_istart _ _ (dec_istart seq)). cbn [bind].
  unfold ex_atom at 1. rewrite dec_atom_app; [|apply dec_nonnil|apply dec_atom_chars|reflexivity].
  cbn [ex bind]. rewrite read_response_data_num by exact Hu.
  rewrite (ex_sp_istart (s2b "FETCH")) by istart_closed. cbn [bind].
  unfold ex_atom. rewrite dec_atom_app; [|discriminate|reflexivity|reflexivity]. cbn [ex bind].
  rewrite rd_body_fetch. rewrite ex_sp_istart by (rewrite Elt; istart_closed). cbn [bind].
  replace (seq =? 0) with false by lia.
  unfold read_fetch, norm_items.
  rewrite (ex_list_items _ (read_fetch_item x) (flat_map (w_item x q nonext extd) items)
             (flat_map (norm_item nonext extd) items) lb (CRLF ++ rest)).
  - cbn [bind]. unfold CRLF. cbn [app]. rewrite dec_crlf_crlf. reflexivity.
  - apply Forall2_flat_map. intros i Hi. apply items_ok; [exact Hx|exact Hp|].
    rewrite forallb_forall in Hw. apply Hw. exact Hi.
  - exact Hlb.
Qed.

Lemma fetch_line_nonnil : forall x q nonext extd seq items bs,
  w_fetch x q nonext extd seq items = Some bs -> bs <> [].
Proof.
  intros x q nonext extd seq items bs H. unfold w_fetch in H. apply ws_cat in H.
  destruct H as (y & _ & ->). discriminate.
Qed.
