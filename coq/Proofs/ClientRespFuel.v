(* Proofs/ClientRespFuel.v — C11: the reader model never runs out of its own fuel and never
   reaches a Go panic (no_fuel, no_crash).

   One invariant, proved in one pass over Model/ClientResp.v with a small weakest-precondition
   calculus: every parser, from every state, ends in Ok or Err (never Fuel, never Crash), the
   remaining input never grows, and the parsers that are iterated consume at least one byte
   whenever they succeed.  Loops get the fuel S (length input) from [with_fuel]; every
   iteration that continues has consumed a byte.                                            *)
From GoImap.Base Require Import Bytes.
From GoImap.Model Require Import NumSet MatchList Utf7 Wire ClientResp.
From GoImap.Proofs Require Import NumSetSpec NumSetProofs ClientRespSpec.
From Coq Require Import Lia.
Local Open Scope nat_scope.

(* ---------------------------------------------------------------------------------------- *)
(* the calculus                                                                              *)

Definition len (s : st) : nat := length (s_in s).

Definition wp {A} (p : P A) (s : st) (K : A -> st -> Prop) : Prop :=
  match p s with
  | Ok v s' => K v s'
  | Err _ => True
  | Fuel => False
  | Crash => False
  end.

Lemma wp_bind : forall A B (p : P A) (q : A -> P B) s K,
  wp p s (fun v s' => wp (q v) s' K) -> wp (bind p q) s K.
Proof. intros A B p q s K. unfold wp, bind. destruct (p s); auto. Qed.

Lemma wp_mono : forall A (p : P A) s (K1 K2 : A -> st -> Prop),
  wp p s K1 -> (forall v s', K1 v s' -> K2 v s') -> wp p s K2.
Proof. intros A p s K1 K2. unfold wp. destruct (p s); auto. Qed.

Lemma wp_ret : forall A (v : A) s (K : A -> st -> Prop), K v s -> wp (ret v) s K.
Proof. intros. exact H. Qed.

Lemma wp_fail : forall A s (K : A -> st -> Prop), wp fail s K.
Proof. intros. exact I. Qed.

Lemma wp_expect_fail : forall A s (K : A -> st -> Prop), wp expect_fail s K.
Proof. intros. exact I. Qed.

Lemma wp_with_fuel : forall A (f : nat -> P A) s K,
  wp (f (S (len s))) s K -> wp (with_fuel f) s K.
Proof. intros. exact H. Qed.

(* postconditions, relative to the state [s] the parser started in *)
Definition le_ {A} (s : st) : A -> st -> Prop := fun _ s' => len s' <= len s.
Definition lt_ {A} (s : st) : A -> st -> Prop := fun _ s' => len s' < len s.
Definition cb_ (s : st) : bool -> st -> Prop :=
  fun b s' => if b then len s' < len s else len s' <= len s.
Definition co_ {A} (s : st) : option A -> st -> Prop :=
  fun o s' => match o with Some _ => len s' < len s | None => len s' <= len s end.
(* a non-empty byte string was taken *)
Definition cone_ (s : st) : option bytes -> st -> Prop :=
  fun o s' => match o with Some a => len s' < len s /\ a <> [] | None => len s' <= len s end.
Definition ltne_ (s : st) : bytes -> st -> Prop := fun a s' => len s' < len s /\ a <> [].

Ltac unf_in H := unfold le_, lt_, cb_, co_, cone_, ltne_ in H; cbv beta in H.
Ltac unf := unfold le_, lt_, cb_, co_, cone_, ltne_; cbv beta.

Ltac norm_hyps :=
  repeat match goal with
         | H : (match ?v with _ => _ end) |- _ =>
             first [ is_var v; destruct v | progress cbv beta iota in H ]
         | H : _ /\ _ |- _ => destruct H
         end.

Ltac finish :=
  unf; norm_hyps; cbv beta iota;
  repeat match goal with |- (match ?v with _ => _ end) => destruct v end;
  repeat split; first [ lia | assumption | discriminate | congruence ].

Create HintDb wpdb.
#[export] Hint Extern 2 (_ < _) => (norm_hyps; lia) : wpdb.
#[export] Hint Extern 2 (_ <= _) => (norm_hyps; lia) : wpdb.
#[export] Hint Extern 2 (_ <> _) => (norm_hyps; first [assumption | discriminate | congruence]) : wpdb.

Ltac intro_post :=
  let v := fresh "v" in let s := fresh "s" in let H := fresh "H" in
  intros v s H; unf_in H; cbv beta.

Ltac list_step := fail.

Ltac step :=
  lazymatch goal with
  | |- wp (bind _ _) _ _ => apply wp_bind
  | |- wp (ret _) _ _ => apply wp_ret; cbv beta
  | |- wp fail _ _ => exact I
  | |- wp expect_fail _ _ => exact I
  | |- wp (match ?o with _ => _ end) _ _ => destruct o; cbv beta iota zeta
  | |- wp (plist _ _) _ _ => list_step
  | |- wp (expect_list _ _) _ _ => list_step
  | |- wp (expect_nlist _ _) _ _ => list_step
  | |- wp (with_fuel _) _ _ => apply wp_with_fuel; cbv beta
  | |- wp _ _ _ => eapply wp_mono; [ solve [ eauto 3 with wpdb ] | intro_post ]
  | |- _ => finish
  end.

Ltac run_with tac := cbv beta zeta; repeat first [ tac | step ].
Ltac run := run_with fail.

(* ---------------------------------------------------------------------------------------- *)
(* instruments                                                                               *)

Lemma tick_spec : forall s, wp tick s (le_ s).
Proof. intros s. unfold wp, tick, le_, len. cbn. lia. Qed.
Lemma note_depth_spec : forall d s, wp (note_depth d) s (le_ s).
Proof. intros d s. unfold wp, note_depth, le_, len. cbn. lia. Qed.
Lemma emit_spec : forall e s, wp (emit e) s (le_ s).
Proof. intros e s. unfold wp, emit, le_, len. cbn. lia. Qed.
Lemma mark_err_spec : forall s, wp mark_err s (le_ s).
Proof. intros s. unfold wp, mark_err, le_, len. cbn. lia. Qed.
Lemma err_is_set_spec : forall s, wp err_is_set s (le_ s).
Proof. intros s. unfold wp, err_is_set, le_, len. cbn. lia. Qed.
#[export] Hint Resolve tick_spec note_depth_spec emit_spec mark_err_spec err_is_set_spec : wpdb.

(* ---------------------------------------------------------------------------------------- *)
(* primitives                                                                                *)

Lemma len_set_in : forall s i, len (set_in s i) = length i.
Proof. reflexivity. Qed.
Lemma len_set_err : forall s, len (set_err s) = len s.
Proof. reflexivity. Qed.

Lemma special_spec : forall c s, wp (special c) s (cb_ s).
Proof.
  intros c s. unfold wp, special, cb_.
  destruct (s_in s) as [|x r] eqn:E.
  - rewrite len_set_err. lia.
  - destruct (beqb x c); rewrite ?len_set_in; unfold len; rewrite ?E; cbn [length]; lia.
Qed.
#[export] Hint Resolve special_spec : wpdb.

Lemma expect_special_spec : forall c s, wp (expect_special c) s (lt_ s).
Proof. intros. unfold expect_special. run. Qed.
#[export] Hint Resolve expect_special_spec : wpdb.

Lemma sp_spec : forall s, wp sp s (le_ s).
Proof.
  intros s. unfold wp, sp, le_.
  destruct (s_in s) as [|x r] eqn:E.
  - rewrite len_set_err. lia.
  - destruct (beqb x SP_).
    + destruct r; rewrite ?len_set_err, ?len_set_in; unfold len; rewrite E; cbn [length]; lia.
    + lia.
Qed.
#[export] Hint Resolve sp_spec : wpdb.

Lemma expect_sp_spec : forall s, wp expect_sp s (le_ s).
Proof. intros. unfold expect_sp. run. Qed.
#[export] Hint Resolve expect_sp_spec : wpdb.

Lemma crlf_spec : forall s, wp crlf s (le_ s).
Proof. intros. unfold crlf. run. Qed.
#[export] Hint Resolve crlf_spec : wpdb.

Lemma expect_crlf_spec : forall s, wp expect_crlf s (le_ s).
Proof. intros. unfold expect_crlf. run. Qed.
#[export] Hint Resolve expect_crlf_spec : wpdb.

Lemma take_while_len : forall valid s a rest,
  take_while valid s = Some (a, rest) -> length s = length a + length rest.
Proof.
  induction s as [|c r IH]; intros a rest H; cbn in H; [discriminate|].
  destruct (valid c).
  - destruct (take_while valid r) as [[a' rest']|]; [|discriminate].
    inversion H; subst. cbn. rewrite (IH a' rest eq_refl). lia.
  - inversion H; subst. cbn. lia.
Qed.

Lemma func_spec : forall valid s, wp (func valid) s (cone_ s).
Proof.
  intros valid s. unfold wp, func, cone_.
  destruct (take_while valid (s_in s)) as [[a rest]|] eqn:E.
  - apply take_while_len in E.
    destruct a; [lia|]. split; [|discriminate]. rewrite len_set_in. unfold len. rewrite E. cbn [length]. lia.
  - rewrite len_set_err, len_set_in. cbn [length]. lia.
Qed.
#[export] Hint Resolve func_spec : wpdb.

Lemma atom_spec : forall s, wp atom s (cone_ s).
Proof. intros. unfold atom. apply func_spec. Qed.
Lemma text_spec : forall s, wp text s (cone_ s).
Proof. intros. unfold text. apply func_spec. Qed.
#[export] Hint Resolve atom_spec text_spec : wpdb.

Lemma expect_atom_spec : forall s, wp expect_atom s (ltne_ s).
Proof. intros. unfold expect_atom. run. Qed.
#[export] Hint Resolve expect_atom_spec : wpdb.

Lemma expect_nil_spec : forall s, wp expect_nil s (lt_ s).
Proof. intros. unfold expect_nil. run. Qed.
#[export] Hint Resolve expect_nil_spec : wpdb.

Lemma discard_until_spec : forall c s, wp (discard_until c) s (le_ s).
Proof.
  intros c s. unfold wp, discard_until, le_.
  destruct (take_while _ (s_in s)) as [[a rest]|] eqn:E.
  - apply take_while_len in E. rewrite len_set_in. unfold len. lia.
  - rewrite len_set_err, len_set_in. cbn [length]. lia.
Qed.
#[export] Hint Resolve discard_until_spec : wpdb.

Lemma uint_spec : forall bound s, wp (uint bound) s (co_ s).
Proof. intros. unfold uint. run. Qed.
#[export] Hint Resolve uint_spec : wpdb.
Lemma number_spec : forall s, wp number s (co_ s).
Proof. intros. apply uint_spec. Qed.
Lemma number64_spec : forall s, wp number64 s (co_ s).
Proof. intros. apply uint_spec. Qed.
Lemma modseq_spec : forall s, wp modseq s (co_ s).
Proof. intros. apply uint_spec. Qed.
#[export] Hint Resolve number_spec number64_spec modseq_spec : wpdb.

Lemma expect_of_spec : forall A (p : P (option A)),
  (forall s, wp p s (co_ s)) -> forall s, wp (expect_of p) s (lt_ s).
Proof. intros A p Hp s. unfold expect_of. run. Qed.

Lemma expect_number_spec : forall s, wp expect_number s (lt_ s).
Proof. apply expect_of_spec, number_spec. Qed.
Lemma expect_number64_spec : forall s, wp expect_number64 s (lt_ s).
Proof. apply expect_of_spec, number64_spec. Qed.
Lemma expect_modseq_spec : forall s, wp expect_modseq s (lt_ s).
Proof. apply expect_of_spec, modseq_spec. Qed.
#[export] Hint Resolve expect_number_spec expect_number64_spec expect_modseq_spec : wpdb.

Lemma expect_body_fld_octets_spec : forall s, wp expect_body_fld_octets s (lt_ s).
Proof. intros. unfold expect_body_fld_octets. run. Qed.
#[export] Hint Resolve expect_body_fld_octets_spec : wpdb.

(* ---------------------------------------------------------------------------------------- *)
(* strings                                                                                   *)

Lemma quoted_body_len : forall n s a rest, length s <= n ->
  quoted_body s = Some (a, rest) -> length rest < length s.
Proof.
  induction n; intros s a rest Hn H.
  - destruct s; [discriminate | cbn in Hn; lia].
  - destruct s as [|c r]; [discriminate|]. cbn [quoted_body] in H. cbn [length] in *.
    destruct (beqb c DQ_).
    + inversion H; subst. lia.
    + destruct (beqb c BSL_).
      * destruct r as [|e r']; [discriminate|].
        destruct (quoted_body r') as [[a' rest']|] eqn:E; [|discriminate].
        inversion H; subst. apply IHn in E; cbn [length] in *; lia.
      * destruct (quoted_body r) as [[a' rest']|] eqn:E; [|discriminate].
        inversion H; subst. apply IHn in E; lia.
Qed.

Definition quoted_tail : P (option bytes) :=
  fun s => match quoted_body (s_in s) with
           | Some (a, rest) => Ok (Some a) (set_in s rest)
           | None => Ok None (set_err (set_in s []))
           end.

Lemma quoted_tail_spec : forall s, wp quoted_tail s (le_ s).
Proof.
  intros s. unfold wp, quoted_tail, le_.
  destruct (quoted_body (s_in s)) as [[a rest]|] eqn:E.
  - apply (quoted_body_len _ _ _ _ (le_n _)) in E. rewrite len_set_in. unfold len. lia.
  - rewrite len_set_err, len_set_in. cbn [length]. lia.
Qed.
#[export] Hint Resolve quoted_tail_spec : wpdb.

Lemma quoted_eq : quoted = (q <- special DQ_ ;; if q then quoted_tail else ret None).
Proof. reflexivity. Qed.

Lemma quoted_spec : forall s, wp quoted s (co_ s).
Proof. intros. rewrite quoted_eq. run. Qed.
#[export] Hint Resolve quoted_spec : wpdb.

Definition literal_payload (size : N) : P (option bytes) :=
  fun s =>
    let l := s_in s in
    if (N.of_nat (length l) <=? size)%N then Ok (Some l) (set_in s [])
    else Ok (Some (firstn (N.to_nat size) l)) (set_in s (skipn (N.to_nat size) l)).

Lemma literal_payload_spec : forall size s, wp (literal_payload size) s (le_ s).
Proof.
  intros size s. unfold wp, literal_payload, le_. cbv zeta.
  destruct (N.of_nat (length (s_in s)) <=? size)%N; rewrite len_set_in.
  - cbn [length]. lia.
  - rewrite skipn_length. unfold len. lia.
Qed.
#[export] Hint Resolve literal_payload_spec : wpdb.

Lemma literal_eq : literal =
  (o <- special (ch "{") ;;
   if o then
     n <- number64 ;;
     match n with
     | None => mark_err ;;; ret None
     | Some size =>
         c <- special (ch "}") ;;
         if c then
           e <- crlf ;;
           if e then literal_payload size else mark_err ;;; ret None
         else mark_err ;;; ret None
     end
   else ret None).
Proof. reflexivity. Qed.

Lemma literal_spec : forall s, wp literal s (co_ s).
Proof. intros. rewrite literal_eq. run. Qed.
#[export] Hint Resolve literal_spec : wpdb.

Lemma string_spec : forall s, wp string_ s (co_ s).
Proof. intros. unfold string_. run. Qed.
#[export] Hint Resolve string_spec : wpdb.

Lemma expect_string_spec : forall s, wp expect_string s (lt_ s).
Proof. apply expect_of_spec, string_spec. Qed.
#[export] Hint Resolve expect_string_spec : wpdb.

Lemma expect_astring_spec : forall s, wp expect_astring s (lt_ s).
Proof. intros. unfold expect_astring. run. Qed.
#[export] Hint Resolve expect_astring_spec : wpdb.

Lemma expect_nstring_spec : forall s, wp expect_nstring s (lt_ s).
Proof. intros. unfold expect_nstring. run. Qed.
#[export] Hint Resolve expect_nstring_spec : wpdb.

Lemma expect_nstring_reader_spec : forall s, wp expect_nstring_reader s (lt_ s).
Proof. intros. unfold expect_nstring_reader. run. Qed.
#[export] Hint Resolve expect_nstring_reader_spec : wpdb.

Lemma expect_mailbox_spec : forall s, wp expect_mailbox s (lt_ s).
Proof. intros. unfold expect_mailbox. run. Qed.
#[export] Hint Resolve expect_mailbox_spec : wpdb.

(* Set.insert never panics on what the number-set grammar accepts *)
Lemma parse_set_no_panic : forall t, parse_set t <> Some None.
Proof.
  intros t H. destruct (parse_only_grammar _ _ H) as (rs & G).
  destruct (parse_accepts_grammar _ _ G) as (s & E & _). congruence.
Qed.

Lemma expect_numset_spec : forall s, wp expect_numset s (lt_ s).
Proof.
  intros. unfold expect_numset.
  run_with ltac:(idtac; lazymatch goal with
                 | |- wp (match parse_set ?t with _ => _ end) _ _ =>
                     let E := fresh "E" in
                     destruct (parse_set t) as [[?|]|] eqn:E;
                     [ | exfalso; exact (parse_set_no_panic _ E) | ]
                 end).
Qed.
#[export] Hint Resolve expect_numset_spec : wpdb.

(* ---------------------------------------------------------------------------------------- *)
(* lists                                                                                     *)

Lemma list_items_spec : forall A (item : P A) n,
  (forall s, len s < n -> wp item s (lt_ s)) ->
  forall k acc s, len s < k -> len s < n -> wp (list_items k item acc) s (le_ s).
Proof.
  intros A item n Hitem. induction k; intros acc s Hk Hn; [lia|].
  cbn [list_items]. run.
Qed.

Lemma plist_spec_b : forall A (item : nat -> P A) n,
  (forall d s, len s < n -> wp (item d) s (lt_ s)) ->
  forall ld s, len s <= n -> wp (plist ld item) s (co_ s).
Proof.
  intros A item n Hitem ld s Hn. unfold plist.
  run_with ltac:(idtac; lazymatch goal with
                 | |- wp (list_items _ _ _) _ _ =>
                     eapply wp_mono;
                     [ apply (list_items_spec _ _ n);
                       [ intros; apply Hitem; assumption | norm_hyps; lia | norm_hyps; lia ]
                     | intro_post ]
                 end).
Qed.

Lemma plist_spec : forall A (item : nat -> P A),
  (forall d s, wp (item d) s (lt_ s)) -> forall ld s, wp (plist ld item) s (co_ s).
Proof. intros. apply plist_spec_b with (n := len s); auto. Qed.

Lemma expect_list_spec : forall A (item : nat -> P A),
  (forall d s, wp (item d) s (lt_ s)) -> forall ld s, wp (expect_list ld item) s (lt_ s).
Proof.
  intros A item Hitem ld s. unfold expect_list. apply wp_bind.
  eapply wp_mono; [apply plist_spec; exact Hitem | intro_post]. run.
Qed.

Lemma expect_nlist_spec : forall A (item : nat -> P A),
  (forall d s, wp (item d) s (lt_ s)) -> forall ld s, wp (expect_nlist ld item) s (lt_ s).
Proof.
  intros A item Hitem ld s. unfold expect_nlist. apply wp_bind.
  eapply wp_mono; [apply atom_spec | intro_post].
  destruct v as [v|]; [run|].
  eapply wp_mono; [apply expect_list_spec; exact Hitem | intro_post]. run.
Qed.

Ltac list_step ::=
  lazymatch goal with
  | |- wp (plist _ _) _ _ =>
      eapply wp_mono; [ apply plist_spec; intros ? ?; cbv beta | intro_post ]
  | |- wp (expect_list _ _) _ _ =>
      eapply wp_mono; [ apply expect_list_spec; intros ? ?; cbv beta | intro_post ]
  | |- wp (expect_nlist _ _) _ _ =>
      eapply wp_mono; [ apply expect_nlist_spec; intros ? ?; cbv beta | intro_post ]
  end.

(* ---------------------------------------------------------------------------------------- *)
(* DiscardValue                                                                              *)

Lemma discard_value_spec : forall f ld rd s, len s < f -> wp (discard_value f ld rd) s (lt_ s).
Proof.
  induction f; intros ld rd s Hf; [lia|].
  cbn [discard_value].
  run_with ltac:(idtac; lazymatch goal with
                 | |- wp (plist _ _) _ _ =>
                     eapply wp_mono;
                     [ apply plist_spec_b with (n := f);
                       [ intros; cbv beta; apply IHf; assumption | norm_hyps; lia ]
                     | intro_post ]
                 end).
Qed.
#[export] Hint Resolve discard_value_spec : wpdb.

Lemma discard_value_top_spec : forall ld rd s, wp (discard_value_top ld rd) s (lt_ s).
Proof. intros. unfold discard_value_top. run. Qed.
#[export] Hint Resolve discard_value_top_spec : wpdb.

Lemma discard_values_spec : forall k ld rd s, len s < k -> wp (discard_values k ld rd) s (le_ s).
Proof.
  induction k; intros ld rd s Hk; [lia|].
  cbn [discard_values]. run.
Qed.
#[export] Hint Resolve discard_values_spec : wpdb.

(* ---------------------------------------------------------------------------------------- *)
(* dates, flags, capabilities                                                                *)

Lemma expect_datetime_spec : forall s, wp expect_datetime s (lt_ s).
Proof. intros. unfold expect_datetime. run. Qed.
#[export] Hint Resolve expect_datetime_spec : wpdb.

Lemma expect_flag_spec : forall s, wp expect_flag s (lt_ s).
Proof. intros. unfold expect_flag. run. Qed.
#[export] Hint Resolve expect_flag_spec : wpdb.

Lemma expect_flag_list_spec : forall ld s, wp (expect_flag_list ld) s (lt_ s).
Proof. intros. unfold expect_flag_list. run. Qed.
#[export] Hint Resolve expect_flag_list_spec : wpdb.

Lemma expect_mailbox_attr_spec : forall s, wp expect_mailbox_attr s (lt_ s).
Proof. intros. unfold expect_mailbox_attr. run. Qed.
#[export] Hint Resolve expect_mailbox_attr_spec : wpdb.

Lemma read_caps_spec : forall k acc s, len s < k -> wp (read_caps k acc) s (le_ s).
Proof. induction k; intros acc s Hk; [lia|]. cbn [read_caps]. run. Qed.
#[export] Hint Resolve read_caps_spec : wpdb.

Lemma read_capabilities_spec : forall s, wp read_capabilities s (le_ s).
Proof. intros. unfold read_capabilities. run. Qed.
#[export] Hint Resolve read_capabilities_spec : wpdb.

(* ---------------------------------------------------------------------------------------- *)
(* FETCH                                                                                     *)

Lemma read_address_spec : forall s, wp read_address s (lt_ s).
Proof. intros. unfold read_address. run. Qed.
#[export] Hint Resolve read_address_spec : wpdb.

Lemma read_address_list_spec : forall ld s, wp (read_address_list ld) s (lt_ s).
Proof. intros. unfold read_address_list. run. Qed.
#[export] Hint Resolve read_address_list_spec : wpdb.

Lemma read_envelope_spec : forall ld s, wp (read_envelope ld) s (lt_ s).
Proof. intros. unfold read_envelope. run. Qed.
#[export] Hint Resolve read_envelope_spec : wpdb.

Lemma read_body_fld_param_spec : forall ld s, wp (read_body_fld_param ld) s (lt_ s).
Proof. intros. unfold read_body_fld_param. run. Qed.
#[export] Hint Resolve read_body_fld_param_spec : wpdb.

Lemma read_body_fld_dsp_spec : forall ld s, wp (read_body_fld_dsp ld) s (lt_ s).
Proof. intros. unfold read_body_fld_dsp. run. Qed.
#[export] Hint Resolve read_body_fld_dsp_spec : wpdb.

Lemma read_body_fld_lang_spec : forall ld s, wp (read_body_fld_lang ld) s (lt_ s).
Proof. intros. unfold read_body_fld_lang. run. Qed.
#[export] Hint Resolve read_body_fld_lang_spec : wpdb.

Lemma read_body_ext_tail_spec : forall ld s, wp (read_body_ext_tail ld) s (le_ s).
Proof. intros. unfold read_body_ext_tail. run. Qed.
#[export] Hint Resolve read_body_ext_tail_spec : wpdb.

Lemma read_body_ext_1part_spec : forall ld s, wp (read_body_ext_1part ld) s (lt_ s).
Proof. intros. unfold read_body_ext_1part. run. Qed.
#[export] Hint Resolve read_body_ext_1part_spec : wpdb.

Lemma read_body_ext_mpart_spec : forall ld s, wp (read_body_ext_mpart ld) s (lt_ s).
Proof. intros. unfold read_body_ext_mpart. run. Qed.
#[export] Hint Resolve read_body_ext_mpart_spec : wpdb.

(* the loop of readBodyTypeMpart over the child bodies, for any reader of one child *)
Definition children_loop (child : P bstruct) : nat -> list bstruct -> P (list bstruct * bytes) :=
  fix children (k : nat) (acc : list bstruct) : P (list bstruct * bytes) :=
    match k with
    | O => out_of_fuel
    | S k' =>
        tick ;;;
        c <- child ;;
        b <- sp ;;
        if b then
          st <- string_ ;;
          match st with
          | Some sub => ret (rev (c :: acc), sub)
          | None => children k' (c :: acc)
          end
        else children k' (c :: acc)
    end.

Lemma children_loop_S : forall child k acc,
  children_loop child (S k) acc =
  (tick ;;;
   c <- child ;;
   b <- sp ;;
   if b then
     st <- string_ ;;
     match st with
     | Some sub => ret (rev (c :: acc), sub)
     | None => children_loop child k (c :: acc)
     end
   else children_loop child k (c :: acc)).
Proof. reflexivity. Qed.

Lemma children_loop_spec : forall child n,
  (forall s, len s < n -> wp child s (lt_ s)) ->
  forall k acc s, len s < k -> len s < n -> wp (children_loop child k acc) s (lt_ s).
Proof.
  intros child n Hc. induction k; intros acc s Hk Hn; [lia|].
  rewrite children_loop_S. run.
Qed.

Lemma read_body_spec : forall f ld bd rd s, len s < f -> wp (read_body f ld bd rd) s (lt_ s).
Proof.
  induction f; intros ld bd rd s Hf; [lia|].
  cbn [read_body].
  match goal with
  | |- context [with_fuel (fun k => ?F k [])] =>
      change F with (children_loop (read_body f ld (S bd) (S rd)))
  end.
  run_with ltac:(idtac; lazymatch goal with
                 | |- wp (children_loop _ _ _) _ _ =>
                     eapply wp_mono;
                     [ apply children_loop_spec with (n := f);
                       [ intros; apply IHf; assumption | norm_hyps; lia | norm_hyps; lia ]
                     | intro_post ]
                 end).
Qed.
#[export] Hint Resolve read_body_spec : wpdb.

Lemma read_body_top_spec : forall ld s, wp (read_body_top ld) s (lt_ s).
Proof. intros. unfold read_body_top. run. Qed.
#[export] Hint Resolve read_body_top_spec : wpdb.

Lemma read_section_part_spec : forall k acc s, len s < k -> wp (read_section_part k acc) s (le_ s).
Proof. induction k; intros acc s Hk; [lia|]. cbn [read_section_part]. run. Qed.
#[export] Hint Resolve read_section_part_spec : wpdb.

Lemma section_part_spec : forall s, wp section_part s (le_ s).
Proof. intros. unfold section_part. run. Qed.
#[export] Hint Resolve section_part_spec : wpdb.

Lemma read_partial_offset_spec : forall s, wp read_partial_offset s (le_ s).
Proof. intros. unfold read_partial_offset. run. Qed.
#[export] Hint Resolve read_partial_offset_spec : wpdb.

Lemma read_section_spec_spec : forall ld s, wp (read_section_spec ld) s (lt_ s).
Proof. intros. unfold read_section_spec. run. Qed.
#[export] Hint Resolve read_section_spec_spec : wpdb.

Lemma read_msg_att_spec : forall s, wp read_msg_att s (lt_ s).
Proof. intros. unfold read_msg_att. run. Qed.
#[export] Hint Resolve read_msg_att_spec : wpdb.

Lemma handle_fetch_spec : forall seq s, wp (handle_fetch seq) s (le_ s).
Proof. intros. unfold handle_fetch. run. Qed.
#[export] Hint Resolve handle_fetch_spec : wpdb.

(* ---------------------------------------------------------------------------------------- *)
(* SEARCH, ESEARCH, SORT, THREAD                                                             *)

Lemma search_nums_spec : forall k s, len s < k -> wp (search_nums k) s (le_ s).
Proof. induction k; intros s Hk; [lia|]. cbn [search_nums]. run. Qed.
#[export] Hint Resolve search_nums_spec : wpdb.

Lemma handle_search_spec : forall s, wp handle_search s (le_ s).
Proof. intros. unfold handle_search. run. Qed.
#[export] Hint Resolve handle_search_spec : wpdb.

Lemma esearch_items_spec : forall k name d s, len s < k -> wp (esearch_items k name d) s (le_ s).
Proof. induction k; intros name d s Hk; [lia|]. cbn [esearch_items]. run. Qed.
#[export] Hint Resolve esearch_items_spec : wpdb.

Lemma read_esearch_spec : forall s, wp read_esearch s (le_ s).
Proof. intros. unfold read_esearch. run. Qed.
#[export] Hint Resolve read_esearch_spec : wpdb.

Lemma handle_esearch_spec : forall s, wp handle_esearch s (le_ s).
Proof. intros. unfold handle_esearch. run. Qed.
#[export] Hint Resolve handle_esearch_spec : wpdb.

Lemma sort_nums_spec : forall k s, len s < k -> wp (sort_nums k) s (le_ s).
Proof. induction k; intros s Hk; [lia|]. cbn [sort_nums]. run. Qed.
#[export] Hint Resolve sort_nums_spec : wpdb.

Lemma handle_sort_spec : forall s, wp handle_sort s (le_ s).
Proof. intros. unfold handle_sort. run. Qed.
#[export] Hint Resolve handle_sort_spec : wpdb.

(* the loop of readThreadList over the members of one list, for any reader of a sub-thread *)
Definition items_loop (sub : P thread) : nat -> list N -> list thread -> P thread :=
  fix items (k : nat) (chain : list N) (subs : list thread) : P thread :=
    match k with
    | O => out_of_fuel
    | S k' =>
        tick ;;;
        n <- (if nilb subs then number else ret None) ;;
        cs <- match n with
              | Some v => if (v =? 0)%N then fail else ret (v :: chain, subs)
              | None => t <- sub ;; ret (chain, t :: subs)
              end ;;
        c <- special (ch ")") ;;
        if c then ret (Thread (rev (fst cs)) (rev (snd cs)))
        else expect_sp ;;; items k' (fst cs) (snd cs)
    end.

Lemma items_loop_S : forall sub k chain subs,
  items_loop sub (S k) chain subs =
  (tick ;;;
   n <- (if nilb subs then number else ret None) ;;
   cs <- match n with
         | Some v => if (v =? 0)%N then fail else ret (v :: chain, subs)
         | None => t <- sub ;; ret (chain, t :: subs)
         end ;;
   c <- special (ch ")") ;;
   if c then ret (Thread (rev (fst cs)) (rev (snd cs)))
   else expect_sp ;;; items_loop sub k (fst cs) (snd cs)).
Proof. reflexivity. Qed.

Lemma items_loop_spec : forall sub n,
  (forall s, len s < n -> wp sub s (lt_ s)) ->
  forall k chain subs s, len s < k -> len s < n -> wp (items_loop sub k chain subs) s (le_ s).
Proof.
  intros sub n Hs. induction k; intros chain subs s Hk Hn; [lia|].
  rewrite items_loop_S. run.
Qed.

Lemma read_thread_list_spec : forall f ld rd s, len s < f -> wp (read_thread_list f ld rd) s (lt_ s).
Proof.
  induction f; intros ld rd s Hf; [lia|].
  cbn [read_thread_list].
  match goal with
  | |- context [with_fuel (fun k => ?F k [] [])] =>
      change F with (items_loop (read_thread_list f (S ld) (S rd)))
  end.
  run_with ltac:(idtac; lazymatch goal with
                 | |- wp (items_loop _ _ _ _) _ _ =>
                     eapply wp_mono;
                     [ apply items_loop_spec with (n := f);
                       [ intros; apply IHf; assumption | norm_hyps; lia | norm_hyps; lia ]
                     | intro_post ]
                 end).
Qed.
#[export] Hint Resolve read_thread_list_spec : wpdb.

Lemma thread_lists_spec : forall k s, len s < k -> wp (thread_lists k) s (le_ s).
Proof. induction k; intros s Hk; [lia|]. cbn [thread_lists]. run. Qed.
#[export] Hint Resolve thread_lists_spec : wpdb.

Lemma handle_thread_spec : forall s, wp handle_thread s (le_ s).
Proof. intros. unfold handle_thread. run. Qed.
#[export] Hint Resolve handle_thread_spec : wpdb.

(* ---------------------------------------------------------------------------------------- *)
(* LIST, STATUS, NAMESPACE, QUOTA, QUOTAROOT, METADATA                                       *)

Lemma read_delim_spec : forall s, wp read_delim s (lt_ s).
Proof. intros. unfold read_delim. run. Qed.
#[export] Hint Resolve read_delim_spec : wpdb.

Lemma read_list_ext_item_spec : forall s, wp read_list_ext_item s (lt_ s).
Proof. intros. unfold read_list_ext_item. run. Qed.
#[export] Hint Resolve read_list_ext_item_spec : wpdb.

Lemma handle_list_spec : forall s, wp handle_list s (le_ s).
Proof. intros. unfold handle_list. run. Qed.
#[export] Hint Resolve handle_list_spec : wpdb.

Lemma read_status_att_spec : forall s, wp read_status_att s (lt_ s).
Proof. intros. unfold read_status_att. run. Qed.
#[export] Hint Resolve read_status_att_spec : wpdb.

Lemma handle_status_spec : forall s, wp handle_status s (le_ s).
Proof. intros. unfold handle_status. run. Qed.
#[export] Hint Resolve handle_status_spec : wpdb.

Lemma read_namespace_descr_spec : forall s, wp read_namespace_descr s (lt_ s).
Proof. intros. unfold read_namespace_descr. run. Qed.
#[export] Hint Resolve read_namespace_descr_spec : wpdb.

Lemma read_namespace_spec : forall s, wp read_namespace s (lt_ s).
Proof. intros. unfold read_namespace. run. Qed.
#[export] Hint Resolve read_namespace_spec : wpdb.

Lemma handle_namespace_spec : forall s, wp handle_namespace s (le_ s).
Proof. intros. unfold handle_namespace. run. Qed.
#[export] Hint Resolve handle_namespace_spec : wpdb.

Lemma handle_quota_spec : forall s, wp handle_quota s (le_ s).
Proof. intros. unfold handle_quota. run. Qed.
#[export] Hint Resolve handle_quota_spec : wpdb.

Lemma quota_roots_spec : forall k acc s, len s < k -> wp (quota_roots k acc) s (le_ s).
Proof. induction k; intros acc s Hk; [lia|]. cbn [quota_roots]. run. Qed.
#[export] Hint Resolve quota_roots_spec : wpdb.

Lemma handle_quotaroot_spec : forall s, wp handle_quotaroot s (le_ s).
Proof. intros. unfold handle_quotaroot. run. Qed.
#[export] Hint Resolve handle_quotaroot_spec : wpdb.

Lemma metadata_entries_spec : forall k acc s, len s < k -> wp (metadata_entries k acc) s (le_ s).
Proof. induction k; intros acc s Hk; [lia|]. cbn [metadata_entries]. run. Qed.
#[export] Hint Resolve metadata_entries_spec : wpdb.

Lemma handle_metadata_spec : forall s, wp handle_metadata s (le_ s).
Proof. intros. unfold handle_metadata. run. Qed.
#[export] Hint Resolve handle_metadata_spec : wpdb.

(* ---------------------------------------------------------------------------------------- *)
(* status responses, response codes, tagged responses                                        *)

Lemma read_copyuid_spec : forall s, wp read_copyuid s (lt_ s).
Proof. intros. unfold read_copyuid. run. Qed.
#[export] Hint Resolve read_copyuid_spec : wpdb.

Lemma read_other_code_spec : forall s, wp read_other_code s (le_ s).
Proof. intros. unfold read_other_code. run. Qed.
#[export] Hint Resolve read_other_code_spec : wpdb.

Lemma read_tagged_code_spec : forall name s, wp (read_tagged_code name) s (le_ s).
Proof. intros. unfold read_tagged_code. run. Qed.
#[export] Hint Resolve read_tagged_code_spec : wpdb.

Lemma read_untagged_code_spec : forall name s, wp (read_untagged_code name) s (le_ s).
Proof. intros. unfold read_untagged_code. run. Qed.
#[export] Hint Resolve read_untagged_code_spec : wpdb.

Lemma read_resp_text_spec : forall code_reader,
  (forall name s, wp (code_reader name) s (le_ s)) ->
  forall s, wp (read_resp_text code_reader) s (le_ s).
Proof. intros code_reader Hc s. unfold read_resp_text. run. Qed.
#[export] Hint Resolve read_resp_text_spec : wpdb.

Lemma read_response_tagged_spec : forall tags tag typ s,
  wp (read_response_tagged tags tag typ) s (le_ s).
Proof. intros. unfold read_response_tagged. run. Qed.
#[export] Hint Resolve read_response_tagged_spec : wpdb.

Lemma read_response_data_spec : forall typ0 s, typ0 <> [] ->
  wp (read_response_data typ0) s (le_ s).
Proof.
  intros typ0 s Hne. unfold read_response_data.
  destruct typ0 as [|c0 r0]; [congruence|]. run.
Qed.
#[export] Hint Resolve read_response_data_spec : wpdb.

Lemma read_continue_req_spec : forall s, wp read_continue_req s (le_ s).
Proof. intros. unfold read_continue_req. run. Qed.
#[export] Hint Resolve read_continue_req_spec : wpdb.

Lemma read_response_spec : forall tags s, wp (read_response tags) s (lt_ s).
Proof. intros. unfold read_response. run. Qed.
#[export] Hint Resolve read_response_spec : wpdb.

Lemma read_loop_spec : forall k tags s, len s < k -> wp (read_loop k tags) s (fun _ _ => True).
Proof.
  induction k; intros tags s Hk; [lia|].
  cbn [read_loop]. unfold wp at 1.
  destruct (s_in s) eqn:E; [exact I|].
  change (wp (tick ;;; tags' <- read_response tags ;; read_loop k tags') s (fun _ _ => True)).
  run.
Qed.

Lemma read_stream_wp : forall tags input,
  wp (read_loop (S (length input)) tags) (init_st input) (fun _ _ => True).
Proof. intros. apply read_loop_spec. unfold len, init_st. cbn [s_in]. lia. Qed.

Theorem no_fuel : forall tags input, read_stream tags input <> Fuel.
Proof.
  intros tags input H. pose proof (read_stream_wp tags input) as W.
  unfold wp in W. unfold read_stream in H. rewrite H in W. exact W.
Qed.

Theorem no_crash : forall tags input, read_stream tags input <> Crash.
Proof.
  intros tags input H. pose proof (read_stream_wp tags input) as W.
  unfold wp in W. unfold read_stream in H. rewrite H in W. exact W.
Qed.

Print Assumptions no_fuel.
Print Assumptions no_crash.
