(* Proofs/RespLineProofs.v — C03: every other response line the server writes is read by the
   client's reader (readResponse) as the data in normal form. *)
From GoImap.Base Require Import Bytes.
From GoImap.Model Require Import NumSet MatchList Utf7 Wire Resp RespFetch RespCmd.
From GoImap.Proofs Require Import NumSetSpec NumSetLemmas NumSetText NumSetProofs Utf7Spec Utf7Codec Utf7Lemmas
  WireSpec WireLemmas WireProofs RespSpec RespLinesLemmas.
From Coq Require Import ZifyN ZifyNat ZifyBool.
Open Scope N_scope.

(* the fixed texts of status responses: not empty, no CR/LF, not starting with "[" *)
Definition wf_text (t : bytes) : bool :=
  match t with
  | [] => false
  | c :: _ => negb (b2n c =? 91) && forallb (fun c => negb (beqb c CR_ || beqb c LF_)) t
  end.

(* codes the server writes in tagged (APPENDUID, COPYUID, plain atoms) and untagged
   (UIDNEXT, UIDVALIDITY, PERMANENTFLAGS, COPYUID, plain atoms) status responses *)
Definition wf_code (tagged : bool) (c : resp_code) : bool :=
  match c with
  | CNone => true
  | CAppendUID v u => tagged && u32 v && u32 u && (0 <? u)
  | CCopyUID v s d => u32 v && canon s && negb (dynamic s) && negb (lnil s) && canon d && negb (dynamic d) && negb (lnil d)
  | CUidNext n => negb tagged && u32 n
  | CUidValidity n => negb tagged && u32 n
  | CPermanentFlags _ => negb tagged
  | COther name =>
      negb (is_nil name) && forallb is_atom_char name &&
      negb (existsb (bytes_eqb name) (map s2b ["APPENDUID"; "COPYUID"; "UIDNEXT"; "UIDVALIDITY"; "PERMANENTFLAGS"]%string))
  end.
Definition norm_code (c : resp_code) : resp_code :=
  match c with CPermanentFlags fl => CPermanentFlags (norm_flags fl) | c => c end.

(* ---- the resp-text part of status responses ---- *)
Lemma wf_text_inv : forall text, wf_text text = true ->
  exists c t, text = c :: t /\ (b2n c =? 91) = false /\ nocrlf c /\
    forallb (fun c => negb (beqb c CR_ || beqb c LF_)) text = true.
Proof.
  intros [|c t] H; [discriminate|]. cbn [wf_text] in H. apply andb_true_iff in H. destruct H as [H1 H2].
  exists c, t. split; [reflexivity|]. split; [destruct (b2n c =? 91); [discriminate|reflexivity]|].
  split; [|exact H2]. apply forallb_hd in H2. apply negb_true_iff, orb_false_iff in H2. exact H2.
Qed.

Lemma resp_tail : forall (c : resp_code) text rest, wf_text text = true ->
  match dec_sp (SP_ :: text ++ CR_ :: rest) with
  | DOk _ r5 => do t, r' <- ex (dec_text r5); DOk (c, t) r'
  | DNo r5 => DOk (c, []) r5
  | DErr => DErr
  end = DOk (c, text) (CR_ :: rest).
Proof.
  intros c text rest Ht. pose proof (wf_text_inv _ Ht) as (tc & tl & Etext & Htc & Hnc & Hall).
  assert (Htxt : dec_text (text ++ CR_ :: rest) = DOk text (CR_ :: rest))
    by (apply dec_text_rt; [rewrite Etext; discriminate|exact Hall]).
  assert (Hsp : dec_sp (SP_ :: text ++ CR_ :: rest) = DOk tt (text ++ CR_ :: rest))
    by (rewrite Etext; cbn [app]; apply dec_sp_ok, Hnc).
  rewrite Hsp, Htxt. reflexivity.
Qed.

Lemma read_resp_text_rt : forall tagged code text cb rest, wf_code tagged code = true -> wf_text text = true ->
  w_code code = Some cb ->
  read_resp_text tagged (SP_ :: cb ++ text ++ CR_ :: rest) = DOk (norm_code code, text) (CR_ :: rest).
Proof.
  intros tagged code text cb rest Hc Ht H.
  pose proof (wf_text_inv _ Ht) as (tc & tl & Etext & Htc & Hnc & Hall).
  assert (Htxt : dec_text (text ++ CR_ :: rest) = DOk text (CR_ :: rest))
    by (apply dec_text_rt; [rewrite Etext; discriminate|exact Hall]).
  assert (Hsp : dec_sp (SP_ :: text ++ CR_ :: rest) = DOk tt (text ++ CR_ :: rest))
    by (rewrite Etext; cbn [app]; apply dec_sp_ok, Hnc).
  unfold read_resp_text. cbv zeta.
  destruct code as [|v u|v s d|n|n|fl|name]; cbn [wf_code] in Hc; cbn [w_code] in H; cbn [norm_code].
  - (* no code *)
    winv H. cbn [app]. rewrite Hsp.
    assert (Hbr : dec_special (ch "[") (text ++ CR_ :: rest) = DNo (text ++ CR_ :: rest)).
    { rewrite Etext. cbn [app]. apply dec_special_miss. apply beqb_false_iff. intros ->. discriminate Htc. }
    rewrite Hbr, Htxt. reflexivity.
  - (* APPENDUID *)
    destruct tagged; [|discriminate]. winv H.
    change (s2b "[APPENDUID ") with (ch "[" :: s2b "APPENDUID" ++ [SP_]).
    change (s2b " ") with [SP_]. change (s2b "] ") with [ch "]"; SP_].
    rewrite <- !app_assoc. cbn [app]. rewrite <- !app_assoc. cbn [app].
    rewrite dec_sp_ok by (split; reflexivity). rewrite dec_special_hit.
    unfold ex_atom. rewrite dec_atom_app by (try reflexivity; discriminate). cbn [ex bind]. ev_if.
    rewrite ex_sp_app by apply dec_starts. cbn [bind].
    unfold ex_number. rewrite number_roundtrip by (try reflexivity; unfold u32 in Hc; lia). cbn [ex bind].
    rewrite ex_sp_app by apply dec_starts. cbn [bind].
    rewrite number_roundtrip by (try reflexivity; unfold u32 in Hc; lia). cbn [ex bind].
    replace (u =? 0) with false by lia. cbn [bind].
    unfold ex_special. rewrite dec_special_hit. cbn [ex bind]. apply resp_tail; exact Ht.
  - (* COPYUID *)
    winv H.
    change (s2b "[COPYUID ") with (ch "[" :: s2b "COPYUID" ++ [SP_]).
    change (s2b " ") with [SP_]. change (s2b "] ") with [ch "]"; SP_].
    rewrite <- !app_assoc. cbn [app]. rewrite <- !app_assoc. cbn [app].
    repeat (apply andb_true_iff in Hc; destruct Hc as [Hc ?]).
    rewrite dec_sp_ok by (split; reflexivity). rewrite dec_special_hit.
    unfold ex_atom. rewrite dec_atom_app by (try reflexivity; discriminate). cbn [ex bind].
    replace (tagged && bytes_eqb (s2b "COPYUID") (s2b "APPENDUID")) with false by (destruct tagged; reflexivity).
    ev_if. rewrite ex_sp_app by apply dec_starts. cbn [bind]. unfold read_copyuid.
    unfold ex_number. rewrite number_roundtrip by (try reflexivity; unfold u32 in *; lia). cbn [ex bind].
    rewrite ex_sp_app by (eapply numset_starts; eassumption). cbn [bind].
    rewrite (numset_rt s) by (assumption || (split; reflexivity)).
    rewrite ex_sp_app by (eapply numset_starts; eassumption). cbn [bind].
    rewrite (numset_rt d) by (assumption || (split; reflexivity)).
    replace (dynamic s) with false by (symmetry; apply negb_true_iff; assumption).
    replace (dynamic d) with false by (symmetry; apply negb_true_iff; assumption).
    cbn [orb bind].
    unfold ex_special. rewrite dec_special_hit. cbn [ex bind]. apply resp_tail; exact Ht.
  - (* UIDNEXT *)
    destruct tagged; [discriminate|]. winv H.
    change (s2b "[UIDNEXT ") with (ch "[" :: s2b "UIDNEXT" ++ [SP_]). change (s2b "] ") with [ch "]"; SP_].
    rewrite <- !app_assoc. cbn [app]. rewrite <- !app_assoc. cbn [app].
    rewrite dec_sp_ok by (split; reflexivity). rewrite dec_special_hit.
    unfold ex_atom. rewrite dec_atom_app by (try reflexivity; discriminate). cbn [ex bind]. ev_if.
    rewrite ex_sp_app by apply dec_starts. cbn [bind].
    unfold ex_number. rewrite number_roundtrip by (try reflexivity; unfold u32 in Hc; lia). cbn [ex bind].
    unfold ex_special. rewrite dec_special_hit. cbn [ex bind]. apply resp_tail; exact Ht.
  - (* UIDVALIDITY *)
    destruct tagged; [discriminate|]. winv H.
    change (s2b "[UIDVALIDITY ") with (ch "[" :: s2b "UIDVALIDITY" ++ [SP_]). change (s2b "] ") with [ch "]"; SP_].
    rewrite <- !app_assoc. cbn [app]. rewrite <- !app_assoc. cbn [app].
    rewrite dec_sp_ok by (split; reflexivity). rewrite dec_special_hit.
    unfold ex_atom. rewrite dec_atom_app by (try reflexivity; discriminate). cbn [ex bind]. ev_if.
    rewrite ex_sp_app by apply dec_starts. cbn [bind].
    unfold ex_number. rewrite number_roundtrip by (try reflexivity; unfold u32 in Hc; lia). cbn [ex bind].
    unfold ex_special. rewrite dec_special_hit. cbn [ex bind]. apply resp_tail; exact Ht.
  - (* PERMANENTFLAGS *)
    destruct tagged; [discriminate|]. winv H.
    change (s2b "[PERMANENTFLAGS ") with (ch "[" :: s2b "PERMANENTFLAGS" ++ [SP_]). change (s2b "] ") with [ch "]"; SP_].
    rewrite <- !app_assoc. cbn [app]. rewrite <- !app_assoc. cbn [app].
    rewrite dec_sp_ok by (split; reflexivity). rewrite dec_special_hit.
    unfold ex_atom. rewrite dec_atom_app by (try reflexivity; discriminate). cbn [ex bind]. ev_if.
    match goal with Hl : w_list w_flag fl = Some ?xl |- _ =>
      destruct (w_list_first _ _ _ _ Hl) as (t & Et);
      rewrite ex_sp_app by (rewrite Et; apply lp_starts); cbn [bind];
      unfold dec_flag_list; rewrite (ex_list_rt _ _ _ _ _ _ _ _ (flag_items fl) Hl)
    end.
    cbn [bind]. unfold ex_special. rewrite dec_special_hit. cbn [ex bind]. apply resp_tail; exact Ht.
  - (* other atom *)
    winv H. change (s2b "[") with [ch "["]. change (s2b "] ") with [ch "]"; SP_].
    rewrite <- !app_assoc. cbn [app].
    apply andb_true_iff in Hc. destruct Hc as [Hc Hx]. apply andb_true_iff in Hc. destruct Hc as [Hn Ha].
    cbn [existsb map] in Hx. apply negb_true_iff in Hx.
    repeat (apply orb_false_iff in Hx; destruct Hx as [? Hx]).
    rewrite dec_sp_ok by (split; reflexivity). rewrite dec_special_hit.
    assert (Hne : name <> []) by (intros ->; cbn in Hn; discriminate Hn).
    unfold ex_atom. rewrite dec_atom_app by (exact Ha || exact Hne || reflexivity).
    cbn [ex bind].
    repeat match goal with E : bytes_eqb name _ = false |- _ => rewrite E; clear E end.
    rewrite !andb_false_r. cbv iota.
    rewrite dec_sp_no by reflexivity. cbn [bind].
    unfold ex_special. rewrite dec_special_hit. cbn [ex bind]. apply resp_tail; exact Ht.
Qed.

Lemma wf_code_tagged_norm : forall code, wf_code true code = true -> norm_code code = code.
Proof. intros [] H; try reflexivity. discriminate H. Qed.

(* ---- the lines ---- *)
Lemma tagged_line : forall x tag code text bs rest, wf_tag tag = true -> wf_code true code = true ->
  wf_text text = true -> w_status_resp tag OKb code text = Some bs ->
  read_response x (bs ++ rest) = DOk (RTagged tag OKb code text) rest.
Proof.
  intros x tag code text bs rest Htag Hc Ht H.
  destruct (wf_tag_inv _ Htag) as (c & t & E & Ha & Hplus). subst tag.
  unfold w_status_resp in H. cbn [is_nil] in H.
  apply wcat_some in H. destruct H as (x1 & y1 & H1 & H & ->). winv H1.
  apply wcat_some in H. destruct H as (x2 & y2 & H2 & H & ->). winv H2.
  apply wcat_some in H. destruct H as (x3 & y3 & H3 & H & ->). winv H3.
  apply wcat_some in H. destruct H as (x4 & y4 & H4 & H & ->). winv H4.
  apply wcat_some in H. destruct H as (cb & y5 & Hcb & H & ->). winv H.
  change (s2b " ") with [SP_]. unfold CRLF. rewrite <- !app_assoc. cbn [app].
  unfold read_response.
  assert (Hc0 : is_atom_char c = true) by (apply (forallb_hd _ _ _ Ha)).
  destruct (atom_char_facts c Hc0) as (_ & Hstar & _).
  rewrite dec_special_miss by exact Hplus. rewrite dec_special_miss by exact Hstar.
  rewrite app_comm_cons.
  unfold ex_atom. rewrite dec_atom_app by (exact Ha || reflexivity || discriminate).
  cbn [ex bind]. rewrite ex_sp_app by (eexists _, _; split; [reflexivity|split; reflexivity]). cbn [bind].
  rewrite dec_atom_app by (reflexivity || discriminate). cbn [ex bind].
  rewrite (read_resp_text_rt true code) by eassumption. cbn [bind]. ev_if.
  rewrite dec_crlf_crlf. cbn [ex bind fst snd]. rewrite wf_code_tagged_norm by exact Hc. reflexivity.
Qed.

Lemma cond_line : forall x code text bs rest, wf_code false code = true -> wf_text text = true ->
  w_status_resp [] OKb code text = Some bs ->
  read_response x (bs ++ rest) = DOk (RCond OKb (norm_code code) text) rest.
Proof.
  intros x code text bs rest Hc Ht H.
  unfold w_status_resp in H. cbn [is_nil] in H.
  apply wcat_some in H. destruct H as (x1 & y1 & H1 & H & ->). winv H1.
  apply wcat_some in H. destruct H as (x2 & y2 & H2 & H & ->). winv H2.
  apply wcat_some in H. destruct H as (x3 & y3 & H3 & H & ->). winv H3.
  apply wcat_some in H. destruct H as (x4 & y4 & H4 & H & ->). winv H4.
  apply wcat_some in H. destruct H as (cb & y5 & Hcb & H & ->). winv H.
  change (s2b " ") with [SP_]. unfold CRLF. rewrite <- !app_assoc. cbn [app].
  change (s2b "*" ++ SP_ :: OKb ++ SP_ :: cb ++ text ++ CR_ :: LF_ :: rest)
    with (s2b "* " ++ OKb ++ SP_ :: cb ++ text ++ CR_ :: LF_ :: rest).
  rewrite read_response_untagged by (try reflexivity; discriminate).
  rewrite rrd_cond. rewrite (read_resp_text_rt false code) by eassumption.
  cbn [bind fst snd]. rewrite dec_crlf_crlf. reflexivity.
Qed.

Lemma exists_line : forall x n bs rest, u32 n = true -> w_num_line n "EXISTS" = Some bs ->
  read_response x (bs ++ rest) = DOk (RExists n) rest.
Proof.
  intros x n bs rest Hn H. unfold u32 in Hn. eapply num_line_read; [|intros r; apply rrd_exists|exact H]; lia.
Qed.

Lemma recent_line : forall x n bs rest, u32 n = true -> w_num_line n "RECENT" = Some bs ->
  read_response x (bs ++ rest) = DOk RRecent rest.
Proof.
  intros x n bs rest Hn H. unfold u32 in Hn. eapply num_line_read; [|intros r; apply rrd_recent|exact H]; lia.
Qed.

Lemma expunge_line : forall x n bs rest, 0 < n -> u32 n = true -> w_num_line n "EXPUNGE" = Some bs ->
  read_response x (bs ++ rest) = DOk (RExpunge n) rest.
Proof.
  intros x n bs rest H0 Hn H. unfold u32 in Hn. eapply num_line_read; [|intros r; apply rrd_expunge|exact H]; lia.
Qed.

Lemma flags_line : forall x fl bs rest, w_flags_line fl = Some bs ->
  read_response x (bs ++ rest) = DOk (RFlags (norm_flags fl)) rest.
Proof.
  intros x fl bs rest H. unfold w_flags_line in H.
  apply wcat_some in H. destruct H as (x1 & y1 & H1 & H & ->). winv H1.
  apply wcat_some in H. destruct H as (lst & y2 & Hl & H & ->). winv H.
  change (s2b "* FLAGS ") with (s2b "* " ++ s2b "FLAGS" ++ [SP_]). unfold CRLF.
  rewrite <- !app_assoc. cbn [app].
  rewrite read_response_untagged by (try reflexivity; discriminate).
  rewrite rrd_flags. destruct (w_list_first _ _ _ _ Hl) as (t & Et).
  rewrite ex_sp_app by (rewrite Et; apply lp_starts). cbn [bind].
  unfold dec_flag_list. rewrite (ex_list_rt _ _ _ _ _ _ _ _ (flag_items fl) Hl). cbn [bind].
  rewrite dec_crlf_crlf. reflexivity.
Qed.

Lemma status_line : forall x q o d bs rest, wf_status d = true -> w_status q o d = Some bs ->
  read_response x (bs ++ rest) = DOk (RStatus (norm_status o d)) rest.
Proof.
  intros x q o d bs rest Hw H. unfold w_status in H.
  apply wcat_some in H. destruct H as (x1 & y1 & H1 & H & ->). winv H1.
  apply wcat_some in H. destruct H as (mb & y2 & Hmb & H & ->).
  apply wcat_some in H. destruct H as (x3 & y3 & H3 & H & ->). winv H3.
  apply wcat_some in H. destruct H as (lst & y4 & Hl & H & ->). winv H.
  change (s2b "* STATUS ") with (s2b "* " ++ s2b "STATUS" ++ [SP_]). change (s2b " ") with [SP_]. unfold CRLF.
  rewrite <- !app_assoc. cbn [app].
  rewrite read_response_untagged by (reflexivity || discriminate).
  rewrite rrd_status. rewrite ex_sp_app by (eapply mailbox_starts; exact Hmb). cbn [bind].
  unfold read_status.
  assert (Hwm : wf_mailbox (sd_mailbox d) = true).
  { unfold wf_status in Hw. rewrite !andb_true_iff in Hw. tauto. }
  rewrite (mailbox_rt q (sd_mailbox d)) by (exact Hwm || exact Hmb || (split; reflexivity)). cbn [bind].
  destruct (w_list_first _ _ _ _ Hl) as (t & Et).
  rewrite ex_sp_app by (rewrite Et; apply lp_starts). cbn [bind].
  rewrite (ex_list_rt _ _ _ _ _ _ _ _ (status_items_ok o d Hw) Hl). cbn [bind].
  rewrite dec_crlf_crlf. cbn [ex bind]. rewrite status_fold by exact Hw. reflexivity.
Qed.

Lemma list_line : forall x q d bs rest, wf_list None d = true -> w_list_line q d = Some bs ->
  read_response x (bs ++ rest) = DOk (RList (norm_list None d)) rest.
Proof.
  intros x q d bs rest Hw H. unfold wf_list in Hw. rewrite andb_true_r in Hw.
  apply andb_true_iff in Hw. destruct Hw as [Hw Hon]. apply andb_true_iff in Hw. destruct Hw as [Hdl Hmbx].
  unfold w_list_line in H. cbv zeta in H. fold (list_ext_items q d) in H.
  apply wcat_some in H. destruct H as (x1 & y1 & H1 & H & ->). winv H1.
  apply wcat_some in H. destruct H as (al & y2 & Hal & H & ->).
  apply wcat_some in H. destruct H as (x3 & y3 & H3 & H & ->). winv H3.
  apply wcat_some in H. destruct H as (dl & y4 & Hd & H & ->).
  apply wcat_some in H. destruct H as (x5 & y5 & H5 & H & ->). winv H5.
  apply wcat_some in H. destruct H as (mb & y6 & Hmb & H & ->).
  apply wcat_some in H. destruct H as (xs & y7 & Hxs & H & ->). winv H.
  change (s2b "* LIST ") with (s2b "* " ++ s2b "LIST" ++ [SP_]). change (s2b " ") with [SP_]. unfold CRLF.
  rewrite <- !app_assoc. cbn [app].
  rewrite read_response_untagged by (reflexivity || discriminate).
  rewrite rrd_list. destruct (w_list_first _ _ _ _ Hal) as (t & Et).
  rewrite ex_sp_app by (rewrite Et; apply lp_starts). cbn [bind].
  unfold read_list, dec_attr_list. rewrite (ex_list_rt _ _ _ _ _ _ _ _ (attr_items _) Hal). cbn [bind].
  rewrite ex_sp_app by (eapply delim_starts; exact Hd). cbn [bind].
  rewrite (delim_rt (ld_delim d)) by (exact Hdl || exact Hd || reflexivity). cbn [bind].
  rewrite ex_sp_app by (eapply mailbox_starts; exact Hmb). cbn [bind].
  assert (Hdel : delimited (xs ++ CR_ :: LF_ :: rest)).
  { destruct (list_ext_items q d).
    - winv Hxs. split; reflexivity.
    - apply wcat_some in Hxs. destruct Hxs as (x1 & y1 & H1 & _ & ->). winv H1. split; reflexivity. }
  rewrite (mailbox_rt q (ld_mailbox d)) by (exact Hmbx || exact Hmb || exact Hdel). cbn [bind]. cbv zeta.
  rewrite (list_ext_rt q d) by (exact Hon || exact Hxs). cbn [bind].
  rewrite dec_crlf_crlf. cbn [ex bind]. rewrite list_fold. reflexivity.
Qed.

Lemma namespace_line : forall x q d bs rest, wf_ns d = true -> w_namespace_line q d = Some bs ->
  read_response x (bs ++ rest) = DOk (RNamespace (norm_ns d)) rest.
Proof.
  intros x q d bs rest Hw H. unfold wf_ns in Hw.
  apply andb_true_iff in Hw. destruct Hw as [Hw H3]. apply andb_true_iff in Hw. destruct Hw as [H1 H2].
  unfold w_namespace_line in H.
  apply wcat_some in H. destruct H as (x1 & y1 & E1 & H & ->). winv E1.
  apply wcat_some in H. destruct H as (g1 & y2 & G1 & H & ->).
  apply wcat_some in H. destruct H as (x3 & y3 & E3 & H & ->). winv E3.
  apply wcat_some in H. destruct H as (g2 & y4 & G2 & H & ->).
  apply wcat_some in H. destruct H as (x5 & y5 & E5 & H & ->). winv E5.
  apply wcat_some in H. destruct H as (g3 & y6 & G3 & H & ->). winv H.
  change (s2b "* NAMESPACE ") with (s2b "* " ++ s2b "NAMESPACE" ++ [SP_]). change (s2b " ") with [SP_]. unfold CRLF.
  rewrite <- !app_assoc. cbn [app].
  rewrite read_response_untagged by (reflexivity || discriminate).
  rewrite rrd_namespace.
  rewrite ex_sp_app by (eapply ns_group_starts; exact G1). cbn [bind]. unfold read_namespace.
  rewrite (ns_group_rt q (ns_personal d)) by (assumption || reflexivity). cbn [bind].
  rewrite ex_sp_app by (eapply ns_group_starts; exact G2). cbn [bind].
  rewrite (ns_group_rt q (ns_other d)) by (assumption || reflexivity). cbn [bind].
  rewrite ex_sp_app by (eapply ns_group_starts; exact G3). cbn [bind].
  rewrite (ns_group_rt q (ns_shared d)) by (assumption || reflexivity). cbn [bind].
  cbn [bind]. rewrite dec_crlf_crlf. cbn [ex bind]. rewrite !nil_if_empty_norm. reflexivity.
Qed.

Lemma capability_line : forall x caps bs rest, forallb wf_cap caps = true -> w_capability_line caps = Some bs ->
  read_response x (bs ++ rest) = DOk (RCapability caps) rest.
Proof.
  intros x caps bs rest Hw H. unfold w_capability_line in H. rewrite caps_fold in H. winv H.
  change (s2b "* CAPABILITY") with (s2b "* " ++ s2b "CAPABILITY"). unfold CRLF.
  rewrite <- !app_assoc. cbn [app].
  rewrite read_response_untagged_na by (reflexivity || discriminate || apply (sp_list_nonatom _ (fun c => c))).
  rewrite rrd_capability. unfold read_capability.
  rewrite read_caps_rt.
  - cbn [bind]. rewrite dec_crlf_crlf. reflexivity.
  - exact Hw.
  - rewrite app_length. pose proof (sp_list_len _ (fun c : bytes => c) caps) as HL. cbv beta in HL.
    unfold caps_bytes. unfold bytes, byte in *. lia.
Qed.

(* SEARCH: the numbers of the set, in increasing order *)
Lemma search_line : forall x s bs rest, canon s = true -> dynamic s = false -> w_search (Some s) = Some bs ->
  exists l, nums s = NumsOk l /\ read_response x (bs ++ rest) = DOk (RSearch l) rest.
Proof.
  intros x s bs rest Hc Hd H. destruct (nums_spec s Hc Hd) as (l & Hn & _). exists l. split; [exact Hn|].
  unfold w_search in H. rewrite Hn in H. rewrite nums_fold in H. winv H.
  change (s2b "* SEARCH") with (s2b "* " ++ s2b "SEARCH"). unfold CRLF.
  rewrite <- !app_assoc. cbn [app].
  rewrite read_response_untagged_na by (reflexivity || discriminate || apply sp_list_nonatom).
  rewrite rrd_search. unfold read_search.
  rewrite read_search_rt.
  - cbn [bind]. rewrite dec_crlf_crlf. reflexivity.
  - apply (nums_bounds s); assumption.
  - rewrite app_length. pose proof (sp_list_len _ dec_of_N l) as HL. cbv beta in HL. unfold nums_bytes. unfold bytes, byte in *. lia.
Qed.

(* ESEARCH, for the return options as the server uses them (eff_search_opts already applied) *)
Definition es_norm (o : search_opts) (d : search_data) : search_data :=
  mkSeD (match sr_all d with Some (r :: s) => if se_all o then Some (r :: s) else None | _ => None end)
        (sr_uid d)
        (if se_min o then sr_min d else 0) (if se_max o then sr_max d else 0)
        (if se_count o then sr_count d else 0).

Lemma esearch_line : forall x tag o d bs rest, wf_tag tag = true -> wf_search d = true ->
  w_esearch tag o d = Some bs ->
  read_response x (bs ++ rest) = DOk (RESearch (mkES tag (es_norm o d))) rest.
Proof.
  intros x tag o d bs rest Htag Hw HH. rename HH into H. unfold w_esearch in H. unfold wf_search in Hw.
  destruct d as [all uid mn mx cnt]. cbn [sr_all sr_uid sr_min sr_max sr_count] in *.
  destruct all as [all|]; [|discriminate H].
  repeat (apply andb_true_iff in Hw; destruct Hw as [Hw ?]).
  match goal with Hd : negb (dynamic all) = true |- _ => apply negb_true_iff in Hd; rename Hd into Hdyn end.
  unfold u32 in *.
  destruct (wf_tag_inv _ Htag) as (c & t & E & Ha & _).
  replace (is_nil tag) with false in H by (rewrite E; reflexivity).
  apply wcat_some in H. destruct H as (x1 & y1 & E1 & H & ->). winv E1.
  apply wcat_some in H. destruct H as (x2 & y2 & E2 & H & ->). winv E2.
  apply wcat_some in H. destruct H as (xu & y3 & Hu & H & ->).
  apply wcat_some in H. destruct H as (xa & y4 & Hxa & H & ->).
  apply wcat_some in H. destruct H as (xmn & y5 & Hmn & H & ->).
  apply wcat_some in H. destruct H as (xmx & y6 & Hmx & H & ->).
  apply wcat_some in H. destruct H as (xc & y7 & Hxc & H & ->). winv H.
  destruct (blk_all _ all xa Hw Hdyn Hxa) as (ia & -> & Wa & Fa).
  assert (Bmn := blk_num (se_min o && (0 <? mn)) " MIN " EMin mn xmn (fun _ => eq_refl)).
  destruct Bmn as [-> Wmn]; [intros Hb; cbn [es_wf]; lia|exact Hmn|].
  assert (Bmx := blk_num (se_max o && (0 <? mx)) " MAX " EMax mx xmx (fun _ => eq_refl)).
  destruct Bmx as [-> Wmx]; [intros Hb; cbn [es_wf]; lia|exact Hmx|].
  assert (Bc := blk_num (se_count o) " COUNT " ECount cnt xc (fun _ => eq_refl)).
  destruct Bc as [-> Wc]; [intros Hb; cbn [es_wf]; lia|exact Hxc|].
  assert (Exu : xu = if uid then s2b " UID" else []) by (destruct uid; winv Hu; reflexivity). subst xu.
  set (imn := if se_min o && (0 <? mn) then [EMin mn] else []) in *.
  set (imx := if se_max o && (0 <? mx) then [EMax mx] else []) in *.
  set (ic := if se_count o then [ECount cnt] else []) in *.
  change (s2b "* ESEARCH") with (s2b "* " ++ s2b "ESEARCH"). change (s2b ")") with [ch ")"]. unfold CRLF.
  rewrite <- !app_assoc. cbn [app].
  rewrite read_response_untagged_na by (reflexivity || discriminate).
  rewrite rrd_esearch.
  rewrite flat4.
  rewrite read_esearch_rt by (exact Htag || (repeat (apply Forall_app; split); assumption)).
  cbn [bind]. rewrite dec_crlf_crlf. cbn [ex bind]. do 3 f_equal.
  rewrite !fold_left_app, Fa. subst imn imx ic. unfold es_norm.
  cbn [sr_all sr_uid sr_min sr_max sr_count].
  destruct o as [omin omax oall ocount]. cbn [se_min se_max se_all se_count].
  destruct oall, all as [|r0 all'];
  (destruct omin; [destruct (0 <? mn) eqn:Emn; [|assert (mn = 0) by lia; subst mn]|]);
  (destruct omax; [destruct (0 <? mx) eqn:Emx; [|assert (mx = 0) by lia; subst mx]|]);
  destruct ocount; reflexivity.
Qed.

(* every line is non-empty (the reader loop's fuel) *)
Lemma status_resp_nonnil : forall tag typ code text bs, w_status_resp tag typ code text = Some bs -> bs <> [].
Proof.
  intros tag typ code text bs H. unfold w_status_resp in H.
  apply wcat_some in H. destruct H as (x1 & y1 & _ & H & ->).
  apply wcat_some in H. destruct H as (x2 & y2 & H2 & _ & ->). winv H2.
  intros E. apply app_eq_nil in E. destruct E as [_ E]. discriminate E.
Qed.
Lemma num_line_nonnil : forall n name bs, w_num_line n name = Some bs -> bs <> [].
Proof.
  intros n name bs H. unfold w_num_line in H.
  apply wcat_some in H. destruct H as (x1 & y1 & H1 & _ & ->). winv H1. discriminate.
Qed.
