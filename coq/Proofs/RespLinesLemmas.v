(* Proofs/RespLinesLemmas.v — helper lemmas for Proofs/RespLineProofs.v (C03): writer inversion,
   the prefix of readResponse for untagged lines, the generic list round trip, UTF-8 validity as a
   boolean, mailbox names, and the per-family readers (STATUS items, LIST extended data, NAMESPACE
   descriptors, CAPABILITY / SEARCH number lists, ESEARCH items). *)
From GoImap.Base Require Import Bytes.
From GoImap.Model Require Import NumSet MatchList Utf7 Wire Resp RespFetch RespCmd.
From GoImap.Proofs Require Import NumSetSpec NumSetLemmas NumSetText NumSetProofs Utf7Spec Utf7Codec Utf7Lemmas
  WireSpec WireLemmas WireProofs RespSpec.
From Coq Require Import ZifyN ZifyNat ZifyBool.
Open Scope N_scope.



(* ---------------------------------------------------------------- *)
(* writers *)

Lemma wcat_some : forall a b bs, a +++ b = Some bs -> exists x y, a = Some x /\ b = Some y /\ bs = x ++ y.
Proof.
  intros [x|] [y|] bs H; cbn in H; try discriminate. inversion H. eauto.
Qed.

Lemma some_inj : forall A (a b : A), Some a = Some b -> a = b.
Proof. intros A a b H. inversion H. reflexivity. Qed.

Ltac winv H :=
  lazymatch type of H with
  | ?a +++ ?b = Some _ =>
      let x := fresh "x" in let y := fresh "y" in let Hx := fresh "Hx" in let Hy := fresh "Hy" in
      apply wcat_some in H; destruct H as (x & y & Hx & Hy & ->); winv Hx; winv Hy
  | ws _ = Some ?x => unfold ws in H; apply some_inj in H; subst x
  | wb _ = Some ?x => unfold wb in H; apply some_inj in H; subst x
  | w_num _ = Some ?x => unfold w_num, enc_number in H; apply some_inj in H; subst x
  | w_quoted _ = Some ?x => unfold w_quoted in H; apply some_inj in H; subst x
  | Some _ = Some ?x => apply some_inj in H; subst x
  | _ => idtac
  end.

(* ---------------------------------------------------------------- *)
(* bytes that may follow a space *)

Definition nocrlf (c : byte) : Prop := beqb c CR_ = false /\ beqb c LF_ = false.

Lemma dec_sp_ok : forall c r, nocrlf c -> dec_sp (SP_ :: c :: r) = DOk tt (c :: r).
Proof. intros c r [H1 H2]. cbn [dec_sp]. rewrite beqb_refl, H1, H2. reflexivity. Qed.

Lemma ex_sp_ok : forall c r, nocrlf c -> ex_sp (SP_ :: c :: r) = DOk tt (c :: r).
Proof. intros c r H. unfold ex_sp. rewrite dec_sp_ok by exact H. reflexivity. Qed.

Lemma ex_sp_app : forall a r, (exists c t, a = c :: t /\ nocrlf c) -> ex_sp (SP_ :: a ++ r) = DOk tt (a ++ r).
Proof. intros a r (c & t & -> & H). cbn [app]. apply ex_sp_ok. exact H. Qed.

Lemma dec_sp_cr : forall r, dec_sp (CR_ :: r) = DNo (CR_ :: r).
Proof. reflexivity. Qed.

Lemma atom_nocrlf : forall c, is_atom_char c = true -> nocrlf c.
Proof. intros c H. destruct (atom_char_facts c H) as (_&_&_&_&_&_&H1&H2&_). split; assumption. Qed.

Lemma digit_atom : forall c, is_digit c = true -> is_atom_char c = true.
Proof. intros c H. apply digit_numset_char in H. apply H. Qed.

Lemma digit_nocrlf : forall c, is_digit c = true -> nocrlf c.
Proof. intros c H. apply atom_nocrlf, digit_atom, H. Qed.

Lemma forallb_hd : forall (p : byte -> bool) c t, forallb p (c :: t) = true -> p c = true.
Proof. intros p c t H. cbn [forallb] in H. apply andb_true_iff in H. apply H. Qed.

(* closed boolean tests *)

Ltac ev_if :=
  repeat match goal with
  | |- context [if ?b then _ else _] =>
      let v := eval vm_compute in b in
      lazymatch v with
      | true => change b with true
      | false => change b with false
      end; cbv iota
  end.

(* ---------------------------------------------------------------- *)
(* read_response: untagged lines *)

Lemma read_response_untagged : forall x typ c rest, typ <> [] -> forallb is_atom_char typ = true ->
  is_atom_char c = false ->
  read_response x (s2b "* " ++ typ ++ c :: rest) =
  (do res, r <- read_response_data x typ (c :: rest); do _, r <- ex (dec_crlf r); DOk res r).
Proof.
  intros x typ c rest Hn Ha Hc. unfold read_response. change (s2b "* ") with [ch "*"; SP_]. cbn [app].
  rewrite dec_special_miss by reflexivity. rewrite dec_special_hit.
  destruct typ as [|t0 typ]; [congruence|]. cbn [app].
  rewrite ex_sp_ok by (apply atom_nocrlf; apply (forallb_hd _ _ _ Ha)). cbn [bind].
  unfold ex_atom. change (t0 :: typ ++ c :: rest) with ((t0 :: typ) ++ c :: rest).
  rewrite dec_atom_app by (try exact Ha; try exact Hc; discriminate). cbn [ex bind]. reflexivity.
Qed.

Lemma rrd_cond : forall x s, read_response_data x OKb s =
  (do ct, r <- read_resp_text false s; DOk (RCond OKb (fst ct) (snd ct)) r).
Proof. reflexivity. Qed.

Lemma rrd_capability : forall x s, read_response_data x (s2b "CAPABILITY") s =
  (do c, r <- read_capability s; DOk (RCapability c) r).
Proof. reflexivity. Qed.

Lemma rrd_namespace : forall x s, read_response_data x (s2b "NAMESPACE") s =
  (do _, r <- ex_sp s; do d, r <- read_namespace r; DOk (RNamespace d) r).
Proof. reflexivity. Qed.

Lemma rrd_flags : forall x s, read_response_data x (s2b "FLAGS") s =
  (do _, r <- ex_sp s; do fl, r <- dec_flag_list r; DOk (RFlags fl) r).
Proof. reflexivity. Qed.

Lemma rrd_list : forall x s, read_response_data x (s2b "LIST") s =
  (do _, r <- ex_sp s; do d, r <- read_list r; DOk (RList d) r).
Proof. reflexivity. Qed.

Lemma rrd_status : forall x s, read_response_data x (s2b "STATUS") s =
  (do _, r <- ex_sp s; do d, r <- read_status r; DOk (RStatus d) r).
Proof. reflexivity. Qed.

Lemma rrd_search : forall x s, read_response_data x (s2b "SEARCH") s =
  (do l, r <- read_search s; DOk (RSearch l) r).
Proof. reflexivity. Qed.

Lemma rrd_esearch : forall x s, read_response_data x (s2b "ESEARCH") s =
  (do e, r <- read_esearch s; DOk (RESearch e) r).
Proof. reflexivity. Qed.

(* numeric lines: "* <n> NAME" *)

Lemma rrd_exists : forall x n rest, n < 4294967296 ->
  read_response_data x (dec_of_N n) (s2b " EXISTS" ++ CR_ :: rest) = DOk (RExists n) (CR_ :: rest).
Proof.
  intros x n rest Hn. unfold read_response_data.
  destruct (dec_first n) as (c & t & E & Hc). rewrite E, Hc, <- E.
  rewrite (parse_uint_dec n M32) by (rewrite M32_eq; exact Hn).
  change (s2b " EXISTS") with (SP_ :: s2b "EXISTS"). cbn [app].
  rewrite ex_sp_app by (eexists _, _; split; [reflexivity|split; reflexivity]). cbn [bind]. unfold ex_atom.
  rewrite dec_atom_app by (try reflexivity; discriminate). cbn [ex bind]. reflexivity.
Qed.

Lemma rrd_recent : forall x n rest, n < 4294967296 ->
  read_response_data x (dec_of_N n) (s2b " RECENT" ++ CR_ :: rest) = DOk RRecent (CR_ :: rest).
Proof.
  intros x n rest Hn. unfold read_response_data.
  destruct (dec_first n) as (c & t & E & Hc). rewrite E, Hc, <- E.
  rewrite (parse_uint_dec n M32) by (rewrite M32_eq; exact Hn).
  change (s2b " RECENT") with (SP_ :: s2b "RECENT"). cbn [app].
  rewrite ex_sp_app by (eexists _, _; split; [reflexivity|split; reflexivity]). cbn [bind]. unfold ex_atom.
  rewrite dec_atom_app by (try reflexivity; discriminate). cbn [ex bind]. reflexivity.
Qed.

Lemma rrd_expunge : forall x n rest, 0 < n -> n < 4294967296 ->
  read_response_data x (dec_of_N n) (s2b " EXPUNGE" ++ CR_ :: rest) = DOk (RExpunge n) (CR_ :: rest).
Proof.
  intros x n rest H0 Hn. unfold read_response_data.
  destruct (dec_first n) as (c & t & E & Hc). rewrite E, Hc, <- E.
  rewrite (parse_uint_dec n M32) by (rewrite M32_eq; exact Hn).
  change (s2b " EXPUNGE") with (SP_ :: s2b "EXPUNGE"). cbn [app].
  rewrite ex_sp_app by (eexists _, _; split; [reflexivity|split; reflexivity]). cbn [bind]. unfold ex_atom.
  rewrite dec_atom_app by (try reflexivity; discriminate). cbn [ex bind].
  ev_if. replace (n =? 0) with false by lia. reflexivity.
Qed.

Lemma num_line_read : forall x n name res bs rest, n < 4294967296 ->
  (forall r, read_response_data x (dec_of_N n) ((SP_ :: s2b name) ++ CR_ :: r) = DOk res (CR_ :: r)) ->
  w_num_line n name = Some bs -> read_response x (bs ++ rest) = DOk res rest.
Proof.
  intros x n name res bs rest Hn Hr H. unfold w_num_line, w_num, enc_number in H. winv H.
  rewrite <- !app_assoc.
  change (s2b " " ++ s2b name ++ CRLF ++ rest) with ((SP_ :: s2b name) ++ CR_ :: LF_ :: rest).
  destruct (dec_first n) as (c & t & E & Hc).
  change ((SP_ :: s2b name) ++ CR_ :: LF_ :: rest) with (SP_ :: (s2b name ++ CR_ :: LF_ :: rest)).
  rewrite read_response_untagged; [| apply dec_nonnil | | reflexivity].
  - change (SP_ :: (s2b name ++ CR_ :: LF_ :: rest)) with ((SP_ :: s2b name) ++ CR_ :: LF_ :: rest).
    rewrite Hr. cbn [bind]. rewrite dec_crlf_crlf. reflexivity.
  - apply forallb_forall. intros y Hy. apply digit_atom. eapply digits_dec. exact Hy.
Qed.

(* ---------------------------------------------------------------- *)
(* lists *)

Definition istart (x : bytes) : Prop := exists c t, x = c :: t /\ nocrlf c /\ beqb c (ch ")") = false.

Definition lfollow (r : bytes) : Prop := exists t, r = SP_ :: t \/ r = ch ")" :: t.

Definition item_ok {A B} (w : A -> wr) (rd : P B) (a : A) (v : B) : Prop :=
  forall x, w a = Some x -> istart x /\ forall r, lfollow r -> rd (x ++ r) = DOk v r.

Lemma w_join_cons : forall A (f : A -> wr) a b l, w_join f (a :: b :: l) = f a +++ ws " " +++ w_join f (b :: l).
Proof. reflexivity. Qed.

Lemma w_join_cons_inv : forall A (f : A -> wr) a b l j, w_join f (a :: b :: l) = Some j ->
  exists x j', f a = Some x /\ w_join f (b :: l) = Some j' /\ j = x ++ SP_ :: j'.
Proof.
  intros A f a b l j H. rewrite w_join_cons in H.
  apply wcat_some in H. destruct H as (x & y & Hx & Hy & ->).
  apply wcat_some in Hy. destruct Hy as (y1 & j' & Hy1 & Hj' & ->). winv Hy1.
  exists x, j'. repeat split; assumption.
Qed.

Lemma w_list_inv : forall A (f : A -> wr) l bs, w_list f l = Some bs ->
  exists j, w_join f l = Some j /\ bs = ch "(" :: j ++ [ch ")"].
Proof.
  intros A f l bs H. unfold w_list in H.
  apply wcat_some in H. destruct H as (x & y & Hx & Hy & ->).
  apply wcat_some in Hy. destruct Hy as (j & y2 & Hj & Hy2 & ->). winv Hx. winv Hy2.
  exists j. split; [exact Hj|reflexivity].
Qed.

Lemma w_join_istart : forall A B (w : A -> wr) (rd : P B) a v l j, item_ok w rd a v ->
  w_join w (a :: l) = Some j -> istart j.
Proof.
  intros A B w rd a v l j Ha Hj. destruct l as [|b l].
  - cbn [w_join] in Hj. apply (Ha j Hj).
  - apply w_join_cons_inv in Hj. destruct Hj as (x & j' & Hx & _ & ->).
    destruct (Ha _ Hx) as [(c & t & -> & H1 & H2) _].
    exists c. eexists. cbn [app]. split; [reflexivity|]. split; assumption.
Qed.

Lemma list_items_rt : forall A B (w : A -> wr) (rd : P B) l vs, Forall2 (item_ok w rd) l vs -> l <> [] ->
  forall j rest fuel, w_join w l = Some j -> (length j < fuel)%nat ->
  list_items fuel rd (j ++ ch ")" :: rest) = DOk vs rest.
Proof.
  intros A B w rd l vs HF. induction HF as [|a v l vs Hav Hrest IH]; [congruence|].
  intros _ j rest fuel Hj Hf. destruct fuel as [|k]; [lia|]. destruct l as [|b l'].
  - inversion Hrest; subst. cbn [w_join] in Hj. destruct (Hav j Hj) as [_ Hr].
    cbn [list_items]. rewrite Hr by (exists rest; right; reflexivity).
    rewrite dec_special_hit. reflexivity.
  - apply w_join_cons_inv in Hj. destruct Hj as (x & j' & Hx & Hj' & ->).
    destruct (Hav _ Hx) as [Hs Hr].
    inversion Hrest as [|b' v' l'' vs' Hb Hrest']; subst.
    destruct (w_join_istart _ _ _ _ _ _ _ _ Hb Hj') as (c & t & -> & Hc & _).
    cbn [list_items]. rewrite <- !app_assoc. cbn [app].
    rewrite Hr by (eexists; left; reflexivity).
    rewrite dec_special_miss by reflexivity. rewrite dec_sp_ok by exact Hc.
    change (c :: t ++ ch ")" :: rest) with ((c :: t) ++ ch ")" :: rest).
    rewrite (IH ltac:(discriminate) (c :: t) rest k Hj').
    + reflexivity.
    + rewrite !app_length in Hf. cbn [length] in Hf |- *. lia.
Qed.

Lemma ex_list_rt : forall A B (w : A -> wr) (rd : P B) l vs bs rest, Forall2 (item_ok w rd) l vs ->
  w_list w l = Some bs -> ex_list rd (bs ++ rest) = DOk vs rest.
Proof.
  intros A B w rd l vs bs rest HF H. apply w_list_inv in H. destruct H as (j & Hj & ->).
  cbn [app]. rewrite <- !app_assoc. cbn [app].
  unfold ex_list, dec_list. rewrite dec_special_hit. destruct l as [|a l].
  - inversion HF; subst. cbn [w_join] in Hj. winv Hj. cbn [app]. rewrite dec_special_hit. reflexivity.
  - inversion HF as [|a' v l' vs' Ha HF']; subst.
    destruct (w_join_istart _ _ _ _ _ _ _ _ Ha Hj) as (c & t & -> & Hc & Hp).
    cbn [app]. rewrite dec_special_miss by exact Hp.
    change (c :: t ++ ch ")" :: rest) with ((c :: t) ++ ch ")" :: rest).
    rewrite (list_items_rt _ _ _ _ _ _ HF ltac:(discriminate) (c :: t) rest _ Hj).
    + reflexivity.
    + rewrite app_length. cbn [length]. lia.
Qed.



Lemma option_map_some : forall A B (f : A -> B) o x, option_map f o = Some x -> exists y, o = Some y /\ x = f y.
Proof. intros A B f [y|] x H; cbn in H; [|discriminate]. inversion H. eauto. Qed.

Lemma lfollow_delimited : forall r, lfollow r -> delimited r.
Proof. intros r [t [-> | ->]]; split; reflexivity. Qed.

Lemma lfollow_nodigit : forall r, lfollow r -> match r with [] => False | c :: _ => is_digit c = false end.
Proof. intros r [t [-> | ->]]; reflexivity. Qed.

Lemma dec_starts : forall n, exists c t, dec_of_N n = c :: t /\ nocrlf c.
Proof. intros n. destruct (dec_first n) as (c & t & E & H). exists c, t. split; [exact E|apply digit_nocrlf, H]. Qed.

Lemma dec_sp_no : forall c r, beqb c SP_ = false -> (b2n c =? 40) = false -> dec_sp (c :: r) = DNo (c :: r).
Proof. intros c r H1 H2. cbn [dec_sp]. rewrite H1, H2. reflexivity. Qed.

(* ---------------------------------------------------------------- *)
(* flags *)

Lemma flag_item : forall f, item_ok w_flag dec_flag f (canonical_flag f).
Proof.
  intros f x H. unfold w_flag in H. apply option_map_some in H. destruct H as (segs & He & ->).
  split.
  - unfold enc_flag in He. destruct (bytes_eqb f (s2b "\*")) eqn:E; cbn [orb] in He.
    + inversion He; subst segs. apply bytes_eqb_eq in E. subst f. rewrite flatten_single.
      eexists _, _. split; [reflexivity|]. repeat split; reflexivity.
    + destruct (is_valid_flag f) eqn:Ev; [|discriminate]. inversion He; subst segs.
      rewrite flatten_single. unfold is_valid_flag in Ev.
      apply andb_true_iff in Ev. destruct Ev as [Ev _]. apply andb_true_iff in Ev. destruct Ev as [Ev Hn].
      destruct f as [|c f]; [discriminate|]. exists c, f. split; [reflexivity|].
      cbn [valid_flag_chars] in Ev. apply andb_true_iff in Ev. destruct Ev as [Hc _].
      destruct (beqb c BSL_) eqn:Eb.
      * apply beqb_true_iff in Eb. subst c. repeat split; reflexivity.
      * destruct (atom_char_facts c Hc) as (_&_&_&_&_&H1&H2&H3&_). repeat split; assumption.
  - intros r Hr. apply flag_roundtrip; [apply lfollow_delimited; exact Hr|exact He].
Qed.

Lemma flag_items : forall fl, Forall2 (item_ok w_flag dec_flag) fl (norm_flags fl).
Proof. induction fl; cbn [norm_flags map]; constructor; [apply flag_item|assumption]. Qed.

Lemma w_list_first : forall A (f : A -> wr) l bs, w_list f l = Some bs -> exists t, bs = ch "(" :: t.
Proof. intros A f l bs H. apply w_list_inv in H. destruct H as (j & _ & ->). eauto. Qed.

Lemma lp_starts : forall t, exists c t', ch "(" :: t = c :: t' /\ nocrlf c.
Proof. intros t. exists (ch "("), t. split; [reflexivity|split; reflexivity]. Qed.

(* ---------------------------------------------------------------- *)

Lemma dec_text_rt : forall text r, text <> [] -> forallb (fun c => negb (beqb c CR_ || beqb c LF_)) text = true ->
  dec_text (text ++ CR_ :: r) = DOk text (CR_ :: r).
Proof. intros text r Hn H. unfold dec_text. apply dec_func_app; [exact Hn|exact H|reflexivity]. Qed.

Lemma numset_rt : forall s x r, canon s = true -> delimited r -> w_numset s = Some x ->
  dec_numset (x ++ r) = DOk (Some s) r.
Proof.
  intros s x r Hc Hr H. unfold w_numset in H. apply option_map_some in H. destruct H as (segs & He & ->).
  apply numset_roundtrip; assumption.
Qed.

Lemma numset_starts : forall s x, w_numset s = Some x -> exists c t, x = c :: t /\ nocrlf c.
Proof.
  intros s x H. unfold w_numset in H. apply option_map_some in H. destruct H as (segs & He & ->).
  unfold enc_numset in He. pose proof (to_string_numset_chars s) as Hch.
  destruct (to_string s) as [|c t] eqn:E; [discriminate|]. inversion He; subst segs.
  rewrite flatten_single. exists c, t. split; [reflexivity|].
  apply forallb_hd in Hch. unfold is_numset_char in Hch. apply orb_true_iff in Hch. destruct Hch as [Hs|Ha].
  - apply N.eqb_eq in Hs. assert (c = ch "*") as ->.
    { rewrite <- (n2b_b2n c), Hs. reflexivity. } split; reflexivity.
  - apply atom_nocrlf, Ha.
Qed.

Lemma wf_tag_inv : forall tag, wf_tag tag = true ->
  exists c t, tag = c :: t /\ forallb is_atom_char tag = true /\ beqb c (ch "+") = false.
Proof.
  intros [|c t] H; [discriminate|]. unfold wf_tag in H. cbn [is_nil negb andb] in H.
  apply andb_true_iff in H. destruct H as [Ha Hp]. exists c, t. split; [reflexivity|]. split; [exact Ha|].
  change (s2b "+") with [ch "+"] in Hp. cbn [has_prefix] in Hp. rewrite andb_true_r in Hp.
  apply negb_true_iff in Hp. apply beqb_false_iff. apply beqb_false_iff in Hp. congruence.
Qed.



(* ---------------------------------------------------------------- *)
(* UTF-8 validity: the boolean walk yields the runes *)

Lemma decode_rune_valid : forall s r size, s <> [] -> decode_rune s = (r, size) ->
  ((r =? REPL) && Nat.eqb size 1) = false ->
  scalar r = true /\ s = encode_rune r ++ skipn size s.
Proof.
  intros s r size Hne H Hnr. destruct s as [|b0 s1]; [congruence|]. unfold decode_rune in H.
  assert (Hbad : (REPL, 1%nat) = (r, size) -> False).
  { intros E. inversion E; subst. vm_compute in Hnr. discriminate Hnr. }
  unfold scalar, is_surrogate, encode_rune, is_surrogate.
  destruct (b0 <? 128) eqn:E0.
  { inversion H; subst. rewrite E0. split; [lia|reflexivity]. }
  destruct ((194 <=? b0) && (b0 <=? 223)) eqn:E1.
  { destruct s1 as [|b1 s2]; [destruct (Hbad H)|].
    destruct (cont b1) eqn:C1; [|destruct (Hbad H)]. unfold cont in C1.
    inversion H; subst. clear H Hbad Hnr. ifs. split; [lia|]. cbn [app skipn]. f_equal; [lia|f_equal; lia]. }
  destruct ((224 <=? b0) && (b0 <=? 239)) eqn:E2.
  { destruct s1 as [|b1 [|b2 s3]]; try destruct (Hbad H). cbv zeta in H. unfold cont in H.
    destruct (b0 =? 224) eqn:A1; destruct (b0 =? 237) eqn:A2;
    match type of H with (if ?c then _ else _) = _ => destruct c eqn:C1; [|destruct (Hbad H)] end;
    inversion H; subst; clear H Hbad Hnr; ifs; (split; [lia|]); cbn [app skipn];
    (f_equal; [lia|f_equal; [lia|f_equal; lia]]). }
  destruct ((240 <=? b0) && (b0 <=? 244)) eqn:E3.
  { destruct s1 as [|b1 [|b2 [|b3 s4]]]; try destruct (Hbad H). cbv zeta in H. unfold cont in H.
    destruct (b0 =? 240) eqn:A1; destruct (b0 =? 244) eqn:A2;
    match type of H with (if ?c then _ else _) = _ => destruct c eqn:C1; [|destruct (Hbad H)] end;
    inversion H; subst; clear H Hbad Hnr; ifs; (split; [lia|]); cbn [app skipn];
    (f_equal; [lia|f_equal; [lia|f_equal; [lia|f_equal; lia]]]). }
  destruct (Hbad H).
Qed.

Lemma utf8_runes_sound : forall fuel s l, utf8_runes fuel s = Some l ->
  forallb scalar l = true /\ s = flat_map encode_rune l.
Proof.
  induction fuel as [|k IH]; intros s l H; [cbn in H; discriminate H|].
  cbn [utf8_runes] in H. destruct s as [|b0 s1].
  - inversion H; subst. split; reflexivity.
  - destruct (decode_rune (b0 :: s1)) as [r size] eqn:D.
    destruct ((r =? REPL) && Nat.eqb size 1) eqn:C; [discriminate H|].
    destruct (utf8_runes k (skipn size (b0 :: s1))) as [l'|] eqn:U; [|discriminate H].
    inversion H; subst l. destruct (IH _ _ U) as [Hs Hl].
    assert (Hne : b0 :: s1 <> []) by discriminate.
    destruct (decode_rune_valid _ _ _ Hne D C) as [Hr Hd].
    split; [cbn [forallb]; rewrite Hr, Hs; reflexivity|].
    cbn [flat_map]. rewrite <- Hl. exact Hd.
Qed.

Lemma valid_utf8_b_sound : forall s, valid_utf8_b s = true -> valid_utf8 s.
Proof.
  intros s H. unfold valid_utf8_b in H.
  destruct (utf8_runes (S (length s)) (map b2n s)) as [l|] eqn:U; [|discriminate H].
  destruct (utf8_runes_sound _ _ _ U) as [Hs Hl]. exists l. split; [exact Hs|].
  unfold utf8_of. rewrite <- Hl. symmetry. apply map_n2b_b2n.
Qed.

Lemma fits_int64_of : forall s, fits s = true -> fits_int64 s.
Proof. intros s H. unfold fits in H. unfold fits_int64. lia. Qed.

(* ---------------------------------------------------------------- *)
(* mailbox names *)

Lemma mailbox_rt : forall q name x rest, wf_mailbox name = true -> delimited rest -> w_mailbox q name = Some x ->
  dec_mailbox false (x ++ rest) = DOk (norm_mailbox name) rest.
Proof.
  intros q name x rest Hw Hr H. unfold wf_mailbox in Hw. apply andb_true_iff in Hw. destruct Hw as [Hv Hf].
  destruct (valid_utf8_b_sound _ Hv) as (runes & Hs & ->).
  unfold w_mailbox in H. apply option_map_some in H. destruct H as (segs & He & ->).
  exact (mailbox_roundtrip (scfg q) runes segs rest Hs (fits_int64_of _ Hf) Hr He).
Qed.

Lemma enc_string_starts : forall cfg s segs, enc_string cfg s = Some segs ->
  exists c t, flatten segs = c :: t /\ nocrlf c /\ beqb c (ch ")") = false.
Proof.
  intros cfg s segs H. unfold enc_string in H. destruct (valid_quoted cfg s).
  - inversion H; subst. rewrite flatten_single. unfold enc_quoted. eexists _, _.
    split; [reflexivity|]. repeat split; reflexivity.
  - destruct (enc_literal_shape _ _ _ H) as (plus & _ & ->). eexists _, _.
    split; [reflexivity|]. repeat split; reflexivity.
Qed.

Lemma mailbox_starts : forall q name x, w_mailbox q name = Some x -> exists c t, x = c :: t /\ nocrlf c.
Proof.
  intros q name x H. unfold w_mailbox in H. apply option_map_some in H. destruct H as (segs & He & ->).
  unfold enc_mailbox in He. destruct (equal_fold_ascii name INBOX).
  - inversion He; subst. rewrite flatten_single. eexists _, _. split; [reflexivity|split; reflexivity].
  - destruct (enc_string_starts _ _ _ He) as (c & t & E & Hc & _). eauto.
Qed.

(* ---------------------------------------------------------------- *)
(* STATUS items *)

Ltac istart_lit :=
  unfold istart; eexists _, _; split;
  [cbn [s2b list_ascii_of_string app]; reflexivity | split; [split|]; reflexivity].

Ltac rsa_start :=
  unfold read_status_att, ex_atom; rewrite dec_atom_app by (reflexivity || discriminate); cbn [ex bind].

Lemma lfollow_nonatom : forall r, lfollow r -> nonatom r.
Proof. intros r H. apply delimited_nonatom, lfollow_delimited, H. Qed.

Lemma rsa_messages : forall n r, n < 4294967296 -> lfollow r ->
  read_status_att (s2b "MESSAGES" ++ SP_ :: dec_of_N n ++ r) = DOk (SIMessages n) r.
Proof.
  intros n r Hn Hr. rsa_start. rewrite ex_sp_app by apply dec_starts. cbn [bind]. cbv zeta. ev_if.
  unfold ex_number. rewrite number_roundtrip by (exact Hn || apply lfollow_nodigit, Hr). reflexivity.
Qed.

Lemma rsa_uidnext : forall n r, n < 4294967296 -> lfollow r ->
  read_status_att (s2b "UIDNEXT" ++ SP_ :: dec_of_N n ++ r) = DOk (SIUidNext n) r.
Proof.
  intros n r Hn Hr. rsa_start. rewrite ex_sp_app by apply dec_starts. cbn [bind]. cbv zeta. ev_if.
  unfold ex_number. rewrite number_roundtrip by (exact Hn || apply lfollow_nodigit, Hr). reflexivity.
Qed.

Lemma rsa_uidvalidity : forall n r, n < 4294967296 -> lfollow r ->
  read_status_att (s2b "UIDVALIDITY" ++ SP_ :: dec_of_N n ++ r) = DOk (SIUidValidity n) r.
Proof.
  intros n r Hn Hr. rsa_start. rewrite ex_sp_app by apply dec_starts. cbn [bind]. cbv zeta. ev_if.
  unfold ex_number. rewrite number_roundtrip by (exact Hn || apply lfollow_nodigit, Hr). reflexivity.
Qed.

Lemma rsa_unseen : forall n r, n < 4294967296 -> lfollow r ->
  read_status_att (s2b "UNSEEN" ++ SP_ :: dec_of_N n ++ r) = DOk (SIUnseen n) r.
Proof.
  intros n r Hn Hr. rsa_start. rewrite ex_sp_app by apply dec_starts. cbn [bind]. cbv zeta. ev_if.
  unfold ex_number. rewrite number_roundtrip by (exact Hn || apply lfollow_nodigit, Hr). reflexivity.
Qed.

Lemma rsa_deleted : forall n r, n < 4294967296 -> lfollow r ->
  read_status_att (s2b "DELETED" ++ SP_ :: dec_of_N n ++ r) = DOk (SIDeleted n) r.
Proof.
  intros n r Hn Hr. rsa_start. rewrite ex_sp_app by apply dec_starts. cbn [bind]. cbv zeta. ev_if.
  unfold ex_number. rewrite number_roundtrip by (exact Hn || apply lfollow_nodigit, Hr). reflexivity.
Qed.

Lemma rsa_size : forall n r, n < 9223372036854775808 -> lfollow r ->
  read_status_att (s2b "SIZE" ++ SP_ :: dec_of_N n ++ r) = DOk (SISize n) r.
Proof.
  intros n r Hn Hr. rsa_start. rewrite ex_sp_app by apply dec_starts. cbn [bind]. cbv zeta. ev_if.
  unfold ex_number64, dec_number64. rewrite dec_uint_roundtrip by (exact Hn || apply lfollow_nodigit, Hr). reflexivity.
Qed.

Lemma rsa_deleted_storage : forall n r, n < 9223372036854775808 -> lfollow r ->
  read_status_att (s2b "DELETED-STORAGE" ++ SP_ :: dec_of_N n ++ r) = DOk (SIDeletedStorage n) r.
Proof.
  intros n r Hn Hr. rsa_start. rewrite ex_sp_app by apply dec_starts. cbn [bind]. cbv zeta. ev_if.
  unfold ex_number64, dec_number64. rewrite dec_uint_roundtrip by (exact Hn || apply lfollow_nodigit, Hr). reflexivity.
Qed.

Lemma rsa_appendlimit : forall n r, n < 4294967296 -> lfollow r ->
  read_status_att (s2b "APPENDLIMIT" ++ SP_ :: dec_of_N n ++ r) = DOk (SIAppendLimit n) r.
Proof.
  intros n r Hn Hr. rsa_start. rewrite ex_sp_app by apply dec_starts. cbn [bind]. cbv zeta. ev_if.
  rewrite number_roundtrip by (exact Hn || apply lfollow_nodigit, Hr). reflexivity.
Qed.

Lemma rsa_appendlimit_nil : forall r, lfollow r ->
  read_status_att (s2b "APPENDLIMIT" ++ SP_ :: s2b "NIL" ++ r) = DOk (SIAppendLimit 4294967295) r.
Proof.
  intros r Hr. rsa_start.
  rewrite ex_sp_app by (eexists _, _; split; [reflexivity|split; reflexivity]). cbn [bind]. cbv zeta. ev_if.
  unfold dec_number, dec_uint. change (s2b "NIL") with (ch "N" :: s2b "IL"). cbn [app].
  rewrite dec_func_no by reflexivity. unfold dec_nil.
  change (ch "N" :: s2b "IL" ++ r) with (s2b "NIL" ++ r).
  rewrite dec_atom_app by (reflexivity || discriminate || apply lfollow_nonatom, Hr). reflexivity.
Qed.

Lemma rsa_recent : forall r, lfollow r ->
  read_status_att (s2b "RECENT" ++ SP_ :: s2b "0" ++ r) = DOk SIOther r.
Proof.
  intros r Hr. rsa_start.
  rewrite ex_sp_app by (eexists _, _; split; [reflexivity|split; reflexivity]). cbn [bind]. cbv zeta. ev_if.
  rewrite discard_atom_like by (reflexivity || discriminate || apply lfollow_nonatom, Hr). reflexivity.
Qed.

Lemma w_num64_inv : forall z x, w_num64 z = Some x -> (0 <= z)%Z /\ x = dec_of_N (Z.to_N z).
Proof.
  intros z x H. unfold w_num64 in H. apply option_map_some in H. destruct H as (segs & He & ->).
  unfold enc_number64 in He. destruct (z <? 0)%Z eqn:E; [discriminate|]. inversion He; subst.
  rewrite flatten_single. split; [lia|reflexivity].
Qed.

Definition idw (x : wr) : wr := x.

Lemma item_opt_num : forall name (mk : N -> status_item) (b : bool) v, opt_u32 v = true ->
  (forall n r, n < 4294967296 -> lfollow r -> read_status_att (s2b name ++ SP_ :: dec_of_N n ++ r) = DOk (mk n) r) ->
  (exists c t, s2b name = c :: t /\ nocrlf c /\ beqb c (ch ")") = false) ->
  Forall2 (item_ok (fun x => x) read_status_att)
    (if b then w_opt_num name v else [])
    (if b then match v with Some n => [mk n] | None => [] end else []).
Proof.
  intros name mk b v Hv Hrd (c & t & Ec & Hc1 & Hc2). destruct b; [|constructor].
  destruct v as [n|]; cbn [w_opt_num]; constructor; [|constructor].
  intros x H. winv H. change (s2b " ") with [SP_]. split.
  - exists c. eexists. rewrite Ec. cbn [app]. split; [reflexivity|split; assumption].
  - intros r Hr. rewrite <- !app_assoc. cbn [app]. apply Hrd; [|exact Hr]. unfold opt_u32, u32 in Hv. lia.
Qed.

Lemma item_opt_num64 : forall name (mk : N -> status_item) (b : bool) v, opt_i64 v = true ->
  (forall n r, n < 9223372036854775808 -> lfollow r -> read_status_att (s2b name ++ SP_ :: dec_of_N n ++ r) = DOk (mk n) r) ->
  (exists c t, s2b name = c :: t /\ nocrlf c /\ beqb c (ch ")") = false) ->
  Forall2 (item_ok (fun x => x) read_status_att)
    (if b then w_opt_num64 name v else [])
    (if b then match v with Some z => [mk (Z.to_N z)] | None => [] end else []).
Proof.
  intros name mk b v Hv Hrd (c & t & Ec & Hc1 & Hc2). destruct b; [|constructor].
  destruct v as [z|]; cbn [w_opt_num64]; constructor; [|constructor].
  intros x H. apply wcat_some in H. destruct H as (x1 & y1 & H1 & H & ->). winv H1.
  apply wcat_some in H. destruct H as (x2 & y2 & H2 & H & ->). winv H2.
  apply w_num64_inv in H. destruct H as [Hz ->]. change (s2b " ") with [SP_]. split.
  - exists c. eexists. rewrite Ec. cbn [app]. split; [reflexivity|split; assumption].
  - intros r Hr. rewrite <- !app_assoc. cbn [app]. apply Hrd; [|exact Hr]. unfold opt_i64, i64 in Hv. lia.
Qed.

Lemma item_num : forall name1 name (mk : N -> status_item) (b : bool) n, u32 n = true ->
  s2b name1 = s2b name ++ [SP_] ->
  (forall n r, n < 4294967296 -> lfollow r -> read_status_att (s2b name ++ SP_ :: dec_of_N n ++ r) = DOk (mk n) r) ->
  (exists c t, s2b name = c :: t /\ nocrlf c /\ beqb c (ch ")") = false) ->
  Forall2 (item_ok (fun x => x) read_status_att)
    (if b then [ws name1 +++ w_num n] else []) (if b then [mk n] else []).
Proof.
  intros name1 name mk b n Hv E Hrd (c & t & Ec & Hc1 & Hc2). destruct b; constructor; [|constructor].
  intros x H. winv H. rewrite E. split.
  - exists c. eexists. rewrite Ec. cbn [app]. split; [reflexivity|split; assumption].
  - intros r Hr. rewrite <- !app_assoc. cbn [app]. apply Hrd; [|exact Hr]. unfold u32 in Hv. lia.
Qed.

Ltac starts_lit := eexists _, _; split; [cbn [s2b list_ascii_of_string]; reflexivity|split; [split|]; reflexivity].

Definition status_items (o : status_opts) (d : status_data) : list status_item :=
  (if so_messages o then match sd_messages d with Some n => [SIMessages n] | None => [] end else []) ++
  (if so_uidnext o then [SIUidNext (sd_uidnext d)] else []) ++
  (if so_uidvalidity o then [SIUidValidity (sd_uidvalidity d)] else []) ++
  (if so_unseen o then match sd_unseen d with Some n => [SIUnseen n] | None => [] end else []) ++
  (if so_deleted o then match sd_deleted d with Some n => [SIDeleted n] | None => [] end else []) ++
  (if so_size o then match sd_size d with Some z => [SISize (Z.to_N z)] | None => [] end else []) ++
  (if so_appendlimit o then [SIAppendLimit (match sd_appendlimit d with Some n => n | None => 4294967295 end)] else []) ++
  (if so_deleted_storage o then match sd_deleted_storage d with Some z => [SIDeletedStorage (Z.to_N z)] | None => [] end else []) ++
  (if so_recent o then [SIOther] else []).

Section StatusFold.

Variable mb : bytes.

Let A := apply_status_item.

Lemma st_messages : forall (b : bool) v a1 a2 a3 a4 a5 a6 a7,
  fold_left A (if b then match v with Some n => [SIMessages n] | None => [] end else []) (mkSD mb None a1 a2 a3 a4 a5 a6 a7)
  = mkSD mb (if b then v else None) a1 a2 a3 a4 a5 a6 a7.
Proof. intros [] [] *; reflexivity. Qed.

Lemma st_uidnext : forall (b : bool) v a0 a2 a3 a4 a5 a6 a7,
  fold_left A (if b then [SIUidNext v] else []) (mkSD mb a0 0 a2 a3 a4 a5 a6 a7)
  = mkSD mb a0 (if b then v else 0) a2 a3 a4 a5 a6 a7.
Proof. intros [] *; reflexivity. Qed.

Lemma st_uidvalidity : forall (b : bool) v a0 a1 a3 a4 a5 a6 a7,
  fold_left A (if b then [SIUidValidity v] else []) (mkSD mb a0 a1 0 a3 a4 a5 a6 a7)
  = mkSD mb a0 a1 (if b then v else 0) a3 a4 a5 a6 a7.
Proof. intros [] *; reflexivity. Qed.

Lemma st_unseen : forall (b : bool) v a0 a1 a2 a4 a5 a6 a7,
  fold_left A (if b then match v with Some n => [SIUnseen n] | None => [] end else []) (mkSD mb a0 a1 a2 None a4 a5 a6 a7)
  = mkSD mb a0 a1 a2 (if b then v else None) a4 a5 a6 a7.
Proof. intros [] [] *; reflexivity. Qed.

Lemma st_deleted : forall (b : bool) v a0 a1 a2 a3 a5 a6 a7,
  fold_left A (if b then match v with Some n => [SIDeleted n] | None => [] end else []) (mkSD mb a0 a1 a2 a3 None a5 a6 a7)
  = mkSD mb a0 a1 a2 a3 (if b then v else None) a5 a6 a7.
Proof. intros [] [] *; reflexivity. Qed.

Lemma st_size : forall (b : bool) v a0 a1 a2 a3 a4 a6 a7, opt_i64 v = true ->
  fold_left A (if b then match v with Some z => [SISize (Z.to_N z)] | None => [] end else []) (mkSD mb a0 a1 a2 a3 a4 None a6 a7)
  = mkSD mb a0 a1 a2 a3 a4 (if b then v else None) a6 a7.
Proof.
  intros [] [z|] * H; try reflexivity. cbn [fold_left]. subst A. cbn [apply_status_item sd_mailbox sd_messages
    sd_uidnext sd_uidvalidity sd_unseen sd_deleted sd_size sd_appendlimit sd_deleted_storage].
  unfold opt_i64, i64 in H. rewrite Z2N.id by lia. reflexivity.
Qed.

Lemma st_appendlimit : forall (b : bool) v a0 a1 a2 a3 a4 a5 a7,
  fold_left A (if b then [SIAppendLimit v] else []) (mkSD mb a0 a1 a2 a3 a4 a5 None a7)
  = mkSD mb a0 a1 a2 a3 a4 a5 (if b then Some v else None) a7.
Proof. intros [] *; reflexivity. Qed.

Lemma st_deleted_storage : forall (b : bool) v a0 a1 a2 a3 a4 a5 a6, opt_i64 v = true ->
  fold_left A (if b then match v with Some z => [SIDeletedStorage (Z.to_N z)] | None => [] end else []) (mkSD mb a0 a1 a2 a3 a4 a5 a6 None)
  = mkSD mb a0 a1 a2 a3 a4 a5 a6 (if b then v else None).
Proof.
  intros [] [z|] * H; try reflexivity. cbn [fold_left]. subst A. cbn [apply_status_item sd_mailbox sd_messages
    sd_uidnext sd_uidvalidity sd_unseen sd_deleted sd_size sd_appendlimit sd_deleted_storage].
  unfold opt_i64, i64 in H. rewrite Z2N.id by lia. reflexivity.
Qed.

Lemma st_recent : forall (b : bool) st, fold_left A (if b then [SIOther] else []) st = st.
Proof. intros [] *; reflexivity. Qed.

End StatusFold.

Lemma status_fold : forall o d, wf_status d = true ->
  fold_left apply_status_item (status_items o d) (empty_status (norm_mailbox (sd_mailbox d))) = norm_status o d.
Proof.
  intros o d Hw. unfold wf_status in Hw.
  repeat (apply andb_true_iff in Hw; destruct Hw as [Hw ?]).
  unfold status_items, empty_status. rewrite !fold_left_app.
  rewrite st_messages, st_uidnext, st_uidvalidity, st_unseen, st_deleted, st_size by assumption.
  rewrite st_appendlimit, st_deleted_storage by assumption. rewrite st_recent. reflexivity.
Qed.

Lemma status_items_ok : forall o d, wf_status d = true ->
  Forall2 (item_ok (fun x => x) read_status_att)
   ((if so_messages o then w_opt_num "MESSAGES" (sd_messages d) else []) ++
    (if so_uidnext o then [ws "UIDNEXT " +++ w_num (sd_uidnext d)] else []) ++
    (if so_uidvalidity o then [ws "UIDVALIDITY " +++ w_num (sd_uidvalidity d)] else []) ++
    (if so_unseen o then w_opt_num "UNSEEN" (sd_unseen d) else []) ++
    (if so_deleted o then w_opt_num "DELETED" (sd_deleted d) else []) ++
    (if so_size o then w_opt_num64 "SIZE" (sd_size d) else []) ++
    (if so_appendlimit o then [ws "APPENDLIMIT " +++ match sd_appendlimit d with Some n => w_num n | None => ws "NIL" end] else []) ++
    (if so_deleted_storage o then w_opt_num64 "DELETED-STORAGE" (sd_deleted_storage d) else []) ++
    (if so_recent o then [ws "RECENT 0"] else []))
   (status_items o d).
Proof.
  intros o d Hw. unfold wf_status in Hw.
  repeat (apply andb_true_iff in Hw; destruct Hw as [Hw ?]).
  unfold status_items. repeat apply Forall2_app.
  - apply item_opt_num; [assumption|apply rsa_messages|starts_lit].
  - apply (item_num "UIDNEXT " "UIDNEXT"); [assumption|reflexivity|apply rsa_uidnext|starts_lit].
  - apply (item_num "UIDVALIDITY " "UIDVALIDITY"); [assumption|reflexivity|apply rsa_uidvalidity|starts_lit].
  - apply item_opt_num; [assumption|apply rsa_unseen|starts_lit].
  - apply item_opt_num; [assumption|apply rsa_deleted|starts_lit].
  - apply item_opt_num64; [assumption|apply rsa_size|starts_lit].
  - destruct (so_appendlimit o); constructor; [|constructor].
    intros x Hx. destruct (sd_appendlimit d) as [n|]; winv Hx;
      change (s2b "APPENDLIMIT ") with (s2b "APPENDLIMIT" ++ [SP_]); (split; [istart_lit|]);
      intros r Hr; rewrite <- !app_assoc; cbn [app].
    + apply rsa_appendlimit; [|exact Hr]. unfold opt_u32, u32 in *. lia.
    + apply rsa_appendlimit_nil; exact Hr.
  - apply item_opt_num64; [assumption|apply rsa_deleted_storage|starts_lit].
  - destruct (so_recent o); constructor; [|constructor].
    intros x Hx. winv Hx. change (s2b "RECENT 0") with (s2b "RECENT" ++ SP_ :: s2b "0"). split; [istart_lit|].
    intros r Hr. rewrite <- !app_assoc. cbn [app]. apply rsa_recent; exact Hr.
Qed.



Lemma dec_sp_app : forall a r, (exists c t, a = c :: t /\ nocrlf c) -> dec_sp (SP_ :: a ++ r) = DOk tt (a ++ r).
Proof. intros a r (c & t & -> & H). cbn [app]. apply dec_sp_ok. exact H. Qed.

Lemma dec_atom_lp : forall x r, (exists t, x = ch "(" :: t) -> dec_atom (x ++ r) = DNo (x ++ r).
Proof. intros x r (t & ->). cbn [app]. unfold dec_atom. apply dec_func_no. reflexivity. Qed.

(* ---------------------------------------------------------------- *)
(* attributes *)

Lemma attr_item : forall a, item_ok w_attr dec_mailbox_attr a (canonical_attr (canonical_flag a)).
Proof.
  intros a x H. unfold w_attr in H. apply option_map_some in H. destruct H as (segs & He & ->).
  split.
  - unfold enc_mailbox_attr in He. destruct (has_prefix [BSL_] a && is_valid_flag a) eqn:E; [|discriminate].
    inversion He; subst segs. rewrite flatten_single. apply andb_true_iff in E. destruct E as [E _].
    destruct a as [|c t]; [discriminate E|]. cbn [has_prefix] in E. rewrite andb_true_r in E.
    apply beqb_true_iff in E. subst c. exists BSL_, t. split; [reflexivity|]. repeat split; reflexivity.
  - intros r Hr. apply attr_roundtrip; [apply lfollow_delimited; exact Hr|exact He].
Qed.

Lemma attr_items : forall l, Forall2 (item_ok w_attr dec_mailbox_attr) l (norm_attrs l).
Proof. induction l; cbn [norm_attrs map]; constructor; [apply attr_item|assumption]. Qed.

(* ---------------------------------------------------------------- *)
(* hierarchy delimiter *)

Lemma delim_starts : forall d x, w_delim d = Some x -> exists c t, x = c :: t /\ nocrlf c.
Proof.
  intros d x H. unfold w_delim in H. destruct (d =? 0); winv H.
  - eexists _, _. split; [reflexivity|split; reflexivity].
  - unfold enc_quoted. eexists _, _. split; [reflexivity|split; reflexivity].
Qed.

Lemma delim_rt : forall d x r, wf_delim d = true -> nonatom r -> w_delim d = Some x ->
  read_delim (x ++ r) = DOk d r.
Proof.
  intros d x r Hw Hr H. unfold w_delim in H. unfold wf_delim in Hw. destruct (d =? 0) eqn:E0; winv H.
  - apply N.eqb_eq in E0. subst d. unfold read_delim.
    change (s2b "NIL") with (ch "N" :: s2b "IL"). cbn [app]. rewrite dec_quoted_miss by reflexivity.
    change (ch "N" :: s2b "IL" ++ r) with (s2b "NIL" ++ r). unfold dec_nil.
    rewrite dec_atom_app by (reflexivity || discriminate || exact Hr). reflexivity.
  - cbn [orb] in Hw. apply andb_true_iff in Hw. destruct Hw as [Hs Hn].
    unfold read_delim. rewrite quoted_roundtrip. unfold rune_bytes.
    rewrite map_b2n_n2b.
    + pose proof (decode_encode_rune d [] Hs) as D. rewrite app_nil_r in D. rewrite D.
      apply negb_true_iff in Hn. rewrite Hn. rewrite map_length, Nat.eqb_refl. reflexivity.
    + apply Forall_forall. intros y Hy. pose proof (encode_rune_bytes d) as Hb.
      rewrite forallb_forall in Hb. specialize (Hb y Hy). lia.
Qed.

(* ---------------------------------------------------------------- *)
(* LIST extended data *)

Lemma astring_atom : forall a r, a <> [] -> forallb is_atom_char a = true -> nonatom r ->
  dec_astring false (a ++ r) = DOk a r.
Proof.
  intros a r Hn Ha Hr. unfold dec_astring. destruct a as [|c t]; [congruence|].
  destruct (atom_char_facts c (forallb_hd _ _ _ Ha)) as (_ & _ & H1 & H2 & _).
  cbn [app]. rewrite dec_string_miss by assumption.
  rewrite app_comm_cons. rewrite dec_atom_app by assumption. reflexivity.
Qed.

Definition list_ext_items (q : bool) (d : list_data) : list wr :=
  (match ld_childinfo d with
   | Some sub => [ws "CHILDINFO (" +++ (if sub then w_quoted (s2b "SUBSCRIBED") else Some []) +++ ws ")"]
   | None => [] end) ++
  (if is_nil (ld_oldname d) then [] else [ws "OLDNAME (" +++ w_mailbox q (ld_oldname d) +++ ws ")"]).

Definition list_exts (d : list_data) : list list_ext :=
  (match ld_childinfo d with Some sub => [LEChildInfo sub] | None => [] end) ++
  (if is_nil (ld_oldname d) then [] else [LEOldName (norm_mailbox (ld_oldname d))]).

Lemma childinfo_item : forall sub : bool,
  item_ok (fun x : wr => x) read_list_ext
    (ws "CHILDINFO (" +++ (if sub then w_quoted (s2b "SUBSCRIBED") else Some []) +++ ws ")") (LEChildInfo sub).
Proof.
  intros sub x H. apply wcat_some in H. destruct H as (x1 & y1 & H1 & H & ->). winv H1.
  apply wcat_some in H. destruct H as (x2 & y2 & H2 & H & ->). winv H.
  change (s2b "CHILDINFO (") with (s2b "CHILDINFO" ++ [SP_; ch "("]). change (s2b ")") with [ch ")"].
  split; [istart_lit|]. intros r Hr. rewrite <- !app_assoc. cbn [app].
  unfold read_list_ext. rewrite astring_atom by (reflexivity || discriminate). cbn [bind].
  rewrite ex_sp_ok by (split; reflexivity). cbn [bind]. cbv zeta. ev_if.
  unfold ex_list, dec_list. rewrite dec_special_hit. destruct sub; winv H2.
  - unfold enc_quoted at 1. cbn [app]. rewrite dec_special_miss by reflexivity.
    cbn [list_items].
    change (DQ_ :: (escape_quoted (s2b "SUBSCRIBED") ++ [DQ_]) ++ ch ")" :: r)
      with (enc_quoted (s2b "SUBSCRIBED") ++ ch ")" :: r).
    unfold dec_astring, dec_string. rewrite quoted_roundtrip. rewrite dec_special_hit. cbn [bind].
    reflexivity.
  - cbn [app]. rewrite dec_special_hit. cbn [bind]. reflexivity.
Qed.

Lemma oldname_item : forall q name, wf_mailbox name = true ->
  item_ok (fun x : wr => x) read_list_ext
    (ws "OLDNAME (" +++ w_mailbox q name +++ ws ")") (LEOldName (norm_mailbox name)).
Proof.
  intros q name Hw x H. apply wcat_some in H. destruct H as (x1 & y1 & H1 & H & ->). winv H1.
  apply wcat_some in H. destruct H as (mb & y2 & Hmb & H & ->). winv H.
  change (s2b "OLDNAME (") with (s2b "OLDNAME" ++ [SP_; ch "("]). change (s2b ")") with [ch ")"].
  split; [istart_lit|]. intros r Hr. rewrite <- !app_assoc. cbn [app].
  unfold read_list_ext. rewrite astring_atom by (reflexivity || discriminate). cbn [bind].
  rewrite ex_sp_ok by (split; reflexivity). cbn [bind]. cbv zeta. ev_if.
  unfold ex_special. rewrite dec_special_hit. cbn [ex bind].
  rewrite (mailbox_rt q name) by (exact Hw || exact Hmb || (split; reflexivity)). cbn [bind].
  rewrite dec_special_hit. reflexivity.
Qed.

Lemma list_ext_items_ok : forall q d, (is_nil (ld_oldname d) || wf_mailbox (ld_oldname d)) = true ->
  Forall2 (item_ok (fun x : wr => x) read_list_ext) (list_ext_items q d) (list_exts d).
Proof.
  intros q d Hw. unfold list_ext_items, list_exts. apply Forall2_app.
  - destruct (ld_childinfo d) as [sub|]; constructor; [apply childinfo_item|constructor].
  - destruct (is_nil (ld_oldname d)); constructor; [|constructor].
    apply oldname_item. exact Hw.
Qed.

Lemma list_ext_rt : forall q d xs rest d0, (is_nil (ld_oldname d) || wf_mailbox (ld_oldname d)) = true ->
  (match list_ext_items q d with [] => Some [] | _ => ws " " +++ w_list (fun x => x) (list_ext_items q d) end) = Some xs ->
  match dec_sp (xs ++ CR_ :: rest) with
  | DOk _ r' => do exts, r'' <- ex_list read_list_ext r'; DOk (fold_left apply_list_ext exts d0) r''
  | DErr => DErr
  | DNo r' => DOk d0 r'
  end = DOk (fold_left apply_list_ext (list_exts d) d0) (CR_ :: rest).
Proof.
  intros q d xs rest d0 Hw H. pose proof (list_ext_items_ok q d Hw) as HF.
  destruct (list_ext_items q d) as [|i l] eqn:E.
  - winv H. inversion HF as [E2|]. cbn [app fold_left]. reflexivity.
  - apply wcat_some in H. destruct H as (x1 & lst & H1 & Hl & ->). winv H1.
    change (s2b " ") with [SP_]. rewrite <- !app_assoc. cbn [app].
    destruct (w_list_first _ _ _ _ Hl) as (t & Et).
    rewrite dec_sp_app by (rewrite Et; apply lp_starts).
    rewrite (ex_list_rt _ _ _ _ _ _ _ _ HF Hl). reflexivity.
Qed.

Lemma list_fold : forall d,
  fold_left apply_list_ext (list_exts d)
    (mkLD (norm_attrs (ld_attrs d)) (ld_delim d) (norm_mailbox (ld_mailbox d)) None [] None) = norm_list None d.
Proof.
  intros [attrs dl mb ci on st]. unfold list_exts, norm_list.
  cbn [ld_attrs ld_delim ld_mailbox ld_childinfo ld_oldname ld_status].
  destruct ci as [sub|]; destruct on as [|c t]; reflexivity.
Qed.

(* ---------------------------------------------------------------- *)
(* NAMESPACE *)

Lemma w_string_rt : forall q s x r, fits s = true -> w_string q s = Some x -> dec_string false (x ++ r) = DOk s r.
Proof.
  intros q s x r Hf H. unfold w_string in H. apply option_map_some in H. destruct H as (segs & He & ->).
  destruct (string_roundtrip (scfg q) s segs r (fits_int64_of _ Hf) He) as (Hs & _ & _). exact Hs.
Qed.

Lemma w_string_starts : forall q s x, w_string q s = Some x ->
  exists c t, x = c :: t /\ nocrlf c /\ beqb c (ch ")") = false.
Proof.
  intros q s x H. unfold w_string in H. apply option_map_some in H. destruct H as (segs & He & ->).
  eapply enc_string_starts. exact He.
Qed.

Definition w_ns_descr (q : bool) (d : ns_descr) : wr :=
  ws "(" +++ w_string q (fst d) +++ ws " " +++ w_delim (snd d) +++ ws ")".

Lemma ns_descr_item : forall q d, fits (fst d) = true -> wf_delim (snd d) = true ->
  item_ok (w_ns_descr q) read_ns_descr d d.
Proof.
  intros q [p dl] Hf Hd x H. cbn [fst snd] in *. unfold w_ns_descr in H. cbn [fst snd] in H.
  apply wcat_some in H. destruct H as (x1 & y1 & H1 & H & ->). winv H1.
  apply wcat_some in H. destruct H as (ps & y2 & Hp & H & ->).
  apply wcat_some in H. destruct H as (x3 & y3 & H3 & H & ->). winv H3.
  apply wcat_some in H. destruct H as (ds & y4 & Hds & H & ->). winv H.
  change (s2b "(") with [ch "("]. change (s2b " ") with [SP_]. change (s2b ")") with [ch ")"].
  split; [eexists _, _; split; [reflexivity|split; [split|]; reflexivity]|].
  intros r Hr. rewrite <- !app_assoc. cbn [app]. rewrite <- ?app_assoc. cbn [app].
  unfold read_ns_descr, ex_special. rewrite dec_special_hit. cbn [ex bind].
  unfold ex_string. rewrite (w_string_rt q p) by assumption. cbn [ex bind].
  rewrite ex_sp_app by (eapply delim_starts; exact Hds). cbn [bind].
  rewrite (delim_rt dl) by (exact Hd || exact Hds || reflexivity). cbn [bind].
  cbn [skip_values]. rewrite dec_sp_no by reflexivity. cbn [bind].
  rewrite dec_special_hit. reflexivity.
Qed.

Lemma Forall2_same : forall A (R : A -> A -> Prop) l, (forall a, In a l -> R a a) -> Forall2 R l l.
Proof.
  intros A R l. induction l as [|a l IH]; intros H; constructor.
  - apply H. left. reflexivity.
  - apply IH. intros b Hb. apply H. right. exact Hb.
Qed.

Lemma ns_group_starts : forall q l x, w_namespace q l = Some x -> exists c t, x = c :: t /\ nocrlf c.
Proof.
  intros q l x H. unfold w_namespace in H. destruct l as [l|].
  - destruct (w_list_first _ _ _ _ H) as (t & Et). rewrite Et; apply lp_starts.
  - winv H. eexists _, _; split; [reflexivity|split; reflexivity].
Qed.

Lemma ns_group_rt : forall q l x r, wf_nsl l = true -> nonatom r -> w_namespace q l = Some x ->
  ex_nlist read_ns_descr (x ++ r) = DOk (match l with Some l => l | None => [] end) r.
Proof.
  intros q l x r Hw Hr H. unfold w_namespace in H. destruct l as [l|].
  - fold (w_ns_descr q) in H.
    unfold ex_nlist. rewrite dec_atom_lp by (eapply w_list_first; exact H).
    apply (ex_list_rt _ _ (w_ns_descr q) read_ns_descr l l); [|exact H].
    apply Forall2_same. intros d Hin. cbn [wf_nsl] in Hw. rewrite forallb_forall in Hw.
    specialize (Hw d Hin). apply andb_true_iff in Hw. apply ns_descr_item; apply Hw.
  - winv H.
    unfold ex_nlist. rewrite dec_atom_app by (reflexivity || discriminate || exact Hr). reflexivity.
Qed.

Lemma nil_if_empty_norm : forall l : option (list ns_descr),
  nil_if_empty (match l with Some l => l | None => [] end) = norm_nsl l.
Proof. intros [[|a l]|]; reflexivity. Qed.



Lemma read_response_untagged_na : forall x typ r, typ <> [] -> forallb is_atom_char typ = true -> nonatom r ->
  read_response x (s2b "* " ++ typ ++ r) =
  (do res, r <- read_response_data x typ r; do _, r <- ex (dec_crlf r); DOk res r).
Proof. intros x typ [|c r] Hn Ha Hr; [destruct Hr|]. apply read_response_untagged; assumption. Qed.

Lemma delimited_nodigit : forall r, delimited r -> match r with [] => False | c :: _ => is_digit c = false end.
Proof.
  intros [|c r] H; [exact H|]. destruct H as [H _]. destruct (is_digit c) eqn:E; [|reflexivity].
  apply digit_atom in E. congruence.
Qed.

Lemma atoms_start : forall a, a <> [] -> forallb is_atom_char a = true -> exists c t, a = c :: t /\ nocrlf c.
Proof.
  intros [|c t] Hn Ha; [congruence|]. exists c, t. split; [reflexivity|]. apply atom_nocrlf, (forallb_hd _ _ _ Ha).
Qed.

(* ---------------------------------------------------------------- *)
(* CAPABILITY *)

Definition caps_bytes (caps : list bytes) : bytes := flat_map (fun c => SP_ :: c) caps.

Lemma caps_fold : forall caps,
  fold_right (fun c acc => ws " " +++ wb c +++ acc) (Some []) caps = Some (caps_bytes caps).
Proof.
  induction caps as [|c caps IH]; cbn [fold_right caps_bytes flat_map]; [reflexivity|].
  rewrite IH. reflexivity.
Qed.

Lemma sp_list_nonatom : forall A (f : A -> bytes) l rest, nonatom (flat_map (fun c => SP_ :: f c) l ++ CR_ :: rest).
Proof. intros A f [|a l] rest; reflexivity. Qed.

Lemma sp_list_len : forall A (f : A -> bytes) l, (length l <= length (flat_map (fun c => SP_ :: f c) l))%nat.
Proof.
  intros A f l. induction l as [|a l IH]; cbn [flat_map length]; [lia|]. rewrite app_length. cbn [length]. lia.
Qed.

Lemma wf_cap_inv : forall c, wf_cap c = true -> c <> [] /\ forallb is_atom_char c = true.
Proof.
  intros c H. unfold wf_cap in H. apply andb_true_iff in H. destruct H as [Hn Ha]. split; [|exact Ha].
  intros ->. discriminate Hn.
Qed.

Lemma read_caps_rt : forall caps fuel rest, forallb wf_cap caps = true -> (length caps < fuel)%nat ->
  read_caps fuel (caps_bytes caps ++ CR_ :: rest) = DOk caps (CR_ :: rest).
Proof.
  induction caps as [|c caps IH]; intros fuel rest Hw Hf; (destruct fuel as [|k]; [cbn [length] in Hf; lia|]).
  - cbn [caps_bytes flat_map app read_caps]. rewrite dec_sp_cr. reflexivity.
  - cbn [forallb] in Hw. apply andb_true_iff in Hw. destruct Hw as [Hc Hw].
    destruct (wf_cap_inv _ Hc) as [Hn Ha].
    cbn [caps_bytes flat_map]. fold (caps_bytes caps). cbn [app]. rewrite <- app_assoc.
    cbn [read_caps]. rewrite dec_sp_app by (apply atoms_start; assumption).
    unfold ex_atom. rewrite dec_atom_app by (assumption || apply (sp_list_nonatom _ (fun c => c))).
    cbn [ex bind]. rewrite IH by (assumption || (cbn [length] in Hf; lia)). reflexivity.
Qed.

(* ---------------------------------------------------------------- *)
(* SEARCH *)

Definition nums_bytes (l : list N) : bytes := flat_map (fun n => SP_ :: dec_of_N n) l.

Lemma nums_fold : forall l,
  fold_right (fun n acc => ws " " +++ w_num n +++ acc) (Some []) l = Some (nums_bytes l).
Proof.
  induction l as [|n l IH]; cbn [fold_right nums_bytes flat_map]; [reflexivity|].
  rewrite IH. reflexivity.
Qed.

Lemma dec_special_lp_dec : forall n r, dec_special (ch "(") (dec_of_N n ++ r) = DNo (dec_of_N n ++ r).
Proof.
  intros n r. destruct (dec_first n) as (c & t & E & Hc). rewrite E. cbn [app].
  apply dec_special_miss. destruct (atom_char_facts c (digit_atom _ Hc)) as (_&_&_&_&H&_). exact H.
Qed.

Lemma read_search_rt : forall l fuel rest, Forall (fun n => 0 < n /\ n < 4294967296) l -> (length l < fuel)%nat ->
  read_search_nums fuel (nums_bytes l ++ CR_ :: rest) = DOk l (CR_ :: rest).
Proof.
  induction l as [|n l IH]; intros fuel rest Hw Hf; (destruct fuel as [|k]; [cbn [length] in Hf; lia|]).
  - cbn [nums_bytes flat_map app read_search_nums]. rewrite dec_sp_cr. reflexivity.
  - inversion Hw as [|n' l' [H0 Hn] Hw']; subst.
    cbn [nums_bytes flat_map]. fold (nums_bytes l). cbn [app]. rewrite <- app_assoc.
    cbn [read_search_nums]. rewrite dec_sp_app by apply dec_starts.
    rewrite dec_special_lp_dec. unfold ex_number.
    rewrite number_roundtrip by (exact Hn || (destruct l; reflexivity)). cbn [ex bind].
    replace (n =? 0) with false by lia.
    rewrite IH by (assumption || (cbn [length] in Hf; lia)). reflexivity.
Qed.

Lemma nums_bounds : forall s l, canon s = true -> nums s = NumsOk l ->
  Forall (fun n => 0 < n /\ n < 4294967296) l.
Proof.
  induction s as [|[a b] s IH]; intros l Hc H; cbn [nums] in H.
  - inversion H; subst. constructor.
  - destruct ((a =? 0) || (b =? 0)) eqn:E; [discriminate|].
    destruct (nums s) as [l'|] eqn:En; [|discriminate]. inversion H; subst l.
    pose proof (canon_hd _ _ Hc) as Hw. pose proof (canon_tail _ _ Hc) as Hc'.
    apply Forall_app. split; [|apply IH; [exact Hc'|reflexivity]].
    apply Forall_forall. intros q Hq. apply nums_range_In in Hq. rg_unfold. lia.
Qed.

(* ---------------------------------------------------------------- *)
(* ESEARCH *)

Inductive es_item := EAll (s : nset) (xs : bytes) | EMin (n : N) | EMax (n : N) | ECount (n : N).

Definition es_name (i : es_item) : bytes :=
  match i with EAll _ _ => s2b "ALL" | EMin _ => s2b "MIN" | EMax _ => s2b "MAX" | ECount _ => s2b "COUNT" end.

Definition es_value (i : es_item) : bytes :=
  match i with EAll _ xs => xs | EMin n | EMax n | ECount n => dec_of_N n end.

Definition es_wf (i : es_item) : Prop :=
  match i with
  | EAll s xs => canon s = true /\ dynamic s = false /\ w_numset s = Some xs
  | EMin n | EMax n => 0 < n /\ n < 4294967296
  | ECount n => n < 4294967296
  end.

Definition es_upd (d : search_data) (i : es_item) : search_data :=
  match i with
  | EAll s _ => set_es d (s2b "ALL") (Some s) 0
  | EMin n => set_es d (s2b "MIN") None n
  | EMax n => set_es d (s2b "MAX") None n
  | ECount n => set_es d (s2b "COUNT") None n
  end.

Definition es_render (i : es_item) : bytes := SP_ :: es_name i ++ SP_ :: es_value i.

Definition after_ok (k : nat) (tail : bytes) (items : list es_item) (rest : bytes) : Prop :=
  forall d, match dec_sp tail with
            | DOk _ r2 => do name', r3 <- ex_atom r2; read_es_items k d name' r3
            | DErr => DErr
            | DNo r2 => DOk d r2
            end = DOk (fold_left es_upd items d) (CR_ :: rest).

Lemma es_value_starts : forall i, es_wf i -> exists c t, es_value i = c :: t /\ nocrlf c.
Proof.
  intros [s xs|n|n|n] H; cbn [es_value]; try apply dec_starts.
  destruct H as (_ & _ & H). eapply numset_starts. exact H.
Qed.

Lemma es_name_atom : forall i, es_name i <> [] /\ forallb is_atom_char (es_name i) = true.
Proof. intros []; split; (reflexivity || discriminate). Qed.

Lemma es_step : forall i k tail items rest d, es_wf i -> delimited tail -> after_ok k tail items rest ->
  read_es_items (S k) d (es_name i) (SP_ :: es_value i ++ tail) =
  DOk (fold_left es_upd items (es_upd d i)) (CR_ :: rest).
Proof.
  intros i k tail items rest d Hi Ht Ha. cbn [read_es_items].
  rewrite ex_sp_app by (apply es_value_starts; exact Hi). cbn [bind]. cbv zeta.
  destruct i as [s xs|n|n|n]; cbn [es_name es_value es_wf] in *; ev_if.
  - destruct Hi as (Hc & Hd & Hx). rewrite (numset_rt s) by assumption. rewrite Hd. apply Ha.
  - unfold ex_number. rewrite number_roundtrip by (apply Hi || apply delimited_nodigit, Ht). cbn [ex bind].
    replace (n =? 0) with false by lia. apply Ha.
  - unfold ex_number. rewrite number_roundtrip by (apply Hi || apply delimited_nodigit, Ht). cbn [ex bind].
    replace (n =? 0) with false by lia. apply Ha.
  - unfold ex_number. rewrite number_roundtrip by (apply Hi || apply delimited_nodigit, Ht). cbn [ex bind].
    apply Ha.
Qed.

Lemma es_tail_delimited : forall items rest, delimited (flat_map es_render items ++ CR_ :: rest).
Proof. intros [|i items] rest; split; reflexivity. Qed.

Lemma es_after : forall items k rest, Forall es_wf items -> (length items <= k)%nat ->
  after_ok k (flat_map es_render items ++ CR_ :: rest) items rest.
Proof.
  induction items as [|i items IH]; intros k rest Hw Hk d.
  - cbn [flat_map app fold_left]. rewrite dec_sp_cr. reflexivity.
  - inversion Hw as [|i' l' Hi Hw']; subst. destruct k as [|k]; [cbn [length] in Hk; lia|].
    cbn [flat_map fold_left]. unfold es_render at 1. cbn [app]. rewrite <- !app_assoc. cbn [app].
    rewrite dec_sp_app by (apply atoms_start; apply es_name_atom).
    unfold ex_atom. rewrite dec_atom_app by (apply es_name_atom || reflexivity). cbn [ex bind].
    apply es_step; [exact Hi|apply es_tail_delimited|].
    apply IH; [exact Hw'|cbn [length] in Hk; lia].
Qed.

Lemma es_read : forall i items k d rest, Forall es_wf (i :: items) -> (length items <= k)%nat ->
  read_es_items (S k) d (es_name i) (SP_ :: es_value i ++ flat_map es_render items ++ CR_ :: rest) =
  DOk (fold_left es_upd (i :: items) d) (CR_ :: rest).
Proof.
  intros i items k d rest Hw Hk. inversion Hw; subst. cbn [fold_left].
  apply es_step; [assumption|apply es_tail_delimited|apply es_after; assumption].
Qed.

Lemma es_render_len : forall items, (length items <= length (flat_map es_render items))%nat.
Proof.
  induction items as [|i items IH]; cbn [flat_map length]; [lia|]. rewrite app_length.
  unfold es_render at 1. cbn [length]. lia.
Qed.

Lemma read_esearch_rt : forall tag (uid : bool) items rest, wf_tag tag = true -> Forall es_wf items ->
  read_esearch (s2b " (TAG " ++ tag ++ ch ")" :: (if uid then s2b " UID" else []) ++ flat_map es_render items ++ CR_ :: rest)
  = DOk (mkES tag (fold_left es_upd items (mkSeD None uid 0 0 0))) (CR_ :: rest).
Proof.
  intros tag uid items rest Htag Hw. destruct (wf_tag_inv _ Htag) as (c & t & E & Ha & _).
  assert (Hne : tag <> []) by (rewrite E; discriminate).
  unfold read_esearch. change (s2b " (TAG ") with (SP_ :: ch "(" :: s2b "TAG" ++ [SP_]).
  cbn [app]. rewrite <- !app_assoc. cbn [app].
  rewrite ex_sp_ok by (split; reflexivity). cbn [bind]. cbv zeta. rewrite dec_special_hit.
  unfold ex_atom. rewrite dec_atom_app by (reflexivity || discriminate). cbn [ex bind].
  rewrite ex_sp_app by (apply atoms_start; assumption). cbn [bind].
  rewrite astring_atom by (assumption || reflexivity). cbn [bind].
  unfold ex_special. rewrite dec_special_hit. cbn [ex bind]. ev_if.
  assert (Hlen : forall (v : bytes) l, (length l <= length (SP_ :: v ++ flat_map es_render l ++ CR_ :: rest))%nat).
  { intros v l. cbn [length]. rewrite !app_length. pose proof (es_render_len l). lia. }
  destruct uid.
  - change (s2b " UID") with (SP_ :: s2b "UID"). cbn [app].
    rewrite dec_sp_app by (eexists _, _; split; [reflexivity|split; reflexivity]).
    rewrite dec_atom_app by (reflexivity || discriminate || apply delimited_nonatom, es_tail_delimited).
    cbn [ex bind]. ev_if. destruct items as [|i items].
    + cbn [flat_map app fold_left]. rewrite dec_sp_cr. reflexivity.
    + cbn [flat_map]. unfold es_render at 1. cbn [app]. rewrite <- !app_assoc. cbn [app].
      rewrite dec_sp_app by (apply atoms_start; apply es_name_atom).
      rewrite dec_atom_app by (apply es_name_atom || reflexivity). cbn [ex bind].
      rewrite es_read by (exact Hw || apply Hlen). reflexivity.
  - cbn [app]. destruct items as [|i items].
    + cbn [flat_map app fold_left]. rewrite dec_sp_cr. reflexivity.
    + cbn [flat_map]. unfold es_render at 1. cbn [app]. rewrite <- !app_assoc. cbn [app].
      rewrite dec_sp_app by (apply atoms_start; apply es_name_atom).
      rewrite dec_atom_app by (apply es_name_atom || reflexivity). cbn [ex bind].
      replace (bytes_eqb (es_name i) (s2b "UID")) with false by (destruct i; reflexivity).
      rewrite es_read by (exact Hw || apply Hlen). reflexivity.
Qed.

(* the writer's optional blocks *)

Lemma blk_all : forall (b : bool) all x, canon all = true -> dynamic all = false ->
  (if b then ws " ALL " +++ w_numset all else Some []) = Some x ->
  exists items, x = flat_map es_render items /\ Forall es_wf items /\
    forall d, fold_left es_upd items d = if b then set_es d (s2b "ALL") (Some all) 0 else d.
Proof.
  intros b all x Hc Hd H. destruct b.
  - apply wcat_some in H. destruct H as (x1 & xs & H1 & Hx & ->). winv H1.
    exists [EAll all xs]. split; [|split].
    + cbn [flat_map]. rewrite app_nil_r. reflexivity.
    + constructor; [|constructor]. repeat split; assumption.
    + reflexivity.
  - winv H. exists []. repeat split. constructor.
Qed.

Lemma blk_num : forall (b : bool) (name : string) (mk : N -> es_item) n x,
  (forall n, es_render (mk n) = s2b name ++ dec_of_N n) -> (b = true -> es_wf (mk n)) ->
  (if b then ws name +++ w_num n else Some []) = Some x ->
  x = flat_map es_render (if b then [mk n] else []) /\ Forall es_wf (if b then [mk n] else []).
Proof.
  intros b name mk n x Hr Hw H. destruct b.
  - winv H. cbn [flat_map]. rewrite app_nil_r, Hr. split; [reflexivity|]. constructor; [auto|constructor].
  - winv H. split; [reflexivity|constructor].
Qed.

Lemma flat4 : forall (a b c d : list es_item) r,
  flat_map es_render a ++ flat_map es_render b ++ flat_map es_render c ++ flat_map es_render d ++ r =
  flat_map es_render (a ++ b ++ c ++ d) ++ r.
Proof. intros. rewrite !flat_map_app, <- !app_assoc. reflexivity. Qed.
