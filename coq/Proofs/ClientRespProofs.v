(* Proofs/ClientRespProofs.v — the theorems of C11 about Model/ClientResp.v, collected from
   ClientRespFuel (termination on the model's fuel, no crash), ClientRespTicks (amortised step
   count: potential = ticks + 2 * remaining input), ClientRespDepth (recursion depth of the
   three recursive readers) and ClientRespValid (invariants of everything delivered).       *)
From GoImap.Base Require Import Bytes.
From GoImap.Model Require Import NumSet ClientResp.
From GoImap.Proofs Require Import ClientRespSpec.
From GoImap.Proofs Require ClientRespFuel ClientRespTicks ClientRespDepth ClientRespValid.
Open Scope N_scope.

Theorem no_fuel : forall tags input, read_stream tags input <> Fuel.
Proof. exact ClientRespFuel.no_fuel. Qed.

Theorem no_crash : forall tags input, read_stream tags input <> Crash.
Proof. exact ClientRespFuel.no_crash. Qed.

Theorem ticks_linear : forall tags input s, final_state (read_stream tags input) = Some s ->
  (s_ticks s <= 2 * length input + 2)%nat.
Proof. exact ClientRespTicks.ticks_linear. Qed.

Theorem depth_bounded : forall tags input s, final_state (read_stream tags input) = Some s ->
  (s_maxd s <= MAX_BODY_DEPTH + MAX_LIST_DEPTH)%nat.
Proof. exact ClientRespDepth.depth_bounded. Qed.

Theorem delivered_valid : forall tags input s, final_state (read_stream tags input) = Some s ->
  forallb ev_valid (s_log s) = true.
Proof. exact ClientRespValid.delivered_valid. Qed.

Theorem accessors_safe : forall tags input s, final_state (read_stream tags input) = Some s ->
  (forall d, In (EvESearch d) (s_log s) -> exists l, all_nums d = AccOk l) /\
  (forall k, exists l, search_all_nums (firstn k (search_nums_of (rev (s_log s)))) = AccOk l).
Proof. exact ClientRespValid.accessors_safe. Qed.
