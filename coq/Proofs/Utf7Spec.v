(* Proofs/Utf7Spec.v — specification vocabulary for C16 (no proofs here). *)
From GoImap.Base Require Import Bytes.
From GoImap.Model Require Import Utf7.
Open Scope N_scope.

(* Unicode scalar values: 0..0x10FFFF without the surrogate block *)
Definition scalar (r : N) : bool := (r <=? 1114111) && negb (is_surrogate r).

(* valid UTF-8 = the concatenation of the (shortest-form) encodings of scalar values *)
Definition utf8_of (runes : list N) : bytes := map n2b (flat_map encode_rune runes).
Definition valid_utf8 (s : bytes) : Prop :=
  exists runes, forallb scalar runes = true /\ s = utf8_of runes.

Definition printable_b (c : byte) : bool := printable (b2n c).

Definition AMPb : byte := n2b AMP.
Definition DASHb : byte := n2b DASH.
