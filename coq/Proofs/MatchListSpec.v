(* Proofs/MatchListSpec.v — the textbook wildcard relation, written independently of the code. *)
From GoImap.Base Require Import Bytes.
From GoImap.Model Require Import MatchList.

(* the delimiter [d] (non-empty) starts at offset k of s *)
Definition delim_at (d s : bytes) (k : nat) : Prop := d <> [] /\ has_prefix d (skipn k s) = true.

(* [n1] is a segment that '%' may stand for when followed by [n2]: no delimiter starts in it *)
Definition no_delim (d n1 n2 : bytes) : Prop := forall k, (k < length n1)%nat -> ~ delim_at d (n1 ++ n2) k.

Inductive wmatch (d : bytes) : bytes -> bytes -> Prop :=   (* pattern, name *)
| wm_nil : wmatch d [] []
| wm_lit c p n : is_wild c = false -> wmatch d p n -> wmatch d (c :: p) (c :: n)
| wm_star p n1 n2 : wmatch d p n2 -> wmatch d (STAR :: p) (n1 ++ n2)
| wm_pct p n1 n2 : no_delim d n1 n2 -> wmatch d p n2 -> wmatch d (PCT :: p) (n1 ++ n2).

(* documented resolution of a pattern against a reference: a pattern that starts with the
   delimiter is absolute (reference dropped, leading delimiter removed); otherwise a non-empty
   reference is a literal prefix, completed by a delimiter if it does not end with one *)
Definition resolve (d ref pat : bytes) : bytes * bytes :=
  if negb (is_nil d) && has_prefix d pat then ([], skipn (length d) pat)
  else if is_nil ref then ([], pat)
  else if negb (is_nil d) && negb (has_suffix d ref) then (ref ++ d, pat)
  else (ref, pat).

Definition list_matches (name d ref pat : bytes) : Prop :=
  let '(lit, p) := resolve d ref pat in
  exists rest, name = lit ++ rest /\ wmatch d p rest.
