(* Proofs/RespBodyProofs.v — C03: the body structure written by the server (BODY or
   BODYSTRUCTURE form) is read back by the client as its normal form, for every nesting of
   multipart and message/rfc822 parts up to the client's depth limit (imapserver
   writeBodyStructure and helpers, imapclient readBody and helpers).
   Component round trips (strings, parameters, dispositions, ...) are in RespBodyLemmas.v. *)
From GoImap.Base Require Import Bytes.
From GoImap.Model Require Import NumSet MatchList Utf7 Wire Resp RespFetch RespCmd.
From GoImap.Proofs Require Import Utf7Spec WireSpec WireLemmas WireProofs RespSpec RespEnvProofs RespBodyLemmas.
Open Scope N_scope.

(* ---------------------------------------------------------------------------------------- *)
(* named mirrors of the local definitions of the model                                        *)

Definition w_kids (x : ext) (q extended : bool) : list bstruct -> wr :=
  fix kids (l : list bstruct) : wr :=
    match l with
    | [] => Some []
    | [c] => w_body x q extended c
    | c :: r => w_body x q extended c +++ ws " " +++ kids r
    end.

Definition w_msgpart (x : ext) (q extended : bool) (typ : bytes) (msg : option (option envelope * bstruct * Z))
  (text : option Z) : wr :=
  match msg with
  | Some (e, b', lines) =>
      ws " " +++ w_envelope x q e +++ ws " " +++ w_body x q extended b' +++ ws " " +++ w_num64 lines
  | None =>
      match text with
      | Some lines => ws " " +++ w_num64 lines
      | None => if is_text_type typ then ws " " +++ w_num64 0%Z else Some []
      end
  end.

Definition w_spx (q extended : bool) (ext : option sp_ext) : wr :=
  if extended then
    match ext with
    | None => None
    | Some e => ws " NIL " +++ w_disp q (spx_disp e) +++ ws " " +++ w_lang q (spx_lang e) +++ ws " " +++ w_nstring q (spx_loc e)
    end
  else Some [].

Definition w_mpx (q extended : bool) (ext : option mp_ext) : wr :=
  if extended then
    match ext with
    | None => None
    | Some e => ws " " +++ w_params q (mpx_params e) +++ ws " " +++ w_disp q (mpx_disp e) +++ ws " " +++
                w_lang q (mpx_lang e) +++ ws " " +++ w_nstring q (mpx_loc e)
    end
  else Some [].

Lemma w_body_single : forall x q extended typ subtyp pr id desc enc size msg text ext,
  w_body x q extended (BSingle typ subtyp pr id desc enc size msg text ext) =
  ws "(" +++
  w_string q typ +++ ws " " +++ w_string q subtyp +++ ws " " +++ w_params q pr +++ ws " " +++
  w_nstring q id +++ ws " " +++ w_nstring q (hide_words desc) +++ ws " " +++ w_encoding q enc +++ ws " " +++ w_num size +++
  w_msgpart x q extended typ msg text +++ w_spx q extended ext +++ ws ")".
Proof. reflexivity. Qed.

Lemma w_body_multi : forall x q extended c cs subtyp ext,
  w_body x q extended (BMulti (c :: cs) subtyp ext) =
  ws "(" +++ w_kids x q extended (c :: cs) +++ ws " " +++ w_string q subtyp +++ w_mpx q extended ext +++ ws ")".
Proof. reflexivity. Qed.

Lemma w_kids_cons2 : forall x q extended a b r,
  w_kids x q extended (a :: b :: r) = w_body x q extended a +++ ws " " +++ w_kids x q extended (b :: r).
Proof. reflexivity. Qed.

Lemma w_kids_one : forall x q extended a, w_kids x q extended [a] = w_body x q extended a.
Proof. reflexivity. Qed.

(* the client side *)
Definition rb_finish (x : ext) (typ subtyp : bytes) (pr : params) (id desc enc : bytes) (size : N)
  (msg : option (option envelope * bstruct * Z)) (text : option Z) (has_sp : bool) (r : bytes) : dres bstruct :=
  if has_sp then
    do e, r' <- read_ext_1part x r; DOk (BSingle typ subtyp pr id desc enc size msg text (Some e)) r'
  else
    match dec_sp r with
    | DErr => DErr
    | DNo r' => DOk (BSingle typ subtyp pr id desc enc size msg text None) r'
    | DOk _ r' => do e, r'' <- read_ext_1part x r'; DOk (BSingle typ subtyp pr id desc enc size msg text (Some e)) r''
    end.

Definition rb_tail1 (f depth : nat) (x : ext) (typ subtyp : bytes) (pr : params) (id desc enc : bytes)
  (size : N) (r : bytes) : dres bstruct :=
  match dec_sp r with
  | DErr => DErr
  | DNo r => DOk (BSingle typ subtyp pr id desc enc size None None None) r
  | DOk _ r =>
      if is_message_type typ subtyp then
        do e, r <- read_envelope x r;
        do _, r <- ex_sp r;
        do b', r <- read_body f (S depth) x r;
        do _, r <- ex_sp r;
        do lines, r <- ex_number64 r;
        rb_finish x typ subtyp pr id desc enc size (Some (Some e, b', Z.of_N lines)) None false r
      else if is_text_type typ then
        do lines, r <- ex_number64 r;
        rb_finish x typ subtyp pr id desc enc size None (Some (Z.of_N lines)) false r
      else rb_finish x typ subtyp pr id desc enc size None None true r
  end.

Definition rb_1part (f depth : nat) (x : ext) (typ : bytes) (r : bytes) : dres bstruct :=
  do _, r <- ex_sp r;
  do subtyp, r <- ex_string r;
  do _, r <- ex_sp r;
  do pr, r <- read_params x r;
  do _, r <- ex_sp r;
  do id, r <- dec_nstr r;
  do _, r <- ex_sp r;
  do desc, r <- dec_nstr r;
  do _, r <- ex_sp r;
  do enc, r <- dec_nstr r;
  do _, r <- ex_sp r;
  do size, r <- dec_octets r;
  rb_tail1 f depth x typ subtyp pr id (decode_text x desc) (if is_nil enc then s2b "7BIT" else enc) size r.

Definition rb_kids (f depth : nat) (x : ext) : nat -> bytes -> dres (list bstruct * bytes) :=
  fix kids (k : nat) (s : bytes) : dres (list bstruct * bytes) :=
    match k with
    | O => DErr
    | S k' =>
        do c, r <- read_body f (S depth) x s;
        match dec_sp r with
        | DErr => DErr
        | DNo r' => match kids k' r' with DOk (l, st) r'' => DOk (c :: l, st) r'' | _ => DErr end
        | DOk _ r' =>
            match dec_string false r' with
            | DErr => DErr
            | DOk st r'' => DOk ([c], st) r''
            | DNo r'' => match kids k' r'' with DOk (l, st) r3 => DOk (c :: l, st) r3 | _ => DErr end
            end
        end
    end.

Definition rb_mpart (f depth : nat) (x : ext) (r0 : bytes) : dres bstruct :=
  do cs, r <- rb_kids f depth x (S (length r0)) r0;
  let '(children, subtyp) := cs in
  match dec_sp r with
  | DErr => DErr
  | DNo r' => DOk (BMulti children subtyp None) r'
  | DOk _ r' => do e, r'' <- read_ext_mpart x r'; DOk (BMulti children subtyp (Some e)) r''
  end.

Lemma read_body_S : forall f depth x s,
  read_body (S f) depth x s =
  if Nat.leb MAX_BODY_DEPTH depth then DErr else
  do _, r0 <- ex_special (ch "(") s;
  do bs, r9 <-
    (match dec_string false r0 with
     | DErr => DErr
     | DOk typ r => rb_1part f depth x typ r
     | DNo _ => rb_mpart f depth x r0
     end);
  do _, r <- skip_values (S (length r9)) r9;
  do _, r <- ex_special (ch ")") r;
  DOk bs r.
Proof. reflexivity. Qed.

Lemma rb_kids_S : forall f depth x k s,
  rb_kids f depth x (S k) s =
  do c, r <- read_body f (S depth) x s;
  match dec_sp r with
  | DErr => DErr
  | DNo r' => match rb_kids f depth x k r' with DOk (l, st) r'' => DOk (c :: l, st) r'' | _ => DErr end
  | DOk _ r' =>
      match dec_string false r' with
      | DErr => DErr
      | DOk st r'' => DOk ([c], st) r''
      | DNo r'' => match rb_kids f depth x k r'' with DOk (l, st) r3 => DOk (c :: l, st) r3 | _ => DErr end
      end
  end.
Proof. reflexivity. Qed.

(* the frame around the fields: "(" fields ")" *)
Lemma read_body_frame : forall f depth x r0 v rest, (depth < MAX_BODY_DEPTH)%nat ->
  match dec_string false r0 with
  | DErr => DErr
  | DOk typ r => rb_1part f depth x typ r
  | DNo _ => rb_mpart f depth x r0
  end = DOk v (ch ")" :: rest) ->
  read_body (S f) depth x (ch "(" :: r0) = DOk v rest.
Proof.
  intros f depth x r0 v rest Hd H. rewrite read_body_S.
  assert (E : Nat.leb MAX_BODY_DEPTH depth = false) by (apply Nat.leb_gt; exact Hd).
  rewrite E. unfold ex_special at 1. rewrite dec_special_hit. cbn [ex bind].
  rewrite H. cbn [bind]. rewrite skip_values_close. cbn [bind].
  unfold ex_special. rewrite dec_special_hit. reflexivity.
Qed.

(* ---------------------------------------------------------------------------------------- *)
(* induction on body structures                                                               *)

Lemma bstruct_ind' (Q : bstruct -> Prop)
  (Hs : forall typ subtyp pr id desc enc size msg text ext,
      (forall e b' l, msg = Some (e, b', l) -> Q b') ->
      Q (BSingle typ subtyp pr id desc enc size msg text ext))
  (Hm : forall children subtyp ext, Forall Q children -> Q (BMulti children subtyp ext)) :
  forall b, Q b.
Proof.
  fix IH 1. intros [typ subtyp pr id desc enc size msg text ext|children subtyp ext].
  - apply Hs. intros e b' l E. destruct msg as [[[e0 b0] l0]|]; [|discriminate].
    injection E as _ <- _. apply IH.
  - apply Hm. induction children as [|c r IHr]; constructor; [apply IH|exact IHr].
Qed.

Definition maxh (l : list bstruct) : nat := fold_right (fun c m => Nat.max (bs_height c) m) O l.

Lemma bs_height_multi : forall cs st ext, bs_height (BMulti cs st ext) = S (maxh cs).
Proof. reflexivity. Qed.

Lemma maxh_cons : forall c r, maxh (c :: r) = Nat.max (bs_height c) (maxh r).
Proof. reflexivity. Qed.

(* ---------------------------------------------------------------------------------------- *)
(* first byte, length                                                                         *)

Lemma body_first : forall x q extended b bs, w_body x q extended b = Some bs -> exists t, bs = ch "(" :: t.
Proof.
  intros x q extended [typ subtyp pr id desc enc size msg text ext|[|c cs] subtyp ext] bs H.
  - rewrite w_body_single in H. wskip H. eexists. reflexivity.
  - discriminate H.
  - rewrite w_body_multi in H. wskip H. eexists. reflexivity.
Qed.

Lemma body_vfirst : forall x q extended b bs, w_body x q extended b = Some bs -> vfirst bs.
Proof. intros x q extended b bs H. destruct (body_first _ _ _ _ _ H) as [t ->]. reflexivity. Qed.

Lemma body_len1 : forall x q extended b bs, w_body x q extended b = Some bs -> (1 <= length bs)%nat.
Proof. intros x q extended b bs H. destruct (body_first _ _ _ _ _ H) as [t ->]. cbn [length]. lia. Qed.

Lemma kids_first : forall x q extended c cs bs, w_kids x q extended (c :: cs) = Some bs ->
  exists t, bs = ch "(" :: t.
Proof.
  intros x q extended c [|c2 r] bs H.
  - rewrite w_kids_one in H. eapply body_first; eassumption.
  - rewrite w_kids_cons2 in H. wsplit H as w Hw. destruct (body_first _ _ _ _ _ Hw) as [t ->].
    eexists. reflexivity.
Qed.

Lemma kids_len : forall x q extended l bs, w_kids x q extended l = Some bs -> (length l <= length bs)%nat.
Proof.
  intros x q extended. induction l as [|a l IH]; intros bs H; [cbn [length]; lia|].
  destruct l as [|b r].
  - rewrite w_kids_one in H. apply body_len1 in H. cbn [length]. lia.
  - rewrite w_kids_cons2 in H. wsplit H as w Hw. wskip H. specialize (IH _ H). apply body_len1 in Hw.
    rewrite !app_length. cbn [length] in *. lia.
Qed.

Lemma kids_height : forall x q extended l,
  Forall (fun b => forall bs, w_body x q extended b = Some bs -> (bs_height b <= length bs)%nat) l ->
  forall bs, w_kids x q extended l = Some bs -> (maxh l <= length bs)%nat.
Proof.
  intros x q extended l HF. induction HF as [|a l Ha _ IH]; intros bs H; [cbn; lia|].
  rewrite maxh_cons. destruct l as [|b r].
  - rewrite w_kids_one in H. specialize (Ha _ H). cbn [maxh fold_right]. lia.
  - rewrite w_kids_cons2 in H. wsplit H as w Hw. wskip H. specialize (IH _ H). specialize (Ha _ Hw).
    rewrite !app_length. lia.
Qed.

Lemma body_height_len : forall x q extended b bs, w_body x q extended b = Some bs ->
  (bs_height b <= length bs)%nat.
Proof.
  intros x q extended b. induction b as [typ subtyp pr id desc enc size msg text ext IH|cs subtyp ext IH] using bstruct_ind';
    intros bs H.
  - rewrite w_body_single in H.
    wskip H. wsplit H as tb Htb. wskip H. wsplit H as sb Hsb. wskip H. wsplit H as pb Hpb. wskip H.
    wsplit H as ib Hib. wskip H. wsplit H as db Hdb. wskip H. wsplit H as eb Heb. wskip H.
    wsplit H as nb Hnb. wsplit H as mb Hmb. clear H.
    destruct msg as [[[e b'] lines]|].
    + unfold w_msgpart in Hmb. wskip Hmb. wsplit Hmb as envb Henvb. wskip Hmb. wsplit Hmb as bb Hbb.
      specialize (IH e b' lines eq_refl bb Hbb). cbn [bs_height]. rewrite !app_length. cbn [length]. lia.
    + cbn [bs_height]. rewrite app_length. cbn [length]. lia.
  - destruct cs as [|c cs]; [discriminate H|]. rewrite w_body_multi in H.
    wskip H. wsplit H as kb Hkb. clear H. rewrite bs_height_multi.
    pose proof (kids_height x q extended (c :: cs) IH kb Hkb). rewrite !app_length. cbn [length]. lia.
Qed.

(* ---------------------------------------------------------------------------------------- *)
(* round trip                                                                                 *)

Ltac nrm := repeat (rewrite <- app_assoc || rewrite <- app_comm_cons); cbn [app].

Lemma norm_bs_single : forall extended typ subtyp pr id desc enc size msg text ext,
  norm_bs extended (BSingle typ subtyp pr id desc enc size msg text ext) =
  BSingle typ subtyp (norm_params pr) id desc (norm_encoding enc) size
    (match msg with
     | Some (e, b', lines) => Some (Some (norm_env e), norm_bs extended b', lines)
     | None => None
     end) (norm_text typ msg text) (if extended then option_map norm_spx ext else None).
Proof. reflexivity. Qed.

Lemma norm_bs_multi : forall extended cs subtyp ext,
  norm_bs extended (BMulti cs subtyp ext) =
  BMulti (map (norm_bs extended) cs) subtyp (if extended then option_map norm_mpx ext else None).
Proof. reflexivity. Qed.

Lemma wf_bs_single : forall x extended typ subtyp pr id desc enc size msg text ext,
  wf_bs x extended (BSingle typ subtyp pr id desc enc size msg text ext) =
  fits typ && fits subtyp && wf_params pr && fits id && fits (hide_words desc) &&
  seven enc && fits enc && u32 size &&
  (match msg with
   | Some (e, b', lines) =>
       is_message_type typ subtyp && wf_env x e && wf_bs x extended b' && i64 lines &&
       (match text with None => true | Some _ => false end)
   | None => true
   end) &&
  (match text with Some lines => is_text_type typ && i64 lines | None => true end) &&
  (if extended then
     (match ext with Some e => wf_spx e | None => false end) &&
     (negb (is_message_type typ subtyp) || (match msg with Some _ => true | None => false end))
   else true).
Proof. reflexivity. Qed.

Lemma wf_bs_multi : forall x extended cs subtyp ext,
  wf_bs x extended (BMulti cs subtyp ext) =
  negb (lnil cs) && forallb (wf_bs x extended) cs && fits subtyp &&
  (if extended then match ext with Some e => wf_mpx e | None => false end else true).
Proof. reflexivity. Qed.

(* writer inversions *)
Lemma w_body_single_inv : forall x q extended typ subtyp pr id desc enc size msg text ext bs,
  w_body x q extended (BSingle typ subtyp pr id desc enc size msg text ext) = Some bs ->
  exists tb sb pb ib db eb mb xb,
    w_string q typ = Some tb /\ w_string q subtyp = Some sb /\ w_params q pr = Some pb /\
    w_nstring q id = Some ib /\ w_nstring q (hide_words desc) = Some db /\ w_encoding q enc = Some eb /\
    w_msgpart x q extended typ msg text = Some mb /\ w_spx q extended ext = Some xb /\
    bs = ch "(" :: tb ++ SP_ :: sb ++ SP_ :: pb ++ SP_ :: ib ++ SP_ :: db ++ SP_ :: eb ++ SP_ ::
         dec_of_N size ++ mb ++ xb ++ [ch ")"].
Proof.
  intros x q extended typ subtyp pr id desc enc size msg text ext bs H. rewrite w_body_single in H.
  wskip H. wsplit H as tb Htb. wskip H. wsplit H as sb Hsb. wskip H. wsplit H as pb Hpb. wskip H.
  wsplit H as ib Hib. wskip H. wsplit H as db Hdb. wskip H. wsplit H as eb Heb. wskip H.
  wskip H. wsplit H as mb Hmb. wsplit H as xb Hxb. wleaf H.
  exists tb, sb, pb, ib, db, eb, mb, xb. repeat (split; [assumption|]). reflexivity.
Qed.

Lemma w_body_multi_inv : forall x q extended c cs subtyp ext bs,
  w_body x q extended (BMulti (c :: cs) subtyp ext) = Some bs ->
  exists kb sb xb, w_kids x q extended (c :: cs) = Some kb /\ w_string q subtyp = Some sb /\
    w_mpx q extended ext = Some xb /\ bs = ch "(" :: kb ++ SP_ :: sb ++ xb ++ [ch ")"].
Proof.
  intros x q extended c cs subtyp ext bs H. rewrite w_body_multi in H.
  wskip H. wsplit H as kb Hkb. wskip H. wsplit H as sb Hsb. wsplit H as xb Hxb. wleaf H.
  exists kb, sb, xb. repeat (split; [assumption|]). reflexivity.
Qed.

Lemma w_spx_true_inv : forall q e xb, w_spx q true (Some e) = Some xb ->
  exists db lb cb, w_disp q (spx_disp e) = Some db /\ w_lang q (spx_lang e) = Some lb /\
    w_nstring q (spx_loc e) = Some cb /\ xb = SP_ :: s2b "NIL" ++ SP_ :: db ++ SP_ :: lb ++ SP_ :: cb.
Proof.
  intros q e xb H. unfold w_spx in H. wskip H. wsplit H as db Hdb. wskip H. wsplit H as lb Hlb. wskip H.
  match type of H with _ = Some ?c => exists db, lb, c end. repeat (split; [assumption|]). reflexivity.
Qed.

Lemma w_mpx_true_inv : forall q e xb, w_mpx q true (Some e) = Some xb ->
  exists pb db lb cb, w_params q (mpx_params e) = Some pb /\ w_disp q (mpx_disp e) = Some db /\
    w_lang q (mpx_lang e) = Some lb /\ w_nstring q (mpx_loc e) = Some cb /\
    xb = SP_ :: pb ++ SP_ :: db ++ SP_ :: lb ++ SP_ :: cb.
Proof.
  intros q e xb H. unfold w_mpx in H. wskip H. wsplit H as pb Hpb. wskip H. wsplit H as db Hdb. wskip H.
  wsplit H as lb Hlb. wskip H.
  match type of H with _ = Some ?c => exists pb, db, lb, c end. repeat (split; [assumption|]). reflexivity.
Qed.

Definition sp_or_nil (bs : bytes) : Prop := bs = [] \/ exists t, bs = SP_ :: t.

Lemma w_spx_shape : forall q extended ext xb, w_spx q extended ext = Some xb -> sp_or_nil xb.
Proof.
  intros q [|] [e|] xb H; try discriminate H.
  - destruct (w_spx_true_inv q e xb H) as (db & lb & cb & _ & _ & _ & ->). right. eexists. reflexivity.
  - unfold w_spx in H. wleaf H. left. reflexivity.
  - unfold w_spx in H. wleaf H. left. reflexivity.
Qed.

Lemma w_mpx_shape : forall q extended ext xb, w_mpx q extended ext = Some xb -> sp_or_nil xb.
Proof.
  intros q [|] [e|] xb H; try discriminate H.
  - destruct (w_mpx_true_inv q e xb H) as (pb & db & lb & cb & _ & _ & _ & _ & ->). right. eexists. reflexivity.
  - unfold w_mpx in H. wleaf H. left. reflexivity.
  - unfold w_mpx in H. wleaf H. left. reflexivity.
Qed.

Lemma w_msgpart_shape : forall x q extended typ msg text mb, w_msgpart x q extended typ msg text = Some mb -> sp_or_nil mb.
Proof.
  intros x q extended typ [[[e b'] lines]|] [tl|] mb H; unfold w_msgpart in H.
  - wskip H. right. eexists. reflexivity.
  - wskip H. right. eexists. reflexivity.
  - wskip H. right. eexists. reflexivity.
  - destruct (is_text_type typ).
    + wskip H. right. eexists. reflexivity.
    + wleaf H. left. reflexivity.
Qed.

Lemma sp_or_nil_stop : forall bs t, sp_or_nil bs -> stop t -> stop (bs ++ t).
Proof. intros bs t [->|[u ->]] Ht; [exact Ht|reflexivity]. Qed.

Section RT.
Variables (x : ext) (q extended : bool).
Hypothesis Hx : ext_ok x.

Definition Pb (b : bstruct) : Prop := forall bs rest fuel depth,
  wf_bs x extended b = true -> w_body x q extended b = Some bs ->
  (depth + bs_height b <= MAX_BODY_DEPTH)%nat -> (bs_height b <= fuel)%nat ->
  read_body fuel depth x (bs ++ rest) = DOk (norm_bs extended b) rest.

Lemma rb_1part_head : forall f depth typ subtyp pr id desc enc size sb pb ib db eb tail,
  fits subtyp = true -> wf_params pr = true -> fits id = true -> fits (hide_words desc) = true ->
  fits enc = true -> u32 size = true ->
  w_string q subtyp = Some sb -> w_params q pr = Some pb -> w_nstring q id = Some ib ->
  w_nstring q (hide_words desc) = Some db -> w_encoding q enc = Some eb -> stop tail ->
  rb_1part f depth x typ
    (SP_ :: sb ++ SP_ :: pb ++ SP_ :: ib ++ SP_ :: db ++ SP_ :: eb ++ SP_ :: dec_of_N size ++ tail) =
  rb_tail1 f depth x typ subtyp (norm_params pr) id desc (norm_encoding enc) size tail.
Proof.
  intros f depth typ subtyp pr id desc enc size sb pb ib db eb tail
    Fst Fpr Fid Fdesc Fenc Fsize Hsb Hpb Hib Hdb Heb Htail.
  unfold rb_1part.
  rewrite ex_sp_app by (eapply w_string_vfirst; eassumption). cbn [bind].
  rewrite (ex_string_rt q subtyp sb _ Fst Hsb). cbn [bind].
  rewrite ex_sp_app by (eapply w_params_vfirst; eassumption). cbn [bind].
  rewrite (params_rt x q pr pb _ Hx Fpr Hpb) by reflexivity. cbn [bind].
  rewrite ex_sp_app by (eapply w_nstring_vfirst; eassumption). cbn [bind].
  rewrite (w_nstring_rt q id ib _ Fid Hib) by reflexivity. cbn [bind].
  rewrite ex_sp_app by (eapply w_nstring_vfirst; eassumption). cbn [bind].
  rewrite (w_nstring_rt q _ db _ Fdesc Hdb) by reflexivity. cbn [bind].
  rewrite ex_sp_app by (eapply w_encoding_vfirst; eassumption). cbn [bind].
  destruct (encoding_rt q enc eb (SP_ :: dec_of_N size ++ tail) Fenc Heb) as (v & Hv & Hn).
  rewrite Hv. cbn [bind].
  rewrite ex_sp_app by apply dec_of_N_vfirst. cbn [bind].
  rewrite (octets_rt size tail Fsize (stop_nondigit _ Htail)). cbn [bind].
  rewrite Hn, (decode_hide x desc Hx). reflexivity.
Qed.

Lemma ext1_NIL_rt : forall e xb rest, wf_spx e = true -> w_spx q true (Some e) = Some xb ->
  exists t, xb ++ ch ")" :: rest = SP_ :: t /\ dec_sp (SP_ :: t) = DOk tt t /\
            read_ext_1part x t = DOk (norm_spx e) (ch ")" :: rest).
Proof.
  intros e xb rest Hwf H. destruct (w_spx_true_inv q e xb H) as (db & lb & cb & Hdb & Hlb & Hcb & ->).
  nrm. eexists. split; [reflexivity|]. split.
  - apply dec_sp_app. reflexivity.
  - apply (ext_1part_rt x q e db lb cb _ Hx Hwf Hdb Hlb Hcb). reflexivity.
Qed.

Lemma finish_ext : forall typ subtyp pr id desc enc size msg text ext xb rest,
  w_spx q extended ext = Some xb ->
  (if extended then match ext with Some e => wf_spx e | None => false end else true) = true ->
  rb_finish x typ subtyp pr id desc enc size msg text false (xb ++ ch ")" :: rest) =
  DOk (BSingle typ subtyp pr id desc enc size msg text (if extended then option_map norm_spx ext else None))
      (ch ")" :: rest).
Proof.
  intros typ subtyp pr id desc enc size msg text ext xb rest H Hwf. unfold rb_finish.
  destruct extended.
  - destruct ext as [e|]; [|discriminate Hwf].
    destruct (ext1_NIL_rt e xb rest Hwf H) as (t & -> & Hsp & Hrd). rewrite Hsp, Hrd. reflexivity.
  - unfold w_spx in H. wleaf H. cbn [app]. rewrite dec_sp_close. reflexivity.
Qed.

Lemma dec_string_body_miss : forall b bs r, w_body x q extended b = Some bs ->
  dec_string false (bs ++ r) = DNo (bs ++ r).
Proof.
  intros b bs r H. destruct (body_first _ _ _ _ _ H) as [t ->]. apply dec_string_miss; reflexivity.
Qed.

Lemma kids_vfirst : forall c cs bs, w_kids x q extended (c :: cs) = Some bs -> vfirst bs.
Proof. intros c cs bs H. destruct (kids_first _ _ _ _ _ _ H) as [t ->]. reflexivity. Qed.

Lemma dec_string_kids_miss : forall c cs bs r, w_kids x q extended (c :: cs) = Some bs ->
  dec_string false (bs ++ r) = DNo (bs ++ r).
Proof.
  intros c cs bs r H. destruct (kids_first _ _ _ _ _ _ H) as [t ->]. apply dec_string_miss; reflexivity.
Qed.

Lemma kids_rt : forall f depth l, Forall Pb l -> l <> [] -> forallb (wf_bs x extended) l = true ->
  (S depth + maxh l <= MAX_BODY_DEPTH)%nat -> (maxh l <= f)%nat ->
  forall kb subtyp sb rest k, w_kids x q extended l = Some kb -> fits subtyp = true ->
  w_string q subtyp = Some sb -> (length l <= k)%nat ->
  rb_kids f depth x k (kb ++ SP_ :: sb ++ rest) = DOk (map (norm_bs extended) l, subtyp) rest.
Proof.
  intros f depth l HF. induction HF as [|a l Pa _ IH]; intros Hne Hwf Hd Hf kb subtyp sb rest k Hkb Fst Hsb Hk;
    [congruence|].
  cbn [forallb] in Hwf. apply andb_true_iff in Hwf. destruct Hwf as [Hwa Hwl].
  rewrite maxh_cons in Hd, Hf.
  destruct k as [|k]; [cbn [length] in Hk; lia|]. rewrite rb_kids_S.
  destruct l as [|b r].
  - rewrite w_kids_one in Hkb.
    rewrite (Pa kb _ f (S depth) Hwa Hkb) by lia. cbn [bind].
    rewrite dec_sp_app by (eapply w_string_vfirst; eassumption).
    rewrite (w_string_rt q subtyp sb rest Fst Hsb). reflexivity.
  - rewrite w_kids_cons2 in Hkb. wsplit Hkb as ab Hab. wskip Hkb. nrm.
    rewrite (Pa ab _ f (S depth) Hwa Hab) by lia. cbn [bind].
    rewrite dec_sp_app by (eapply kids_vfirst; eassumption).
    rewrite (dec_string_kids_miss _ _ _ _ Hkb).
    rewrite (IH ltac:(discriminate) Hwl ltac:(lia) ltac:(lia) _ subtyp sb rest k Hkb Fst Hsb)
      by (cbn [length] in *; lia).
    reflexivity.
Qed.

Lemma single_rt : forall typ subtyp pr id desc enc size msg text ext,
  (forall e b' l, msg = Some (e, b', l) -> Pb b') ->
  Pb (BSingle typ subtyp pr id desc enc size msg text ext).
Proof.
  intros typ subtyp pr id desc enc size msg text ext IH bs rest fuel depth Hwf H Hd Hf.
  destruct (w_body_single_inv _ _ _ _ _ _ _ _ _ _ _ _ _ _ H)
    as (tb & sb & pb & ib & db & eb & mb & xb & Htb & Hsb & Hpb & Hib & Hdb & Heb & Hmb & Hxb & ->).
  clear H. rewrite wf_bs_single in Hwf.
  do 10 (let X := fresh "W" in apply andb_true_iff in Hwf; destruct Hwf as [Hwf X]).
  (* W: ext cond; W0: text cond; W1: msg cond; W2: u32; W3: fits enc; W4: seven; W5: fits desc;
     W6: fits id; W7: params; W8: fits subtyp; Hwf: fits typ *)
  assert (Hh : (1 <= bs_height (BSingle typ subtyp pr id desc enc size msg text ext))%nat)
    by (cbn [bs_height]; destruct msg as [[[? ?] ?]|]; lia).
  destruct fuel as [|f]; [lia|].
  nrm. apply read_body_frame; [lia|].
  rewrite (w_string_rt q typ tb _ Hwf Htb). cbv iota.
  assert (Hxs : stop (xb ++ ch ")" :: rest))
    by (apply sp_or_nil_stop; [eapply w_spx_shape; eassumption|reflexivity]).
  rewrite (rb_1part_head f depth typ subtyp pr id desc enc size sb pb ib db eb _ W8 W7 W6 W5 W3 W2
             Hsb Hpb Hib Hdb Heb)
    by (apply sp_or_nil_stop; [eapply w_msgpart_shape; eassumption|exact Hxs]).
  rewrite norm_bs_single. unfold rb_tail1.
  assert (Wext : (if extended then match ext with Some e => wf_spx e | None => false end else true) = true).
  { destruct extended; [|reflexivity]. apply andb_true_iff in W. apply W. }
  destruct msg as [[[e b'] lines]|].
  - (* message/rfc822 *)
    do 4 (let X := fresh "V" in apply andb_true_iff in W1; destruct W1 as [W1 X]).
    (* V: text = None; V0: i64 lines; V1: wf_bs b'; V2: wf_env; W1: is_message_type *)
    destruct text as [tl|]; [discriminate V|].
    unfold w_msgpart in Hmb. wskip Hmb. wsplit Hmb as envb Henvb. wskip Hmb. wsplit Hmb as bb Hbb.
    wskip Hmb. nrm.
    destruct (envelope_first _ _ _ _ Henvb) as [et Eet].
    rewrite dec_sp_app by (rewrite Eet; reflexivity).
    rewrite W1.
    rewrite (envelope_roundtrip x q e envb _ Hx V2 Henvb). cbn [bind].
    rewrite ex_sp_app by (eapply body_vfirst; eassumption). cbn [bind].
    cbn [bs_height] in Hd, Hf.
    rewrite (IH e b' lines eq_refl bb _ f (S depth) V1 Hbb) by lia. cbn [bind].
    rewrite ex_sp_app by (eapply w_num64_vfirst; eassumption). cbn [bind].
    rewrite (num64_rt lines _ _ V0 Hmb (stop_nondigit _ Hxs)). cbn [bind].
    rewrite (finish_ext _ _ _ _ _ _ _ _ _ ext xb rest Hxb Wext).
    rewrite Z2N.id by (apply i64_bounds in V0; lia). reflexivity.
  - destruct text as [tl|].
    + (* text *)
      apply andb_true_iff in W0. destruct W0 as [Wt Wl].
      assert (Hnm : is_message_type typ subtyp = false).
      { destruct (is_message_type typ subtyp) eqn:E; [|reflexivity].
        apply message_not_text in E. congruence. }
      unfold w_msgpart in Hmb. wskip Hmb. nrm.
      rewrite dec_sp_app by (eapply w_num64_vfirst; eassumption).
      rewrite Hnm, Wt.
      rewrite (num64_rt tl _ _ Wl Hmb (stop_nondigit _ Hxs)). cbn [bind].
      rewrite (finish_ext _ _ _ _ _ _ _ _ _ ext xb rest Hxb Wext).
      rewrite Z2N.id by (apply i64_bounds in Wl; lia). reflexivity.
    + unfold w_msgpart in Hmb. unfold norm_text. destruct (is_text_type typ) eqn:Wt.
      * (* text with an unset Text: the server writes 0 lines *)
        assert (Hnm : is_message_type typ subtyp = false).
        { destruct (is_message_type typ subtyp) eqn:E; [|reflexivity].
          apply message_not_text in E. congruence. }
        assert (Wl : i64 0%Z = true) by reflexivity.
        wskip Hmb. nrm.
        rewrite dec_sp_app by (eapply w_num64_vfirst; eassumption).
        rewrite Hnm.
        rewrite (num64_rt 0%Z _ _ Wl Hmb (stop_nondigit _ Hxs)). cbn [bind].
        rewrite (finish_ext _ _ _ _ _ _ _ _ _ ext xb rest Hxb Wext). reflexivity.
      * wleaf Hmb. cbn [app].
        destruct extended.
        -- destruct ext as [e|]; [|discriminate Wext].
           apply andb_true_iff in W. destruct W as [_ Wm].
           rewrite orb_false_r in Wm. apply negb_true_iff in Wm.
           destruct (ext1_NIL_rt e xb rest Wext Hxb) as (t & -> & Hsp & Hrd).
           rewrite Hsp, Wm. unfold rb_finish. rewrite Hrd. reflexivity.
        -- unfold w_spx in Hxb. wleaf Hxb. cbn [app]. rewrite dec_sp_close. reflexivity.
Qed.

Lemma multi_rt : forall cs subtyp ext, Forall Pb cs -> Pb (BMulti cs subtyp ext).
Proof.
  intros cs subtyp ext IH bs rest fuel depth Hwf H Hd Hf.
  destruct cs as [|c cs]; [discriminate H|].
  destruct (w_body_multi_inv _ _ _ _ _ _ _ _ H) as (kb & sb & xb & Hkb & Hsb & Hxb & ->). clear H.
  rewrite wf_bs_multi in Hwf.
  do 3 (let X := fresh "W" in apply andb_true_iff in Hwf; destruct Hwf as [Hwf X]).
  (* W: ext; W0: fits subtyp; W1: children; Hwf: not nil *)
  rewrite bs_height_multi in Hd, Hf.
  destruct fuel as [|f]; [lia|].
  nrm. apply read_body_frame; [lia|].
  rewrite (dec_string_kids_miss _ _ _ _ Hkb). unfold rb_mpart.
  rewrite (kids_rt f depth (c :: cs) IH ltac:(discriminate) W1 ltac:(lia) ltac:(lia) kb subtyp sb _ _ Hkb W0 Hsb).
  2:{ apply kids_len in Hkb. rewrite app_length. lia. }
  cbn [bind]. cbv iota beta. rewrite norm_bs_multi.
  destruct extended.
  - destruct ext as [e|]; [|discriminate W].
    destruct (w_mpx_true_inv q e xb Hxb) as (pb & db & lb & cb & Hpb & Hdb & Hlb & Hcb & ->). nrm.
    rewrite dec_sp_app by (eapply w_params_vfirst; eassumption).
    rewrite (ext_mpart_rt x q e pb db lb cb _ Hx W Hpb Hdb Hlb Hcb) by reflexivity. reflexivity.
  - unfold w_mpx in Hxb. wleaf Hxb. cbn [app]. rewrite dec_sp_close. reflexivity.
Qed.

Lemma body_rt_all : forall b, Pb b.
Proof. induction b using bstruct_ind'; [apply single_rt; assumption|apply multi_rt; assumption]. Qed.

End RT.

Lemma body_roundtrip : forall x q extended b bs rest fuel depth, ext_ok x ->
  wf_bs x extended b = true -> w_body x q extended b = Some bs ->
  (depth + bs_height b <= MAX_BODY_DEPTH)%nat -> (bs_height b <= fuel)%nat ->
  read_body fuel depth x (bs ++ rest) = DOk (norm_bs extended b) rest.
Proof.
  intros x q extended b bs rest fuel depth Hx Hwf H Hd Hf.
  exact (body_rt_all x q extended Hx b bs rest fuel depth Hwf H Hd Hf).
Qed.
