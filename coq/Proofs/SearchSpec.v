(* Proofs/SearchSpec.v — RFC 3501 meaning of each SEARCH key, written independently of the
   criteria record and of And (no proofs here). *)
From GoImap.Base Require Import Bytes.
From GoImap.Model Require Import NumSet Search.
Open Scope Z_scope.

Definition sent_test (m : msg) (f : Z -> bool) : bool :=
  match m_sent m with None => false | Some t => f t end.

Fixpoint key_matches (m : msg) (k : skey) : bool :=
  match k with
  | KAll => true
  | KSeq s => negb (N.eqb (m_seq m) 0) && set_has s (m_seq m)
  | KUid s => set_has s (m_uid m)
  | KFlag f => m_flag m f
  | KNotFlag f => negb (m_flag m f)
  | KNew => m_flag m RECENT && negb (m_flag m SEEN)
  | KOld => negb (m_flag m RECENT)
  | KHeader k v => m_hdr m k v
  | KSince d => d <=? m_date m
  | KBefore d => m_date m <? d
  | KOn d => (d <=? m_date m) && (m_date m <? d + DAY)
  | KSentSince d => sent_test m (fun t => d <=? t)
  | KSentBefore d => sent_test m (fun t => t <? d)
  | KSentOn d => sent_test m (fun t => (d <=? t) && (t <? d + DAY))
  | KBody s => m_body m s
  | KText s => m_text m s
  | KLarger n => n <? m_size m
  | KSmaller n => m_size m <? n
  | KNot k' => negb (key_matches m k')
  | KOr k1 k2 => key_matches m k1 || key_matches m k2
  | KList ks => forallb (key_matches m) ks
  end.

(* keys whose argument collides with the record's "unset" encoding are outside the theorem:
   a date equal to the zero time, LARGER 0 / SMALLER 0 (documented in DESIGN.md) *)
Fixpoint wf_key (k : skey) : bool :=
  match k with
  | KSince d | KBefore d | KSentSince d | KSentBefore d => negb (d =? 0)
  | KOn d | KSentOn d => negb (d =? 0) && negb (d + DAY =? 0)
  | KLarger n | KSmaller n => negb (n =? 0)
  | KNot k' => wf_key k'
  | KOr k1 k2 => wf_key k1 && wf_key k2
  | KList ks => forallb wf_key ks
  | _ => true
  end.
