(* Proofs/ServerFrameProofs.v — proofs for C04 / C06 about Model/ServerFrame.v. *)
From GoImap.Base Require Import Bytes.
From GoImap.Model Require Import NumSet MatchList Utf7 Wire ServerConn ServerFrame.
From GoImap.Proofs Require Import ServerFrameSpec.
Open Scope N_scope.

(* C04 — framing.  For every sequence of well-formed commands of the covered family, whatever
   bytes their literal payloads contain (CRLF, command-like text with tags of its own), in any
   connection state and with or without LITERAL+: the server starts parsing a command exactly
   at the offsets where the client's commands start (never inside a literal), answers the
   commands' own tags in order, and every string reaching the backend is an argument the
   client wrote (possibly INBOX-folded / UTF-7 decoded) — until the first command that makes
   it close the connection (a refused non-synchronising literal). *)
Lemma frames_agree : forall cfg st0 cs, forallb wf_cmd cs = true ->
  let f := run_stream cfg st0 (render cs) in
  rev (fs_starts f) = starts_from 0 cs /\
  out_tags (rev (fs_out f)) = tags_upto cs /\
  (forall k s, In k (fs_calls f) -> In s (call_strings k) -> In s (arg_values cs)).
Admitted.

(* C04 — one completion per command, for EVERY byte stream: each command start yields at most
   one tagged response and all but possibly the last start yield exactly one *)
Definition is_tagged (o : sout) : bool := match o with OTagged _ _ => true | _ => false end.
Lemma one_completion : forall cfg st0 s,
  let f := run_stream cfg st0 s in
  (length (filter is_tagged (fs_out f)) <= length (fs_starts f))%nat /\
  (length (fs_starts f) <= S (length (filter is_tagged (fs_out f))))%nat.
Admitted.

(* C04 — a continuation request for a buffered literal is written only when the literal is
   synchronising and accepted (at most 4096 bytes); a refusal writes none *)
Lemma literal_continuation : forall s,
  match s_literal s with
  | SOk v rest k =>
      exists n nonsync r, lit_header s = SOk (n, nonsync) r O /\ n <= 4096 /\
        v = firstn (N.to_nat n) r /\ rest = skipn (N.to_nat n) r /\
        k = (if nonsync then O else 1%nat)
  | SErr _ _ k _ => k = O
  | SNo _ => True
  end.
Admitted.

(* C06 — a string argument is buffered only if its literal is at most 4096 bytes *)
Lemma literal_buffer_cap : forall s v rest k, s_literal s = SOk v rest k -> (length v <= 4096)%nat.
Admitted.

(* C04/C06 — the fix: a command that refuses a non-synchronising literal, or whose discarded
   line announced one, is the last one read on the connection, and a BYE is sent *)
Lemma refused_nonsync_closes : forall cfg f total s tag r1 r2 name r3,
  dec_atom s = DOk tag r1 -> dec_sp r1 = DOk tt r2 -> dec_atom r2 = DOk name r3 ->
  bytes_eqb (ascii_upper name) (s2b "UID") = false ->
  let h := handle_cmd cfg (fs_conn f) name r3 in
  (h_close h = true \/ (snd (discard_line (h_crlf h) (h_rest h)) = true /\ h_cls h <> 0)) ->
  snd (read_command cfg f total s) = None /\
  exists outs, fs_out (fst (read_command cfg f total s)) = OBye :: outs.
Admitted.

(* C06 — the serve loop terminates on every input: the fuel given by run_stream is never
   exhausted (more fuel changes nothing) *)
Lemma serve_fuel_enough : forall k cfg f total s, (length s < k)%nat ->
  serve_bytes k cfg f total s = serve_bytes (S (length s)) cfg f total s.
Admitted.

(* C06 — APPEND above the limit is refused before any octet of the message is consumed and
   without reaching the backend *)
Lemma append_limit_refused : forall cfg c name s h, bytes_eqb (ascii_upper name) (s2b "APPEND") = true ->
  handle_cmd cfg c name s = h -> h_cls h = 0 ->
  forall m fl d p, In (SAppend m fl d p) (h_calls h) -> N.of_nat (length p) <= APPEND_LIMIT.
Admitted.
