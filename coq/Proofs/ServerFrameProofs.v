(* Proofs/ServerFrameProofs.v — proofs for C04 / C06 about Model/ServerFrame.v. *)
From GoImap.Base Require Import Bytes.
From GoImap.Model Require Import NumSet MatchList Utf7 Wire ServerConn ServerFrame.
From GoImap.Proofs Require Import NumSetText WireSpec WireLemmas WireProofs ServerFrameSpec ServerFrameLemmas.
From Coq Require Import ZifyN ZifyNat ZifyBool.
Open Scope N_scope.

(* C04 — framing.  For every sequence of well-formed commands of the covered family, whatever
   bytes their literal payloads contain (CRLF, command-like text with tags of its own), in any non-logout
   connection state and with or without LITERAL+: the server starts parsing a command exactly
   at the offsets where the client's commands start (never inside a literal), answers the
   commands' own tags in order, and every string reaching the backend is an argument the
   client wrote (possibly INBOX-folded / UTF-7 decoded) — until the first command that makes
   it close the connection (a refused non-synchronising literal). *)
Lemma frames_agree : forall cfg st0 cs, st0 <> SLogout -> forallb wf_cmd cs = true ->
  let f := run_stream cfg st0 (render cs) in
  rev (fs_starts f) = starts_from 0 cs /\
  out_tags (rev (fs_out f)) = tags_upto cs /\
  (forall k s, In k (fs_calls f) -> In s (call_strings k) -> In s (arg_values cs)).
Proof.
  intros cfg st0 cs Hst Hwf f. unfold run_stream in f.
  destruct (serve_wf cs cfg (S (length (render cs))) (mkF (mkConn st0 false) [] [] [])
              (N.of_nat (length (render cs))) Hwf Hst) as (A1 & A2 & A3); [lia|lia|].
  fold f in A1, A2, A3. cbn [fs_starts fs_out fs_calls rev app out_tags flat_map] in A1, A2, A3.
  rewrite N.sub_diag in A1. split; [exact A1|]. split; [exact A2|].
  intros k s Hk Hs. destruct (A3 k Hk) as [[]|H]. auto.
Qed.

(* C04 — one completion per command, for EVERY byte stream: each command start yields at most
   one tagged response and all but possibly the last start yield exactly one *)
Definition is_tagged (o : sout) : bool := match o with OTagged _ _ => true | _ => false end.
Lemma one_completion : forall cfg st0 s,
  let f := run_stream cfg st0 s in
  (length (filter is_tagged (fs_out f)) <= length (fs_starts f))%nat /\
  (length (fs_starts f) <= S (length (filter is_tagged (fs_out f))))%nat.
Proof.
  intros cfg st0 s f.
  destruct (serve_count (S (length s)) cfg (mkF (mkConn st0 false) [] [] []) (N.of_nat (length s)) s)
    as (a & b & Ha & Hb & Hab).
  fold (run_stream cfg st0 s) in Ha, Hb. fold f in Ha, Hb.
  change (filter is_tagged (fs_out f)) with (filter tagged (fs_out f)). fold (ntag (fs_out f)).
  cbn [fs_starts fs_out length ntag filter] in Ha, Hb. lia.
Qed.

(* C04 — a continuation request for a buffered literal is written only when the literal is
   synchronising and accepted (at most 4096 bytes); a refusal writes none *)
Lemma literal_continuation : forall s,
  match s_literal s with
  | SOk v rest k =>
      exists n nonsync r, lit_header s = SOk (n, nonsync) r O /\ n <= 4096 /\
        v = firstn (N.to_nat n) r /\ rest = skipn (N.to_nat n) r /\
        k = (if nonsync then O else 1%nat)
  | SErr _ _ k _ => k = O
  | SNo _ => True
  end.
Proof.
  intros s. unfold s_literal. pose proof (lit_header_conts s) as Hk.
  destruct (lit_header s) as [[n ns] r k|r|c cl k r]; [|exact I|exact Hk].
  subst k. destruct (4096 <? n) eqn:L; [reflexivity|].
  exists n, ns, r. apply N.ltb_ge in L. repeat split; auto.
Qed.

(* C06 — a string argument is buffered only if its literal is at most 4096 bytes *)
Lemma literal_buffer_cap : forall s v rest k, s_literal s = SOk v rest k -> (length v <= 4096)%nat.
Proof.
  intros s v rest k H. pose proof (literal_continuation s) as L. rewrite H in L.
  destruct L as (n & ns & r & _ & Hn & -> & _). rewrite firstn_length. lia.
Qed.

(* C04/C06 — the fix: a command that refuses a non-synchronising literal, or whose discarded
   line announced one, is the last one read on the connection, and a BYE is sent.  The tag must
   be one the server answers at all: a tag containing "+" ends the connection before the command
   is looked at (plus_tag_ends_silently below), so no BYE is written for it. *)
Lemma refused_nonsync_closes : forall cfg f total s tag r1 r2 name r3,
  dec_atom s = DOk tag r1 -> has_plus tag = false ->
  dec_sp r1 = DOk tt r2 -> dec_atom r2 = DOk name r3 ->
  bytes_eqb (ascii_upper name) (s2b "UID") = false ->
  let h := handle_cmd cfg (fs_conn f) name r3 in
  (h_close h = true \/ (snd (discard_line (h_crlf h) (h_rest h)) = true /\ h_cls h <> 0)) ->
  snd (read_command cfg f total s) = None /\
  exists outs, fs_out (fst (read_command cfg f total s)) = OBye :: outs.
Proof.
  intros cfg f total s tag r1 r2 name r3 H1 Hp H2 H3 H4 h Hc. unfold has_plus in Hp.
  unfold read_command. rewrite H1, H2, H3, Hp, H4. cbv zeta. fold h.
  destruct (discard_line (h_crlf h) (h_rest h)) as [rest ann]. cbn [snd] in Hc.
  assert (Hcl : h_close h || (ann && negb (h_cls h =? 0)) = true).
  { destruct Hc as [-> | [-> Hn]]; [reflexivity|]. apply N.eqb_neq in Hn. rewrite Hn. apply orb_true_r. }
  rewrite Hcl. rewrite orb_true_r. cbn [fst snd fs_out]. split; [reflexivity | eexists; reflexivity].
Qed.

(* the complementary case: a tag containing "+" ends the connection without any response,
   whatever follows it *)
Lemma plus_tag_ends_silently : forall cfg f total s tag r1 r2 name r3,
  dec_atom s = DOk tag r1 -> has_plus tag = true ->
  dec_sp r1 = DOk tt r2 -> dec_atom r2 = DOk name r3 ->
  snd (read_command cfg f total s) = None /\
  fs_out (fst (read_command cfg f total s)) = fs_out f /\
  fs_calls (fst (read_command cfg f total s)) = fs_calls f.
Proof.
  intros cfg f total s tag r1 r2 name r3 H1 Hp H2 H3. unfold has_plus in Hp.
  unfold read_command. rewrite H1, H2, H3, Hp. cbv zeta. cbn [fst snd fs_out fs_calls]. auto.
Qed.

(* without the hypothesis on the tag the statement above does not hold: "a+ DELETE {5000+}"
   refuses a non-synchronising literal in its handler, yet no BYE is written *)
Lemma refused_nonsync_closes_needs_plain_tag :
  ~ (forall cfg f total s tag r1 r2 name r3,
      dec_atom s = DOk tag r1 -> dec_sp r1 = DOk tt r2 -> dec_atom r2 = DOk name r3 ->
      bytes_eqb (ascii_upper name) (s2b "UID") = false ->
      let h := handle_cmd cfg (fs_conn f) name r3 in
      (h_close h = true \/ (snd (discard_line (h_crlf h) (h_rest h)) = true /\ h_cls h <> 0)) ->
      snd (read_command cfg f total s) = None /\
      exists outs, fs_out (fst (read_command cfg f total s)) = OBye :: outs).
Proof.
  intros H.
  specialize (H (mkFcfg true false false (fun _ => false) (fun _ => false))
                (mkF (mkConn SAuth false) [] [] []) 19
                (s2b "a+ DELETE {5000+}" ++ CRLF_)
                (s2b "a+") (s2b " DELETE {5000+}" ++ CRLF_) (s2b "DELETE {5000+}" ++ CRLF_)
                (s2b "DELETE") (s2b " {5000+}" ++ CRLF_)
                eq_refl eq_refl eq_refl eq_refl).
  cbv zeta in H. destruct H as [_ [outs Ho]]; [left; vm_compute; reflexivity|].
  vm_compute in Ho. discriminate Ho.
Qed.

(* change (b): a literal header whose size is not a readable number and whose line ends with
   "+}" is an error that closes the connection (it reaches read_command as h_close = true) *)
Lemma unreadable_nonsync_size_closes : forall s r r',
  dec_special (ch "{") s = DOk tt r -> dec_number64 r = DNo r' -> partial_header_nonsync r' = true ->
  lit_header s = SErr (io_or_syntax r') true O r'.
Proof. intros s r r' H1 H2 H3. unfold lit_header. rewrite H1, H2, H3. reflexivity. Qed.

Example unreadable_nonsync_size_example :
  rev (fs_out (run_stream (mkFcfg true false false (fun _ => false) (fun _ => false)) SAuth
         (s2b "a1 DELETE {99999999999999999999+}" ++ CRLF_ ++ s2b "a2 NOOP" ++ CRLF_)))
  = [OTagged (s2b "a1") 2; OBye].
Proof. vm_compute. reflexivity. Qed.

(* C06 — the serve loop terminates on every input: the fuel given by run_stream is never
   exhausted (more fuel changes nothing) *)
Lemma serve_fuel_enough : forall k cfg f total s, (length s < k)%nat ->
  serve_bytes k cfg f total s = serve_bytes (S (length s)) cfg f total s.
Proof. intros k cfg f total s H. apply serve_fuel_any; lia. Qed.

(* C06 — APPEND above the limit is refused before any octet of the message is consumed and
   without reaching the backend *)
Lemma append_limit_refused : forall cfg c name s h, bytes_eqb (ascii_upper name) (s2b "APPEND") = true ->
  handle_cmd cfg c name s = h -> h_cls h = 0 ->
  forall m fl d p, In (SAppend m fl d p) (h_calls h) -> N.of_nat (length p) <= APPEND_LIMIT.
Proof.
  intros cfg c name s h Hn Hh _ m fl d p Hin. subst h. apply bytes_eqb_true_iff in Hn.
  unfold handle_cmd in Hin. rewrite Hn in Hin. cbv zeta in Hin.
  repeat match type of Hin with context [name_is (s2b "APPEND") ?k] =>
    let v := eval vm_compute in (name_is (s2b "APPEND") k) in
    change (name_is (s2b "APPEND") k) with v in Hin end.
  cbn [orb] in Hin. cbv iota in Hin.
  repeat match goal with
  | H : In _ (h_calls (finish _ (SErr _ _ _ _))) |- _ => cbn [finish h_calls In] in H; contradiction
  | H : In _ (h_calls (finish _ (SNo _))) |- _ => cbn [finish h_calls In] in H; contradiction
  | H : In _ (h_calls (mkH _ _ _ _ _ _ _)) |- _ => cbn [h_calls] in H
  | H : In _ [] |- _ => destruct H
  | H : In _ [_] |- _ => destruct H as [H|[]]; inversion H; subst; clear H
  | H : In _ (h_calls (match ?x with _ => _ end)) |- _ => destruct x eqn:?
  | H : In _ (h_calls (if ?b then _ else _)) |- _ => destruct b eqn:?
  end.
  all: match goal with H : (APPEND_LIMIT <? _) = false |- _ => apply N.ltb_ge in H; rewrite firstn_length; lia end.
Qed.

(* ---- the rest of a failed command's line is discarded up to its LF, nothing else ends it ---- *)

Lemma take_while_not_lf : forall text rest, forallb not_lf text = true ->
  take_while not_lf (text ++ LF_ :: rest) = Some (text, LF_ :: rest).
Proof.
  induction text as [|c t IH]; intros rest H.
  - reflexivity.
  - cbn [forallb] in H. apply andb_prop in H. destruct H as [Hc Ht].
    cbn [app take_while]. rewrite Hc, (IH rest Ht). reflexivity.
Qed.

(* DiscardLine consumes exactly the bytes up to and including the first LF: a CR that is not
   followed by LF (or any other byte) does not end the line *)
Lemma discard_line_ends_at_lf : forall text rest, forallb not_lf text = true ->
  fst (discard_line false (text ++ LF_ :: rest)) = rest.
Proof.
  intros text rest H. unfold discard_line, line_tail_rev.
  rewrite (take_while_not_lf text rest H). reflexivity.
Qed.

(* whatever a handler leaves unread of a line without announced literal, the next command
   read_command parses starts after that line's LF *)
Lemma discard_line_no_lf_is_eof : forall s, forallb not_lf s = true ->
  discard_line false s = ([], false).
Proof.
  intros s H. unfold discard_line, line_tail_rev.
  assert (E : take_while not_lf s = None).
  { induction s as [|c t IH]; [reflexivity|]. cbn [forallb] in H. apply andb_prop in H.
    destruct H as [Hc Ht]. cbn [take_while]. rewrite Hc, (IH Ht). reflexivity. }
  rewrite E. reflexivity.
Qed.

Definition fx_cfg := mkFcfg true false false (fun _ => false) (fun _ => false).
Definition fx_run (s : bytes) := let f := run_stream fx_cfg SAuth s in (rev (fs_out f), rev (fs_calls f)).

(* a handler that fails right after a literal it has read (mailbox name not valid UTF-7): the
   rest of the line is discarded, not executed *)
Example rest_of_line_after_literal_discarded :
  fx_run (s2b "b SELECT {3}" ++ CRLF_ ++ s2b "&&&c DELETE Victim" ++ CRLF_ ++ s2b "d NOOP" ++ CRLF_)
  = ([OCont; OTagged (s2b "b") 1; OTagged (s2b "d") 0], []).
Proof. vm_compute. reflexivity. Qed.

Example rest_of_line_after_nonsync_literal_discarded :
  fx_run (s2b "b DELETE {3+}" ++ CRLF_ ++ s2b "&&&c DELETE Victim" ++ CRLF_ ++ s2b "d NOOP" ++ CRLF_)
  = ([OTagged (s2b "b") 1; OTagged (s2b "d") 0], []).
Proof. vm_compute. reflexivity. Qed.

(* a bare CR does not end a discarded line *)
Example bare_cr_does_not_end_line :
  fx_run (s2b "b FOO x" ++ [CR_] ++ s2b "c DELETE Victim" ++ CRLF_ ++ s2b "d NOOP" ++ CRLF_)
  = ([OTagged (s2b "b") 2; OTagged (s2b "d") 0], []).
Proof. vm_compute. reflexivity. Qed.

(* "{n+}" followed by SP CRLF, CRLF, SP LF or LF in a discarded line announces octets: the
   connection ends after the tagged response *)
Example discarded_nonsync_header_forms_close :
  forallb (fun eol =>
    match fx_run (s2b "b NOOP {20+}" ++ eol ++ s2b "c DELETE Victim" ++ CRLF_ ++ s2b "xx") with
    | ([OTagged _ 2; OBye], []) => true
    | _ => false
    end) [CRLF_; SP_ :: CRLF_; [LF_]; [SP_; LF_]] = true.
Proof. vm_compute. reflexivity. Qed.
