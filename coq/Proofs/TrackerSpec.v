(* Proofs/TrackerSpec.v — specification vocabulary for C07 (no proofs here). *)
From GoImap.Base Require Import Bytes.
From GoImap.Model Require Import Tracker.
Open Scope N_scope.

(* 1-based access and position; 0 = absent *)
Definition nth1 (l : list N) (c : N) : option N :=
  if c =? 0 then None else nth_error l (N.to_nat (c - 1)).

Fixpoint pos_of (id : N) (l : list N) : N :=
  match l with
  | [] => 0
  | x :: r => if x =? id then 1 else match pos_of id r with 0 => 0 | p => p + 1 end
  end.

(* the client applies, in order, the updates it is sent *)
Definition replay (v : list N) (q : list upd) : list N := fold_left apply_upd q v.

(* histories the tracker's own guards accept (no step panicked), started with distinct
   session ids *)
Fixpoint fresh_sids (seen : list N) (ops : list op) : bool :=
  match ops with
  | [] => true
  | ONewSession sid :: r => negb (existsb (N.eqb sid) seen) && fresh_sids (sid :: seen) r
  | _ :: r => fresh_sids seen r
  end.
