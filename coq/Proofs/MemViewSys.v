(* Proofs/MemViewSys.v — C08, system level: the invariant of the whole server state (every
   mailbox's invariant, and the sessions registered in a mailbox's tracker are exactly the
   connections that have it selected) is kept by every command, and the responses a command
   writes lead the identity-aware observer from the connection's list before the command to
   its list after it.                                                                        *)
From GoImap.Base Require Import Bytes.
From GoImap.Model Require Import NumSet Tracker MemView.
From Coq Require Import Sorting.Permutation.
From GoImap.Proofs Require Import TrackerSpec TrackerLemmas TrackerProofs MemViewSpec MemViewLemmas.
From Coq Require Import ZifyN ZifyNat ZifyBool.
Open Scope N_scope.

(* ---- lists indexed by N ------------------------------------------------------------------------ *)
Lemma set_nth_length : forall A (l : list A) i x, length (set_nth l i x) = length l.
Proof. induction l as [|y r IH]; intros [|i] x; simpl; auto. Qed.
Lemma nth_set_nth_same : forall A (l : list A) i x, (i < length l)%nat -> nth_error (set_nth l i x) i = Some x.
Proof.
  induction l as [|y r IH]; intros [|i] x H; simpl in *; try lia; auto. apply IH. lia.
Qed.
Lemma nth_set_nth_other : forall A (l : list A) i j x, i <> j -> nth_error (set_nth l i x) j = nth_error l j.
Proof.
  induction l as [|y r IH]; intros [|i] [|j] x H; simpl in *; auto; try congruence.
Qed.
Lemma put_length : forall A (l : list A) i x, length (put l i x) = length l.
Proof. intros. apply set_nth_length. Qed.
Lemma get_lt : forall A (l : list A) i x, get l i = Some x -> (N.to_nat i < length l)%nat.
Proof. intros A l i x H. unfold get in H. apply nth_error_Some. congruence. Qed.
Lemma get_put_same : forall A (l : list A) i x y, get l i = Some y -> get (put l i x) i = Some x.
Proof. intros A l i x y H. unfold get, put. apply nth_set_nth_same. eapply get_lt; eauto. Qed.
Lemma get_put_other : forall A (l : list A) i j x, i <> j -> get (put l i x) j = get l j.
Proof. intros A l i j x H. unfold get, put. apply nth_set_nth_other. lia. Qed.

Lemma fold_opt_app : forall S I (f : S -> I -> option S) l1 l2 s s1,
  fold_opt f s l1 = Some s1 -> fold_opt f s (l1 ++ l2) = fold_opt f s1 l2.
Proof.
  induction l1 as [|i r IH]; intros l2 s s1 H; simpl in *.
  - inversion H; reflexivity.
  - destruct (f s i) as [s'|]; [|discriminate]. eapply IH; eauto.
Qed.
Lemma fold_opt_app_inv : forall S I (f : S -> I -> option S) l1 l2 s s2,
  fold_opt f s (l1 ++ l2) = Some s2 -> exists s1, fold_opt f s l1 = Some s1 /\ fold_opt f s1 l2 = Some s2.
Proof.
  induction l1 as [|i r IH]; intros l2 s s2 H; simpl in *.
  - eauto.
  - destruct (f s i) as [s'|]; [|discriminate]. eapply IH; eauto.
Qed.

(* ---- the invariant ---------------------------------------------------------------------------- *)
Record SysInv (st : sys) : Prop := mkSysInv {
  si_mb : forall m mb, get (s_mbs st) m = Some mb -> MbInv mb;
  si_sess : forall m mb c, get (s_mbs st) m = Some mb -> In c (sids mb) ->
            exists cn, get (s_conns st) c = Some cn /\ c_sel cn = Some m;
  si_sel : forall c cn m, get (s_conns st) c = Some cn -> c_sel cn = Some m ->
           exists mb, get (s_mbs st) m = Some mb /\ In c (sids mb);
  si_crash : s_crash st = false
}.

Definition view_in (mb : mbox) (c : N) : option (list N) := option_map s_view (sess_of mb c).

Lemma view_of_eq : forall st c,
  view_of st c = match sel_of st c with Some (_, mb) => view_in mb c | None => None end.
Proof.
  intros. unfold view_of, view_in, sess_of. destruct (sel_of st c) as [[m mb]|]; [|reflexivity].
  destruct (find_sess c (t_sess (mb_tr mb))); reflexivity.
Qed.

Lemma sel_of_some : forall st c m mb, sel_of st c = Some (m, mb) <->
  exists cn, get (s_conns st) c = Some cn /\ c_sel cn = Some m /\ get (s_mbs st) m = Some mb.
Proof.
  intros st c m mb. unfold sel_of. split.
  - destruct (get (s_conns st) c) as [cn|]; [|discriminate].
    destruct (c_sel cn) as [m0|] eqn:Ec; [|discriminate].
    destruct (get (s_mbs st) m0) as [mb0|] eqn:E; [|discriminate].
    intro H. inversion H; subst. exists cn. repeat split; auto.
  - intros (cn & H1 & H2 & H3). rewrite H1, H2, H3. reflexivity.
Qed.

Lemma sel_of_none_conn : forall st c cn, SysInv st -> get (s_conns st) c = Some cn ->
  sel_of st c = None -> c_sel cn = None.
Proof.
  intros st c cn HI Hc Hs. unfold sel_of in Hs. rewrite Hc in Hs.
  destruct (c_sel cn) as [m|] eqn:E; [|reflexivity].
  destruct (si_sel _ HI _ _ _ Hc E) as (mb & Hm & _). rewrite Hm in Hs. discriminate.
Qed.

(* a selected connection has a session in its mailbox *)
Lemma sel_sess : forall st c m mb, SysInv st -> sel_of st c = Some (m, mb) ->
  MbInv mb /\ exists sv, sess_of mb c = Some sv.
Proof.
  intros st c m mb HI Hs. apply sel_of_some in Hs. destruct Hs as (cn & H1 & H2 & H3).
  pose proof (si_mb _ HI _ _ H3) as Hmb. split; [assumption|].
  destruct (si_sel _ HI _ _ _ H1 H2) as (mb' & Hm & Hin). rewrite H3 in Hm. inversion Hm; subst.
  apply sess_of_sids; assumption.
Qed.

(* a session registered in mailbox m belongs to a connection that has m selected *)
Lemma sess_sel : forall st m mb c, SysInv st -> get (s_mbs st) m = Some mb -> In c (sids mb) ->
  sel_of st c = Some (m, mb).
Proof.
  intros st m mb c HI Hm Hin. destruct (si_sess _ HI _ _ _ Hm Hin) as (cn & H1 & H2).
  apply sel_of_some. eauto.
Qed.

(* ---- replacing a mailbox ------------------------------------------------------------------------ *)
Lemma put_mb_conns : forall st m mb cr, s_conns (put_mb st m mb cr) = s_conns st.
Proof. reflexivity. Qed.

Lemma put_mb_inv : forall st m mb mb', SysInv st -> get (s_mbs st) m = Some mb ->
  MbInv mb' -> (forall x, In x (sids mb') <-> In x (sids mb)) -> SysInv (put_mb st m mb' false).
Proof.
  intros st m mb mb' HI Hm Hmb' Hs. constructor; simpl.
  - intros m0 mb0 H0. destruct (N.eq_dec m m0) as [->|Hne].
    + rewrite (get_put_same _ _ _ _ _ Hm) in H0. inversion H0; subst. assumption.
    + rewrite get_put_other in H0 by assumption. eapply si_mb; eauto.
  - intros m0 mb0 c H0 Hin. destruct (N.eq_dec m m0) as [->|Hne].
    + rewrite (get_put_same _ _ _ _ _ Hm) in H0. inversion H0; subst.
      apply Hs in Hin. eapply si_sess; eauto.
    + rewrite get_put_other in H0 by assumption. eapply si_sess; eauto.
  - intros c cn m0 Hc Hsel. destruct (si_sel _ HI _ _ _ Hc Hsel) as (mb0 & H0 & Hin).
    destruct (N.eq_dec m m0) as [->|Hne].
    + rewrite Hm in H0. inversion H0; subst. exists mb'. split.
      * eapply get_put_same; eauto.
      * apply Hs. assumption.
    + exists mb0. split; [rewrite get_put_other by assumption; assumption|assumption].
  - rewrite (si_crash _ HI). reflexivity.
Qed.

Lemma sel_of_put_mb : forall st m mb mb' cr c, get (s_mbs st) m = Some mb ->
  sel_of (put_mb st m mb' cr) c =
  match sel_of st c with
  | Some (m0, mb0) => if m0 =? m then Some (m, mb') else Some (m0, mb0)
  | None => None
  end.
Proof.
  intros st m mb mb' cr c Hm. unfold sel_of. simpl.
  destruct (get (s_conns st) c) as [cn|]; [|reflexivity].
  destruct (c_sel cn) as [m0|]; [|reflexivity].
  destruct (N.eq_dec m m0) as [<-|Hne].
  - rewrite (get_put_same _ _ _ _ _ Hm), Hm, N.eqb_refl. reflexivity.
  - rewrite get_put_other by assumption. destruct (get (s_mbs st) m0); [|reflexivity].
    replace (m0 =? m) with false by lia. reflexivity.
Qed.

(* replacing a mailbox by one in which every session has the list it had: nobody's list changes *)
Lemma view_of_put_mb_same : forall st m mb mb' cr c, get (s_mbs st) m = Some mb ->
  (forall c', view_in mb' c' = view_in mb c') -> view_of (put_mb st m mb' cr) c = view_of st c.
Proof.
  intros st m mb mb' cr c Hm Hv. rewrite !view_of_eq, (sel_of_put_mb _ _ _ _ _ _ Hm).
  destruct (sel_of st c) as [[m0 mb0]|] eqn:Es; [|reflexivity].
  destruct (m0 =? m) eqn:E; [|reflexivity].
  apply N.eqb_eq in E. subst m0. apply sel_of_some in Es. destruct Es as (cn & _ & _ & H3).
  rewrite Hm in H3. inversion H3; subst. apply Hv.
Qed.

Lemma views_view_in : forall mb mb' c, views mb' = views mb -> view_in mb' c = view_in mb c.
Proof. intros. unfold view_in. apply views_view. assumption. Qed.

Lemma sids_iff_of_views : forall mb mb', views mb' = views mb -> forall x, In x (sids mb') <-> In x (sids mb).
Proof. intros mb mb' H x. rewrite (views_sids _ _ H). tauto. Qed.


(* ---- the observer with identity, and what ties its state to the server's -------------------------- *)
(* [J st c gone told]: for the session of connection c, every message it was ever told about
   (told) is below the session's bound (so that what a later EXISTS announces is new), is either
   still in its list or was reported expunged (gone), and no message was told twice *)
Definition J (st : sys) (c : N) (gone told : list N) : Prop :=
  forall m mb sv, sel_of st c = Some (m, mb) -> sess_of mb c = Some sv ->
    Forall (fun x => x < bnd mb sv) told /\ Permutation told (s_view sv ++ gone) /\ NoDup told.

(* connection c' has, in st', the session (list and bound) it has in st *)
Definition same_sess (st st' : sys) (c' : N) : Prop :=
  forall m mb' sv', sel_of st' c' = Some (m, mb') -> sess_of mb' c' = Some sv' ->
    exists mb sv, sel_of st c' = Some (m, mb) /\ sess_of mb c' = Some sv /\
                  s_view sv = s_view sv' /\ bnd mb sv = bnd mb' sv'.

Lemma J_same_sess : forall st st' c g t, same_sess st st' c -> J st c g t -> J st' c g t.
Proof.
  intros st st' c g t Hs HJ m mb' sv' Hsel Hsv.
  destruct (Hs _ _ _ Hsel Hsv) as (mb & sv & H1 & H2 & H3 & H4).
  destruct (HJ _ _ _ H1 H2) as (A & B & C). rewrite <- H3, <- H4. auto.
Qed.

Lemma same_sess_refl : forall st c, same_sess st st c.
Proof. intros st c m mb sv H1 H2. exists mb, sv. auto. Qed.

Lemma same_sess_trans : forall st1 st2 st3 c, same_sess st1 st2 c -> same_sess st2 st3 c -> same_sess st1 st3 c.
Proof.
  intros st1 st2 st3 c H12 H23 m mb3 sv3 Hsel Hsv.
  destruct (H23 _ _ _ Hsel Hsv) as (mb2 & sv2 & A & B & C & D).
  destruct (H12 _ _ _ A B) as (mb1 & sv1 & A1 & B1 & C1 & D1).
  exists mb1, sv1. repeat split; try assumption; congruence.
Qed.

(* replacing a mailbox by one with the same views *)
Lemma same_sess_put_mb : forall st m mb mb' cr c, get (s_mbs st) m = Some mb ->
  views mb' = views mb -> same_sess st (put_mb st m mb' cr) c.
Proof.
  intros st m mb mb' cr c Hm Hv m1 mb1 sv1 Hsel Hsv.
  rewrite (sel_of_put_mb _ _ _ _ _ _ Hm) in Hsel.
  destruct (sel_of st c) as [[m0 mb0]|] eqn:Es; [|discriminate].
  destruct (m0 =? m) eqn:E.
  - apply N.eqb_eq in E. subst m0. inversion Hsel; subst m1 mb1.
    pose proof Es as Es'. apply sel_of_some in Es'. destruct Es' as (cn & _ & _ & H3).
    rewrite Hm in H3. inversion H3; subst mb0.
    destruct (views_sess mb' mb c sv1 (eq_sym Hv) Hsv) as (sv & Hsv0).
    destruct (views_bnd mb mb' c sv sv1 Hv Hsv0 Hsv) as [A B].
    exists mb, sv. repeat split; auto.
  - inversion Hsel; subst m1 mb1. exists mb0, sv1. auto.
Qed.


(* ---- connections --------------------------------------------------------------------------------- *)

Lemma sel_of_put_conn : forall st c cn c', get (s_conns st) c <> None ->
  sel_of (put_conn st c cn) c' =
  if c' =? c then match c_sel cn with
                  | Some m => match get (s_mbs st) m with Some mb => Some (m, mb) | None => None end
                  | None => None
                  end
  else sel_of st c'.
Proof.
  intros st c cn c' Hc. unfold sel_of. simpl.
  destruct (get (s_conns st) c) as [cn0|] eqn:E; [|congruence].
  destruct (c' =? c) eqn:Ec.
  - apply N.eqb_eq in Ec. subst c'. rewrite (get_put_same _ _ _ _ _ E). reflexivity.
  - rewrite get_put_other by lia. reflexivity.
Qed.

Lemma view_of_put_conn_other : forall st c cn c', get (s_conns st) c <> None -> c' <> c ->
  view_of (put_conn st c cn) c' = view_of st c'.
Proof.
  intros st c cn c' Hc Hne. rewrite !view_of_eq, sel_of_put_conn by assumption.
  replace (c' =? c) with false by lia. reflexivity.
Qed.

(* replacing a mailbox by one in which c' has the session it had, with uidNext unchanged *)
Lemma same_sess_put_mb_oth : forall st m mb mb' cr c', get (s_mbs st) m = Some mb ->
  sess_of mb' c' = sess_of mb c' -> mb_next mb' = mb_next mb -> same_sess st (put_mb st m mb' cr) c'.
Proof.
  intros st m mb mb' cr c' Hm Hs Hn m1 mb1 sv1 Hsel Hsv.
  rewrite (sel_of_put_mb _ _ _ _ _ _ Hm) in Hsel.
  destruct (sel_of st c') as [[m0 mb0]|] eqn:Es; [|discriminate].
  destruct (m0 =? m) eqn:E.
  - apply N.eqb_eq in E. subst m0. inversion Hsel; subst m1 mb1.
    pose proof Es as Es'. apply sel_of_some in Es'. destruct Es' as (cn & _ & _ & H3).
    rewrite Hm in H3. inversion H3; subst mb0. rewrite Hs in Hsv.
    exists mb, sv1. repeat split; auto. unfold bnd. rewrite Hn. reflexivity.
  - inversion Hsel; subst m1 mb1. exists mb0, sv1. auto.
Qed.

Lemma same_sess_put_conn : forall st c cn c', get (s_conns st) c <> None -> c' <> c ->
  same_sess st (put_conn st c cn) c'.
Proof.
  intros st c cn c' Hc Hne m mb sv Hsel Hsv. rewrite sel_of_put_conn in Hsel by assumption.
  replace (c' =? c) with false in Hsel by lia. exists mb, sv. auto.
Qed.

(* UserSession.Unselect *)
Lemma sys_unselect_ok : forall st c m mb, SysInv st -> sel_of st c = Some (m, mb) ->
  SysInv (sys_unselect st c) /\
  view_of (sys_unselect st c) c = None /\
  get (s_conns (sys_unselect st c)) c = Some (mkConn None false false) /\
  length (s_conns (sys_unselect st c)) = length (s_conns st) /\
  (forall c', c' <> c -> view_of (sys_unselect st c) c' = view_of st c' /\
                         get (s_conns (sys_unselect st c)) c' = get (s_conns st) c' /\
                         same_sess st (sys_unselect st c) c').
Proof.
  intros st c m mb HI Es. unfold sys_unselect. rewrite Es.
  destruct (sel_sess _ _ _ _ HI Es) as (Hmb & sv & Hsv).
  destruct (mb_close_ok mb c Hmb) as (mb' & Hdo & Hmb' & Hnone & Hoth & Hsids & _ & Hnext).
  rewrite Hdo. pose proof Es as Es0. apply sel_of_some in Es. destruct Es as (cn & Hc & Hsel & Hm).
  assert (Hcne : get (s_conns (put_mb st m mb' false)) c <> None) by (simpl; congruence).
  split; [|split; [|split; [|split]]].
  - constructor; simpl.
    + intros m0 mb0 H0. destruct (N.eq_dec m m0) as [->|Hne].
      * rewrite (get_put_same _ _ _ _ _ Hm) in H0. inversion H0; subst. assumption.
      * rewrite get_put_other in H0 by assumption. eapply si_mb; eauto.
    + intros m0 mb0 x H0 Hin. destruct (N.eq_dec m m0) as [->|Hne].
      * rewrite (get_put_same _ _ _ _ _ Hm) in H0. inversion H0; subst.
        apply Hsids in Hin. destruct Hin as [Hin Hx].
        destruct (si_sess _ HI _ _ _ Hm Hin) as (cnx & Hcx & Hsx).
        exists cnx. rewrite get_put_other by congruence. auto.
      * rewrite get_put_other in H0 by assumption.
        destruct (si_sess _ HI _ _ _ H0 Hin) as (cnx & Hcx & Hsx).
        assert (x <> c). { intro. subst x. rewrite Hc in Hcx. inversion Hcx; subst. congruence. }
        exists cnx. rewrite get_put_other by congruence. auto.
    + intros x cnx m0 Hx Hsx. destruct (N.eq_dec c x) as [->|Hne].
      * rewrite (get_put_same _ _ _ _ _ Hc) in Hx. inversion Hx; subst. discriminate.
      * rewrite get_put_other in Hx by assumption.
        destruct (si_sel _ HI _ _ _ Hx Hsx) as (mb0 & H0 & Hin).
        destruct (N.eq_dec m m0) as [->|Hnm].
        -- rewrite Hm in H0. inversion H0; subst. exists mb'. split; [eapply get_put_same; eauto|].
           apply Hsids. split; [assumption|congruence].
        -- exists mb0. rewrite get_put_other by assumption. auto.
    + rewrite (si_crash _ HI). reflexivity.
  - rewrite view_of_eq, sel_of_put_conn by assumption. rewrite N.eqb_refl. reflexivity.
  - simpl. eapply get_put_same; eauto.
  - simpl. apply put_length.
  - intros c' Hne. split; [|split].
    + rewrite view_of_put_conn_other by assumption.
      rewrite !view_of_eq, (sel_of_put_mb _ _ _ _ _ _ Hm).
      destruct (sel_of st c') as [[m0 mb0]|] eqn:Es'; [|reflexivity].
      destruct (m0 =? m) eqn:E; [|reflexivity].
      apply N.eqb_eq in E. subst m0. apply sel_of_some in Es'. destruct Es' as (cn' & _ & _ & H3).
      rewrite Hm in H3. inversion H3; subst. unfold view_in. rewrite Hoth by assumption. reflexivity.
    + simpl. apply get_put_other. congruence.
    + eapply same_sess_trans; [exact (same_sess_put_mb_oth st m mb mb' false c' Hm (Hoth c' Hne) Hnext)|apply same_sess_put_conn; assumption].
Qed.

(* UserSession.Select on a connection that has nothing selected *)
Lemma sys_select_ok : forall st c cn m mb mb' cr ro, SysInv st -> get (s_conns st) c = Some cn ->
  c_sel cn = None -> get (s_mbs st) m = Some mb -> mb_do mb (ONewSession c) = (mb', cr) ->
  let st' := put_conn (put_mb st m mb' cr) c (mkConn (Some m) false ro) in
  SysInv st' /\ view_of st' c = Some (uids_of mb) /\
  length (s_conns st') = length (s_conns st) /\
  (forall c', c' <> c -> view_of st' c' = view_of st c' /\ get (s_conns st') c' = get (s_conns st) c' /\
                         same_sess st st' c') /\
  cr = false.
Proof.
  intros st c cn m mb mb' cr ro HI Hc Hsel Hm Hdo st'.
  pose proof (si_mb _ HI _ _ Hm) as Hmb.
  assert (Hnin : ~ In c (sids mb)).
  { intro Hin. destruct (si_sess _ HI _ _ _ Hm Hin) as (cn0 & Hc0 & Hs0). congruence. }
  destruct (mb_new_ok mb c Hmb Hnin) as (mb1 & Hdo1 & Hmb1 & Hsv & Hoth & Hsids & _ & Hnext).
  rewrite Hdo in Hdo1. inversion Hdo1; subst mb1 cr. clear Hdo1.
  assert (Hcne : get (s_conns (put_mb st m mb' false)) c <> None) by (simpl; congruence).
  split; [|split; [|split; [|split; [|reflexivity]]]].
  - constructor; simpl.
    + intros m0 mb0 H0. destruct (N.eq_dec m m0) as [->|Hne].
      * rewrite (get_put_same _ _ _ _ _ Hm) in H0. inversion H0; subst. assumption.
      * rewrite get_put_other in H0 by assumption. eapply si_mb; eauto.
    + intros m0 mb0 x H0 Hin. destruct (N.eq_dec m m0) as [->|Hne].
      * rewrite (get_put_same _ _ _ _ _ Hm) in H0. inversion H0; subst.
        apply Hsids in Hin. destruct Hin as [Hin| ->].
        -- destruct (si_sess _ HI _ _ _ Hm Hin) as (cnx & Hcx & Hsx).
           assert (x <> c) by (intro; subst x; congruence).
           exists cnx. rewrite get_put_other by congruence. auto.
        -- exists (mkConn (Some m0) false ro). split; [eapply get_put_same; eauto|reflexivity].
      * rewrite get_put_other in H0 by assumption.
        destruct (si_sess _ HI _ _ _ H0 Hin) as (cnx & Hcx & Hsx).
        assert (x <> c). { intro. subst x. rewrite Hc in Hcx. inversion Hcx; subst. congruence. }
        exists cnx. rewrite get_put_other by congruence. auto.
    + intros x cnx m0 Hx Hsx. destruct (N.eq_dec c x) as [->|Hne].
      * rewrite (get_put_same _ _ _ _ _ Hc) in Hx. inversion Hx; subst. simpl in Hsx. inversion Hsx; subst.
        exists mb'. split; [eapply get_put_same; eauto|]. apply Hsids. right. reflexivity.
      * rewrite get_put_other in Hx by assumption.
        destruct (si_sel _ HI _ _ _ Hx Hsx) as (mb0 & H0 & Hin).
        destruct (N.eq_dec m m0) as [->|Hnm].
        -- rewrite Hm in H0. inversion H0; subst. exists mb'. split; [eapply get_put_same; eauto|].
           apply Hsids. left. assumption.
        -- exists mb0. rewrite get_put_other by assumption. auto.
    + rewrite (si_crash _ HI). reflexivity.
  - unfold st'. rewrite view_of_eq, sel_of_put_conn by assumption. rewrite N.eqb_refl. simpl.
    rewrite (get_put_same _ _ _ _ _ Hm). unfold view_in. rewrite Hsv. reflexivity.
  - simpl. apply put_length.
  - intros c' Hne. split; [|split].
    + unfold st'. rewrite view_of_put_conn_other by assumption.
      rewrite !view_of_eq, (sel_of_put_mb _ _ _ _ _ _ Hm).
      destruct (sel_of st c') as [[m0 mb0]|] eqn:Es'; [|reflexivity].
      destruct (m0 =? m) eqn:E; [|reflexivity].
      apply N.eqb_eq in E. subst m0. apply sel_of_some in Es'. destruct Es' as (cn' & _ & _ & H3).
      rewrite Hm in H3. inversion H3; subst. unfold view_in. rewrite Hoth by assumption. reflexivity.
    + simpl. apply get_put_other. congruence.
    + eapply same_sess_trans; [exact (same_sess_put_mb_oth st m mb mb' false c' Hm (Hoth c' Hne) Hnext)|apply same_sess_put_conn; assumption].
Qed.

(* ---- SEARCH results ------------------------------------------------------------------------------- *)
Lemma ins_sorted_in : forall x l y, In y (ins_sorted x l) -> y = x \/ In y l.
Proof.
  induction l as [|z r IH]; intros y H; simpl in H.
  - destruct H as [H|[]]; auto.
  - destruct (x <? z).
    + destruct H as [H|H]; auto.
    + destruct (x =? z); [auto|]. destruct H as [H|H]; [right; left; assumption|].
      apply IH in H. destruct H; [auto|right; right; assumption].
Qed.
Lemma sort_nums_in : forall l y, In y (sort_nums l) -> In y l.
Proof.
  intros l y. unfold sort_nums.
  assert (G : forall l acc, In y (fold_left (fun a x => ins_sorted x a) l acc) -> In y l \/ In y acc).
  { induction l0 as [|x r IH]; intros acc H; simpl in H; [auto|].
    apply IH in H. destruct H as [H|H]; [left; right; assumption|].
    apply ins_sorted_in in H. destruct H as [->|H]; [left; left; reflexivity|auto]. }
  intro H. apply G in H. destruct H as [H|[]]. assumption.
Qed.

Lemma nth1_app_mid : forall (pre : list N) x post, nth1 (pre ++ x :: post) (len pre + 1) = Some x.
Proof.
  intros pre x post. unfold nth1, len. replace (N.of_nat (length pre) + 1 =? 0) with false by lia.
  replace (N.to_nat (N.of_nat (length pre) + 1 - 1)) with (length pre) by lia.
  rewrite nth_error_app2 by lia. rewrite Nat.sub_diag. reflexivity.
Qed.

Lemma search_loop_range : forall sq uq dq c mb sv, MbInv mb -> sess_of mb c = Some sv ->
  forall ms pre, mb_msgs mb = pre ++ ms ->
  Forall (fun n => in_range (len (s_view sv)) n = true)
         (search_loop false sq uq dq c ms (len pre + 1) mb).
Proof.
  intros sq uq dq c mb sv Hmb Hsv. induction ms as [|m r IH]; intros pre Hm.
  - constructor.
  - assert (Hr : Forall (fun n => in_range (len (s_view sv)) n = true)
                        (search_loop false sq uq dq c r (len pre + 1 + 1) mb)).
    { specialize (IH (pre ++ [m])). rewrite <- app_assoc in IH. specialize (IH Hm).
      replace (len (pre ++ [m]) + 1) with (len pre + 1 + 1) in IH
        by (unfold len; rewrite app_length; simpl; lia).
      exact IH. }
    cbn [search_loop].
    match goal with |- context [if ?b then _ else _] => destruct b end; [|exact Hr].
    destruct (enc mb c (len pre + 1) =? 0) eqn:E; [exact Hr|]. constructor; [|exact Hr].
    assert (Hn : nth1 (uids_of mb) (len pre + 1) = Some (m_uid m)).
    { unfold uids_of. rewrite Hm, map_app. simpl.
      replace (len pre) with (len (map m_uid pre)) by (unfold len; rewrite map_length; reflexivity).
      apply nth1_app_mid. }
    assert (He : enc mb c (len pre + 1) <> 0) by lia.
    pose proof (enc_nth1 _ _ _ _ _ Hmb Hsv Hn He) as Hv.
    apply nth1_range in Hv. set (n := enc mb c (len pre + 1)) in *. clearbody n.
    unfold in_range, len. lia.
Qed.

Lemma mb_search_range : forall sq uq dq c mb sv, MbInv mb -> sess_of mb c = Some sv ->
  forallb (in_range (len (s_view sv))) (mb_search false sq uq dq c mb) = true.
Proof.
  intros sq uq dq c mb sv Hmb Hsv. apply forallb_forall. intros x Hx.
  unfold mb_search in Hx. apply sort_nums_in in Hx.
  pose proof (search_loop_range sq uq dq c mb sv Hmb Hsv (mb_msgs mb) [] eq_refl) as H.
  rewrite Forall_forall in H. apply H. exact Hx.
Qed.


Definition ostate := (option (list N) * list N * list N)%type.

(* [hspec st c ctx st' evs]: from st, writing evs to connection c in answer to ctx leads to st';
   the observer with identity accepts evs and is led from c's session in st to c's session in st' *)
Definition hspec (st : sys) (c : N) (ctx : option cmd) (st' : sys) (evs : list ev) : Prop :=
  SysInv st' /\
  length (s_conns st') = length (s_conns st) /\
  (forall g t, J st c g t -> exists g' t',
     fold_opt ev_gone (view_of st c, g, t) (map (pair ctx) evs) = Some (view_of st' c, g', t') /\
     J st' c g' t') /\
  (forall c', c' <> c -> view_of st' c' = view_of st c' /\ get (s_conns st') c' = get (s_conns st) c' /\
                         same_sess st st' c').

Lemma hspec_refl : forall st c ctx, SysInv st -> hspec st c ctx st [].
Proof.
  intros. unfold hspec. split; [assumption|]. split; [reflexivity|]. split.
  - intros g t HJ. exists g, t. split; [reflexivity|assumption].
  - intros. split; [reflexivity|]. split; [reflexivity|apply same_sess_refl].
Qed.

Lemma hspec_trans : forall st c ctx st1 e1 st2 e2,
  hspec st c ctx st1 e1 -> hspec st1 c ctx st2 e2 -> hspec st c ctx st2 (e1 ++ e2).
Proof.
  intros st c ctx st1 e1 st2 e2 (A1 & B1 & C1 & D1) (A2 & B2 & C2 & D2).
  unfold hspec. split; [assumption|]. split; [congruence|]. split.
  - intros g t HJ. destruct (C1 g t HJ) as (g1 & t1 & F1 & J1).
    destruct (C2 g1 t1 J1) as (g2 & t2 & F2 & J2). exists g2, t2. split; [|assumption].
    rewrite map_app. rewrite (fold_opt_app _ _ _ _ _ _ _ F1). assumption.
  - intros c' Hc'. destruct (D1 c' Hc') as (X1 & Y1 & Z1). destruct (D2 c' Hc') as (X2 & Y2 & Z2).
    split; [congruence|]. split; [congruence|]. eapply same_sess_trans; eauto.
Qed.

(* events that leave the observer where it is *)
Definition neutral (ctx : option cmd) (v : option (list N)) (evs : list ev) : Prop :=
  forall g t, fold_opt ev_gone (v, g, t) (map (pair ctx) evs) = Some (v, g, t).

Lemma hspec_neutral : forall st c ctx evs, SysInv st -> neutral ctx (view_of st c) evs ->
  hspec st c ctx st evs.
Proof.
  intros st c ctx evs HI Hn. unfold hspec. split; [assumption|]. split; [reflexivity|]. split.
  - intros g t HJ. exists g, t. split; [apply Hn|assumption].
  - intros. split; [reflexivity|]. split; [reflexivity|apply same_sess_refl].
Qed.

Lemma neutral_nil : forall ctx v, neutral ctx v [].
Proof. intros ctx v g t. reflexivity. Qed.

Lemma neutral_app : forall ctx v e1 e2, neutral ctx v e1 -> neutral ctx v e2 -> neutral ctx v (e1 ++ e2).
Proof.
  intros ctx v e1 e2 H1 H2 g t. rewrite map_app.
  rewrite (fold_opt_app _ _ _ _ _ _ _ (H1 g t)). apply H2.
Qed.

Lemma neutral_fetches : forall ctx v evs,
  Forall (fun e => exists n uid d, e = EvFetch n uid d /\ nth1 v n = Some uid) evs ->
  neutral ctx (Some v) evs.
Proof.
  intros ctx v evs H g t. induction H as [|e r He Hr IH]; [reflexivity|].
  destruct He as (n & uid & d & -> & Hn). cbn [map fold_opt ev_gone ev_view snd].
  rewrite Hn. cbn [oN_eqb]. rewrite N.eqb_refl. exact IH.
Qed.

Lemma neutral_done : forall ctx v s d, is_ok s && is_unselect ctx = false -> neutral ctx v [EvDone s d].
Proof.
  intros ctx v s d H g t. cbn [map fold_opt ev_gone ev_view snd]. rewrite H.
  destruct v; reflexivity.
Qed.

Lemma neutral_search : forall ctx l uidk nums,
  (uidk = false -> forallb (in_range (len l)) nums = true) -> neutral ctx (Some l) [EvSearch uidk nums].
Proof.
  intros ctx l uidk nums H g t. cbn [map fold_opt ev_gone ev_view snd].
  destruct uidk; [reflexivity|]. rewrite (H eq_refl). reflexivity.
Qed.

Lemma neutral_copyuid : forall ctx v s d, neutral ctx v [EvCopyUid s d].
Proof. intros ctx v s d g t. cbn [map fold_opt ev_gone ev_view snd]. destruct v; reflexivity. Qed.
Lemma neutral_cont : forall ctx v, neutral ctx v [EvCont].
Proof. intros ctx v g t. cbn [map fold_opt ev_gone ev_view snd]. destruct v; reflexivity. Qed.

(* a mailbox operation that changes nobody's list or bound *)
Lemma hspec_mbop : forall st c ctx m mb mb', SysInv st -> get (s_mbs st) m = Some mb ->
  MbInv mb' -> views mb' = views mb -> hspec st c ctx (put_mb st m mb' false) [].
Proof.
  intros st c ctx m mb mb' HI Hm Hmb' Hv.
  assert (Hvo : forall c', view_of (put_mb st m mb' false) c' = view_of st c').
  { intros. eapply view_of_put_mb_same; eauto. intros. apply views_view_in. assumption. }
  unfold hspec. split.
  - eapply put_mb_inv; eauto. apply sids_iff_of_views. assumption.
  - split; [reflexivity|]. split.
    + intros g t HJ. exists g, t. split; [simpl; rewrite Hvo; reflexivity|].
      eapply J_same_sess; [|exact HJ]. eapply same_sess_put_mb; eauto.
    + intros c' _. split; [apply Hvo|]. split; [reflexivity|]. eapply same_sess_put_mb; eauto.
Qed.

(* Conn.poll *)
Lemma hspec_poll : forall st c ctx allow st' evs, SysInv st ->
  (nonuid_fss ctx = true -> allow = false) -> sys_poll st c allow = (st', evs) ->
  hspec st c ctx st' evs /\
  (allow = true -> forall m mb', sel_of st' c = Some (m, mb') -> view_of st' c = Some (uids_of mb')) /\
  s_conns st' = s_conns st.
Proof.
  intros st c ctx allow st' evs HI Hctx Hp. unfold sys_poll in Hp.
  destruct (sel_of st c) as [[m mb]|] eqn:Es.
  2:{ inversion Hp; subst. split; [apply hspec_refl; assumption|]. split; [|reflexivity].
      intros _ m mb' H. congruence. }
  destruct (sel_sess _ _ _ _ HI Es) as (Hmb & sv & Hsv).
  destruct (mb_poll_ok mb c allow sv Hmb Hsv) as (em & rest & t' & Hstep & Hq & Hmb' & Hsv' & Hoth & Hsids & Hall & Hev).
  rewrite Hstep in Hp. inversion Hp; subst; clear Hp.
  pose proof Es as Es0. apply sel_of_some in Es. destruct Es as (cn & Hc & Hsel & Hm).
  assert (HI' : SysInv (put_mb st m (with_tr mb t') false)).
  { eapply put_mb_inv; eauto. intros x. rewrite Hsids. tauto. }
  assert (Hsel' : sel_of (put_mb st m (with_tr mb t') false) c = Some (m, with_tr mb t')).
  { rewrite (sel_of_put_mb _ _ _ _ _ _ Hm), Es0, N.eqb_refl. reflexivity. }
  assert (Hview' : view_of (put_mb st m (with_tr mb t') false) c = Some (replay (s_view sv) em)).
  { rewrite view_of_eq, Hsel'. unfold view_in. rewrite Hsv'. reflexivity. }
  assert (Hview : view_of st c = Some (s_view sv)).
  { rewrite view_of_eq, Es0. unfold view_in. rewrite Hsv. reflexivity. }
  assert (Hothers : forall c', c' <> c ->
            view_of (put_mb st m (with_tr mb t') false) c' = view_of st c' /\
            same_sess st (put_mb st m (with_tr mb t') false) c').
  { intros c' Hc'. split.
    - rewrite !view_of_eq, (sel_of_put_mb _ _ _ _ _ _ Hm).
      destruct (sel_of st c') as [[m0 mb0]|] eqn:Es'; [|reflexivity].
      destruct (m0 =? m) eqn:E; [|reflexivity].
      apply N.eqb_eq in E. subst m0. apply sel_of_some in Es'. destruct Es' as (cn' & _ & _ & H3).
      rewrite Hm in H3. inversion H3; subst. unfold view_in. rewrite Hoth by assumption. reflexivity.
    - intros m1 mb1 sv1 Hs1 Hsv1. rewrite (sel_of_put_mb _ _ _ _ _ _ Hm) in Hs1.
      destruct (sel_of st c') as [[m0 mb0]|] eqn:Es'; [|discriminate].
      destruct (m0 =? m) eqn:E.
      + apply N.eqb_eq in E. subst m0. inversion Hs1; subst m1 mb1.
        pose proof Es' as Es''. apply sel_of_some in Es''. destruct Es'' as (cn' & _ & _ & H3).
        rewrite Hm in H3. inversion H3; subst mb0. rewrite Hoth in Hsv1 by assumption.
        exists mb, sv1. repeat split; auto; try (symmetry; apply bnd_with_tr).
      + inversion Hs1; subst m1 mb1. exists mb0, sv1. auto. }
  split; [|split; [|reflexivity]].
  - unfold hspec. split; [assumption|]. split; [reflexivity|]. split.
    + intros g t HJ. destruct (HJ _ _ _ Es0 Hsv) as (Jb & Jp & Jn).
      pose proof (mb_qinv _ _ _ Hmb Hsv) as Hqi. rewrite Hq in Hqi.
      assert (Hqok : qok (s_view sv) em).
      { pose proof (mi_qok _ Hmb sv (proj2 (sess_of_id _ _ _ Hsv))) as Hk. rewrite Hq in Hk.
        apply qok_app in Hk. tauto. }
      assert (Hexp : nonuid_fss ctx = true -> forallb (fun u => negb (is_expunge u)) em = true).
      { intro Hf. specialize (Hctx Hf). subst allow.
        pose proof Hstep as Hst. cbn [step] in Hst. unfold sess_of in Hsv. rewrite Hsv in Hst.
        destruct (poll_split false (s_queue sv)) as [em0 rest0] eqn:Eps.
        destruct (existsb bad_update em0); inversion Hst; subst.
        unfold poll_split in Eps. apply TrackerProofs.split_at_expunge_spec in Eps. tauto. }
      destruct (poll_events_gone em rest _ _ _ _ ctx g t Hqi Hqok Hexp Jb Jp Jn) as (g' & t1 & Hf & Fb & Fp & Fn).
      exists g', t1. split.
      * rewrite Hview, Hview', map_map. exact Hf.
      * intros m1 mb1 sv1 Hs1 Hsv1. rewrite Hsel' in Hs1. inversion Hs1; subst m1 mb1.
        rewrite Hsv' in Hsv1. inversion Hsv1; subst sv1. cbn [s_view].
        rewrite bnd_with_tr, (mb_poll_bnd _ _ _ _ _ _ _ Hmb Hsv Hstep Hq). auto.
    + intros c' Hc'. destruct (Hothers c' Hc') as [A B]. split; [assumption|]. split; [reflexivity|assumption].
  - intros Ha m0 mb' Hs. destruct (Hall Ha) as [_ Hr]. rewrite Hsel' in Hs. inversion Hs; subst m0 mb'.
    rewrite Hview', Hr. reflexivity.
Qed.

(* ---- the command handlers -------------------------------------------------------------------------- *)
Lemma view_of_sel : forall st c m mb sv, sel_of st c = Some (m, mb) -> sess_of mb c = Some sv ->
  view_of st c = Some (s_view sv).
Proof. intros st c m mb sv Es Hsv. rewrite view_of_eq, Es. unfold view_in. rewrite Hsv. reflexivity. Qed.

Lemma hspec_done : forall st c ctx s d, SysInv st -> is_ok s && is_unselect ctx = false ->
  hspec st c ctx st [EvDone s d].
Proof. intros. apply hspec_neutral; [assumption|]. apply neutral_done. assumption. Qed.

Lemma hspec_poll_done : forall st c ctx allow st' pevs s d, SysInv st ->
  (nonuid_fss ctx = true -> allow = false) -> is_unselect ctx = false ->
  sys_poll st c allow = (st', pevs) -> hspec st c ctx st' (pevs ++ [EvDone s d]).
Proof.
  intros st c ctx allow st' pevs s d HI Hctx Hu Hp.
  destruct (hspec_poll _ _ ctx _ _ _ HI Hctx Hp) as (H1 & _ & _).
  eapply hspec_trans; [exact H1|]. destruct H1 as (HI' & _). apply hspec_done; [assumption|].
  rewrite Hu. apply andb_false_r.
Qed.

(* a mailbox operation on the selected mailbox that changes nobody's list, the responses it
   writes (acceptable in the connection's current list), then the poll and the completion *)
Lemma hspec_op_poll_done : forall st c ctx m mb mb' evs allow st' pevs s d sv,
  SysInv st -> sel_of st c = Some (m, mb) -> sess_of mb c = Some sv ->
  MbInv mb' -> views mb' = views mb ->
  neutral ctx (Some (s_view sv)) evs ->
  (nonuid_fss ctx = true -> allow = false) -> is_unselect ctx = false ->
  sys_poll (put_mb st m mb' false) c allow = (st', pevs) ->
  hspec st c ctx st' (evs ++ pevs ++ [EvDone s d]).
Proof.
  intros st c ctx m mb mb' evs allow st' pevs s d sv HI Es Hsv Hmb' Hv Hn Hctx Hu Hp.
  pose proof Es as Es0. apply sel_of_some in Es0. destruct Es0 as (cn & Hc & Hsel & Hm).
  pose proof (hspec_mbop st c ctx m mb mb' HI Hm Hmb' Hv) as H1.
  replace (evs ++ pevs ++ [EvDone s d]) with ([] ++ evs ++ pevs ++ [EvDone s d]) by reflexivity.
  eapply hspec_trans; [exact H1|]. destruct H1 as (HI1 & _).
  assert (Hv1 : view_of (put_mb st m mb' false) c = view_of st c).
  { eapply view_of_put_mb_same; eauto. intros. apply views_view_in. assumption. }
  eapply hspec_trans.
  - apply hspec_neutral; [assumption|]. rewrite Hv1. rewrite (view_of_sel _ _ _ _ _ Es Hsv). exact Hn.
  - eapply hspec_poll_done; eauto.
Qed.

Lemma put_conn_idle_ok : forall st c cn b r, SysInv st -> get (s_conns st) c = Some cn ->
  SysInv (put_conn st c (mkConn (c_sel cn) b r)) /\
  (forall c', sel_of (put_conn st c (mkConn (c_sel cn) b r)) c' = sel_of st c') /\
  (forall c', c' <> c -> get (s_conns (put_conn st c (mkConn (c_sel cn) b r))) c' = get (s_conns st) c').
Proof.
  intros st c cn b r HI Hc.
  assert (Hcne : get (s_conns st) c <> None) by congruence.
  split; [|split].
  - constructor; simpl.
    + intros. eapply si_mb; eauto.
    + intros m mb x Hm Hin. destruct (si_sess _ HI _ _ _ Hm Hin) as (cnx & Hcx & Hsx).
      destruct (N.eq_dec c x) as [->|Hne].
      * rewrite Hc in Hcx. inversion Hcx; subst. exists (mkConn (c_sel cnx) b r).
        split; [eapply get_put_same; eauto|assumption].
      * exists cnx. rewrite get_put_other by assumption. auto.
    + intros x cnx m Hx Hsx. destruct (N.eq_dec c x) as [->|Hne].
      * rewrite (get_put_same _ _ _ _ _ Hc) in Hx. inversion Hx; subst. simpl in Hsx.
        eapply si_sel; eauto.
      * rewrite get_put_other in Hx by assumption. eapply si_sel; eauto.
    + apply (si_crash _ HI).
  - intros c'. rewrite sel_of_put_conn by assumption.
    destruct (c' =? c) eqn:E; [|reflexivity]. apply N.eqb_eq in E. subst c'.
    simpl. unfold sel_of. rewrite Hc. reflexivity.
  - intros c' Hne. simpl. apply get_put_other. congruence.
Qed.

Lemma hspec_set_idle : forall st c ctx cn b r evs, SysInv st -> get (s_conns st) c = Some cn ->
  neutral ctx (view_of st c) evs -> hspec st c ctx (put_conn st c (mkConn (c_sel cn) b r)) evs.
Proof.
  intros st c ctx cn b r evs HI Hc Hn. destruct (put_conn_idle_ok st c cn b r HI Hc) as (HI' & Hs & Hg).
  assert (Hv : forall c', view_of (put_conn st c (mkConn (c_sel cn) b r)) c' = view_of st c').
  { intros. rewrite !view_of_eq, Hs. reflexivity. }
  assert (Hss : forall c', same_sess st (put_conn st c (mkConn (c_sel cn) b r)) c').
  { intros c' m mb sv H1 H2. rewrite Hs in H1. exists mb, sv. auto. }
  unfold hspec. split; [assumption|]. split; [simpl; apply put_length|]. split.
  - intros g t HJ. exists g, t. split; [rewrite Hv; apply Hn|]. eapply J_same_sess; eauto.
  - intros c' Hne. split; [apply Hv|]. split; [apply Hg; assumption|apply Hss].
Qed.

(* leaving the selected mailbox: the responses end the observer's list *)
Lemma hspec_unselect : forall st c ctx m mb evs, SysInv st -> sel_of st c = Some (m, mb) ->
  (evs = [EvClosed] \/ (is_unselect ctx = true /\ exists d, evs = [EvDone StOK d])) ->
  hspec st c ctx (sys_unselect st c) evs.
Proof.
  intros st c ctx m mb evs HI Es Hev.
  destruct (sys_unselect_ok st c m mb HI Es) as (HI1 & Hv1 & Hc1 & Hl1 & Ho1).
  unfold hspec. split; [assumption|]. split; [assumption|]. split; [|exact Ho1].
  intros g t _. exists g, t. split.
  - rewrite Hv1. destruct Hev as [->|(Hu & d & ->)]; cbn [map fold_opt ev_gone ev_view snd].
    + destruct (view_of st c); reflexivity.
    + cbn [is_ok]. rewrite Hu. cbn [andb]. destruct (view_of st c); reflexivity.
  - intros m1 mb1 sv1 Hs1 _. unfold sel_of in Hs1. rewrite Hc1 in Hs1. discriminate.
Qed.

(* selecting a mailbox on a connection that has none selected *)
Lemma hspec_select : forall st c cn ctx m mb mb' cr ro s d, SysInv st -> get (s_conns st) c = Some cn ->
  c_sel cn = None -> get (s_mbs st) m = Some mb -> mb_do mb (ONewSession c) = (mb', cr) ->
  is_select ctx = true -> is_unselect ctx = false ->
  hspec st c ctx (put_conn (put_mb st m mb' cr) c (mkConn (Some m) false ro))
        ([EvExists (len (mb_msgs mb)) (t_L (mb_tr mb)); EvUidNext (mb_next mb)] ++ [EvDone s d]).
Proof.
  intros st c cn ctx m mb mb' cr ro s d HI Hc Hsel Hm Hdo Hctx Hu.
  destruct (sys_select_ok st c cn m mb mb' cr ro HI Hc Hsel Hm Hdo) as (HI2 & Hv2 & Hl2 & Ho2 & ->).
  pose proof (si_mb _ HI _ _ Hm) as Hmb.
  assert (Hvn : view_of st c = None).
  { rewrite view_of_eq. unfold sel_of. rewrite Hc, Hsel. reflexivity. }
  unfold hspec. split; [assumption|]. split; [assumption|]. split; [|exact Ho2].
  intros g t _. exists [], (uids_of mb). split.
  - rewrite Hvn, Hv2. cbn [app map fold_opt ev_gone ev_view snd]. rewrite Hctx.
    rewrite (mi_L _ Hmb). unfold uids_of at 1, len. rewrite map_length, N.eqb_refl.
    cbn [andb fold_opt ev_gone ev_view snd]. rewrite Hu, andb_false_r. reflexivity.
  - intros m1 mb1 sv1 Hs1 Hsv1.
    assert (Hcne : get (s_conns (put_mb st m mb' false)) c <> None) by (simpl; congruence).
    rewrite sel_of_put_conn in Hs1 by assumption. rewrite N.eqb_refl in Hs1. cbn [c_sel] in Hs1.
    simpl in Hs1. rewrite (get_put_same _ _ _ _ _ Hm) in Hs1. inversion Hs1; subst m1 mb1.
    assert (Hnin : ~ In c (sids mb)).
    { intro Hin. destruct (si_sess _ HI _ _ _ Hm Hin) as (cn0 & Hc0 & Hs0). congruence. }
    destruct (mb_new_ok mb c Hmb Hnin) as (mb2 & Hdo2 & _ & Hsv2 & _ & _ & _ & Hnext).
    rewrite Hdo in Hdo2. inversion Hdo2; subst mb2. rewrite Hsv2 in Hsv1. inversion Hsv1; subst sv1.
    cbn [s_view]. unfold bnd. cbn [s_queue added]. rewrite Hnext, N.sub_0_r.
    destruct (mb_uids_bound _ Hmb) as [Hb Hnd]. rewrite app_nil_r. auto.
Qed.

Ltac inv_pair H := inversion H; subst; clear H.

Lemma handle_cmd_ok : forall st c cn cm st' evs, SysInv st -> get (s_conns st) c = Some cn ->
  handle_cmd st c cm = (st', evs) -> hspec st c (Some cm) st' evs.
Proof.
  intros st c cn cm st' evs HI Hc Hh.
  destruct cm; cbn [handle_cmd] in Hh.
  - (* CAppend *)
    destruct (get (s_mbs st) mb) as [mbx|] eqn:Em.
    2:{ inv_pair Hh. apply hspec_done; auto. }
    destruct (mb_append mbx del) as [[mb' uid] cr] eqn:Ea.
    destruct (mb_append_ok _ _ _ _ _ (si_mb _ HI _ _ Em) Ea) as (Hmb' & -> & Hv & _).
    destruct (sys_poll (put_mb st mb mb' false) c true) as [st1 pevs] eqn:Ep. inv_pair Hh.
    pose proof (hspec_mbop st c (Some (CAppend mb del)) mb mbx mb' HI Em Hmb' Hv) as H1.
    replace (pevs ++ [EvDone StOK (DAppendUid uid)]) with ([] ++ pevs ++ [EvDone StOK (DAppendUid uid)]) by reflexivity.
    eapply hspec_trans; [exact H1|]. destruct H1 as (HI1 & _).
    eapply hspec_poll_done with (allow := true); [assumption|cbn; discriminate|reflexivity|exact Ep].
  - (* CSelect *)
    destruct (sel_of st c) as [[m0 mb0]|] eqn:Es.
    + pose proof (hspec_unselect st c (Some (CSelect mb ro)) m0 mb0 [EvClosed] HI Es (or_introl eq_refl)) as H1.
      destruct (sys_unselect_ok st c m0 mb0 HI Es) as (HI1 & Hv1 & Hc1 & Hl1 & Ho1).
      set (st1 := sys_unselect st c) in *.
      destruct (get (s_mbs st1) mb) as [mbx|] eqn:Em.
      * destruct (mb_do mbx (ONewSession c)) as [mb' cr] eqn:Ed. inv_pair Hh.
        match goal with |- hspec _ _ _ _ (?e :: ?l) => change (e :: l) with ([e] ++ l) end.
        eapply hspec_trans; [exact H1|].
        eapply hspec_select with (cn := mkConn None false false); eauto.
      * inv_pair Hh.
        match goal with |- hspec _ _ _ _ (?e :: ?l) => change (e :: l) with ([e] ++ l) end.
        eapply hspec_trans; [exact H1|]. apply hspec_done; auto.
    + pose proof (sel_of_none_conn _ _ _ HI Hc Es) as Hsel.
      destruct (get (s_mbs st) mb) as [mbx|] eqn:Em.
      * destruct (mb_do mbx (ONewSession c)) as [mb' cr] eqn:Ed. inv_pair Hh.
        eapply hspec_select with (cn := cn); eauto.
      * inv_pair Hh. apply hspec_done; auto.
  - (* CUnselect *)
    destruct (sel_of st c) as [[m0 mb0]|] eqn:Es.
    + inv_pair Hh. eapply hspec_unselect; eauto. right. split; [reflexivity|eexists; reflexivity].
    + inv_pair Hh. apply hspec_done; auto.
  - (* CClose *)
    destruct (sel_of st c) as [[m0 mb0]|] eqn:Es.
    + destruct (ro_of st c) eqn:Er.
      { inv_pair Hh. eapply hspec_unselect; eauto. right. split; [reflexivity|eexists; reflexivity]. }
      destruct (mb_expunge m_del mb0) as [mb' cr] eqn:Ee.
      destruct (sel_sess _ _ _ _ HI Es) as (Hmb0 & sv & Hsv).
      destruct (mb_expunge_ok _ _ _ _ Hmb0 Ee) as (Hmb' & -> & Hv).
      inv_pair Hh. pose proof Es as Es0. apply sel_of_some in Es0. destruct Es0 as (cn0 & Hc0 & Hsel0 & Hm0).
      pose proof (hspec_mbop st c (Some CClose) m0 mb0 mb' HI Hm0 Hmb' Hv) as H1.
      replace (done StOK) with ([] ++ done StOK) by reflexivity.
      eapply hspec_trans; [exact H1|]. destruct H1 as (HI1 & _).
      assert (Es1 : sel_of (put_mb st m0 mb' false) c = Some (m0, mb')).
      { rewrite (sel_of_put_mb _ _ _ _ _ _ Hm0), Es, N.eqb_refl. reflexivity. }
      eapply hspec_unselect; eauto. right. split; [reflexivity|eexists; reflexivity].
    + inv_pair Hh. apply hspec_done; auto.
  - (* CNoop *)
    destruct (sys_poll st c true) as [st1 pevs] eqn:Ep. inv_pair Hh.
    eapply hspec_poll_done with (allow := true); [assumption|cbn; discriminate|reflexivity|exact Ep].
  - (* CIdle *)
    rewrite Hc in Hh. inv_pair Hh. apply hspec_set_idle; auto. apply neutral_cont.
  - (* CDone *)
    inv_pair Hh. apply hspec_refl. assumption.
  - (* CFetch *)
    destruct (sel_of st c) as [[m0 mb0]|] eqn:Es.
    2:{ inv_pair Hh. apply hspec_done; auto. }
    destruct (sel_sess _ _ _ _ HI Es) as (Hmb0 & sv & Hsv).
    set (seen' := seen && negb (ro_of st c)) in *.
    destruct (mb_fetch uidk wflags seen' s c mb0) as [[mb' fevs] cr] eqn:Ef.
    destruct (mb_fetch_ok _ _ _ _ _ _ _ _ _ Hmb0 Ef) as (Hmb' & -> & Hv & _ & Hev).
    destruct (sys_poll (put_mb st m0 mb' false) c uidk) as [st1 pevs] eqn:Ep. inv_pair Hh.
    eapply hspec_op_poll_done with (allow := uidk) (mb := mb0) (sv := sv); eauto.
    + apply neutral_fetches. apply Hev. assumption.
    + cbn. destruct uidk; [discriminate|reflexivity].
  - (* CStore *)
    destruct (sel_of st c) as [[m0 mb0]|] eqn:Es.
    2:{ inv_pair Hh. apply hspec_done; auto. }
    destruct (ro_of st c) eqn:Er.
    { inv_pair Hh. apply hspec_done; auto. }
    destruct (sel_sess _ _ _ _ HI Es) as (Hmb0 & sv & Hsv).
    destruct (mb_store uidk s o c mb0) as [mb1 c1] eqn:Est.
    destruct (mb_store_ok _ _ _ _ _ _ _ Hmb0 Est) as (Hmb1 & -> & Hv1 & _).
    destruct silent.
    + destruct (sys_poll (put_mb st m0 mb1 (false || false)) c uidk) as [st1 pevs] eqn:Ep. inv_pair Hh.
      cbn [orb] in Ep. eapply hspec_op_poll_done with (allow := uidk) (mb := mb0) (sv := sv) (evs := []); eauto.
      * apply neutral_nil.
      * cbn. destruct uidk; [discriminate|reflexivity].
    + destruct (mb_fetch uidk true false s c mb1) as [[mb2 fevs] c2] eqn:Ef.
      destruct (mb_fetch_ok _ _ _ _ _ _ _ _ _ Hmb1 Ef) as (Hmb2 & -> & Hv2 & _ & Hev).
      destruct (sys_poll (put_mb st m0 mb2 (false || false)) c uidk) as [st1 pevs] eqn:Ep. inv_pair Hh.
      cbn [orb] in Ep.
      pose proof (views_view _ _ c Hv1) as Hvv. rewrite Hsv in Hvv.
      destruct (sess_of mb1 c) as [sv1|] eqn:Esv1; [|discriminate]. simpl in Hvv. inversion Hvv as [Hvs].
      eapply hspec_op_poll_done with (allow := uidk) (mb := mb0) (sv := sv); eauto.
      * congruence.
      * apply neutral_fetches. rewrite <- Hvs. apply Hev. reflexivity.
      * cbn. destruct uidk; [discriminate|reflexivity].
  - (* CExpunge *)
    destruct (sel_of st c) as [[m0 mb0]|] eqn:Es.
    2:{ inv_pair Hh. apply hspec_done; auto. }
    destruct (ro_of st c) eqn:Er.
    { destruct (sys_poll st c true) as [st1 pevs] eqn:Ep. inv_pair Hh.
      eapply hspec_poll_done with (allow := true); [assumption|cbn; discriminate|reflexivity|exact Ep]. }
    destruct (sel_sess _ _ _ _ HI Es) as (Hmb0 & sv & Hsv).
    destruct (mb_expunge m_del mb0) as [mb' cr] eqn:Ee.
    destruct (mb_expunge_ok _ _ _ _ Hmb0 Ee) as (Hmb' & -> & Hv).
    destruct (sys_poll (put_mb st m0 mb' false) c true) as [st1 pevs] eqn:Ep. inv_pair Hh.
    eapply hspec_op_poll_done with (allow := true) (mb := mb0) (sv := sv) (evs := []); eauto; try reflexivity; try (cbn; discriminate); try apply neutral_nil.
  - (* CUidExpunge *)
    destruct (sel_of st c) as [[m0 mb0]|] eqn:Es.
    2:{ inv_pair Hh. apply hspec_done; auto. }
    destruct (ro_of st c) eqn:Er.
    { inv_pair Hh. apply hspec_done; auto. }
    destruct (sel_sess _ _ _ _ HI Es) as (Hmb0 & sv & Hsv).
    match type of Hh with context [mb_expunge ?g mb0] => destruct (mb_expunge g mb0) as [mb' cr] eqn:Ee end.
    destruct (mb_expunge_ok _ _ _ _ Hmb0 Ee) as (Hmb' & -> & Hv).
    destruct (sys_poll (put_mb st m0 mb' false) c true) as [st1 pevs] eqn:Ep. inv_pair Hh.
    eapply hspec_op_poll_done with (allow := true) (mb := mb0) (sv := sv) (evs := []); eauto; try reflexivity; try (cbn; discriminate); try apply neutral_nil.
  - (* CCopy *)
    destruct (sel_of st c) as [[m0 mb0]|] eqn:Es.
    2:{ inv_pair Hh. apply hspec_done; auto. }
    destruct (get (s_mbs st) dest) as [dmb|] eqn:Ed.
    2:{ inv_pair Hh. apply hspec_done; auto. }
    destruct (dest =? m0) eqn:Edm.
    { inv_pair Hh. apply hspec_done; auto. }
    destruct (mb_append_all dmb (mb_pick uidk s c mb0)) as [[dmb' duids] cr] eqn:Ea.
    destruct (mb_append_all_ok _ _ _ _ _ (si_mb _ HI _ _ Ed) Ea) as (Hd' & -> & Hv).
    destruct (sys_poll (put_mb st dest dmb' false) c true) as [st1 pevs] eqn:Ep. inv_pair Hh.
    pose proof (hspec_mbop st c (Some (CCopy uidk s dest)) dest dmb dmb' HI Ed Hd' Hv) as H1.
    match goal with |- hspec _ _ _ _ (pevs ++ [?e]) => replace (pevs ++ [e]) with ([] ++ pevs ++ [e]) by reflexivity end.
    eapply hspec_trans; [exact H1|]. destruct H1 as (HI1 & _).
    eapply hspec_poll_done with (allow := true); [assumption|cbn; discriminate|reflexivity|exact Ep].
  - (* CMove *)
    destruct (sel_of st c) as [[m0 mb0]|] eqn:Es.
    2:{ inv_pair Hh. apply hspec_done; auto. }
    destruct (ro_of st c) eqn:Er.
    { inv_pair Hh. apply hspec_done; auto. }
    destruct (get (s_mbs st) dest) as [dmb|] eqn:Ed.
    2:{ inv_pair Hh. apply hspec_done; auto. }
    destruct (dest =? m0) eqn:Edm.
    { inv_pair Hh. apply hspec_done; auto. }
    destruct (sel_sess _ _ _ _ HI Es) as (Hmb0 & sv & Hsv).
    destruct (mb_append_all dmb (mb_pick uidk s c mb0)) as [[dmb' duids] c1] eqn:Ea.
    destruct (mb_append_all_ok _ _ _ _ _ (si_mb _ HI _ _ Ed) Ea) as (Hd' & -> & Hvd).
    match type of Hh with context [mb_expunge ?g mb0] => destruct (mb_expunge g mb0) as [mb' c2] eqn:Ee end.
    destruct (mb_expunge_ok _ _ _ _ Hmb0 Ee) as (Hmb' & -> & Hv).
    destruct (sys_poll (put_mb (put_mb st dest dmb' false) m0 mb' false) c true) as [st1 pevs] eqn:Ep. inv_pair Hh.
    pose proof (hspec_mbop st c (Some (CMove uidk s dest)) dest dmb dmb' HI Ed Hd' Hvd) as H1.
    match goal with |- hspec _ _ _ _ ?l => replace l with ([] ++ l) by reflexivity end.
    eapply hspec_trans; [exact H1|]. destruct H1 as (HI1 & _ & Hf1 & _).
    assert (Es1 : sel_of (put_mb st dest dmb' false) c = Some (m0, mb0)).
    { rewrite (sel_of_put_mb _ _ _ _ _ _ Ed), Es. replace (m0 =? dest) with false by lia. reflexivity. }
    eapply hspec_op_poll_done with (allow := true) (mb := mb0) (sv := sv); eauto;
      try (cbn; discriminate); try (destruct (mb_pick uidk s c mb0); [apply neutral_nil|apply neutral_copyuid]).
  - (* CSearch *)
    destruct (sel_of st c) as [[m0 mb0]|] eqn:Es.
    2:{ inv_pair Hh. apply hspec_done; auto. }
    destruct (sel_sess _ _ _ _ HI Es) as (Hmb0 & sv & Hsv).
    destruct (sys_poll st c uidk) as [st1 pevs] eqn:Ep. inv_pair Hh.
    change (EvSearch uidk (mb_search uidk sq uq dq c mb0) :: pevs ++ done StOK)
      with ([EvSearch uidk (mb_search uidk sq uq dq c mb0)] ++ pevs ++ done StOK).
    eapply hspec_trans.
    + apply hspec_neutral; [assumption|]. rewrite (view_of_sel _ _ _ _ _ Es Hsv).
      apply neutral_search. intros ->. apply (mb_search_range _ _ _ _ _ _ Hmb0 Hsv).
    + eapply hspec_poll_done with (allow := uidk); [assumption| |reflexivity|exact Ep].
      cbn. destruct uidk; [discriminate|reflexivity].
  - (* CBad *)
    inv_pair Hh. apply hspec_done; auto.
Qed.
