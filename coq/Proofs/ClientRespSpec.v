(* Proofs/ClientRespSpec.v — what C11 demands of the data the client hands to its caller
   (declarative side; the executable model is Model/ClientResp.v).                          *)
From GoImap.Base Require Import Bytes.
From GoImap.Model Require Import NumSet ClientResp.
Open Scope N_scope.

(* the state in which the reader stopped: at end of input (Ok) or with a decoding error (Err) *)
Definition final_state (r : res unit) : option st :=
  match r with Ok _ s => Some s | Err s => Some s | Fuel => None | Crash => None end.

(* a number that names a message: nz-number *)
Definition msgnum_ok (n : N) : bool := (1 <=? n) && (n <? M32).

(* a number set a server may send in a result: canonical and without "*" *)
Definition resultset_ok (s : nset) : bool := canon s && negb (dynamic s).

Fixpoint bs_depth (b : bstruct) : nat :=
  match b with
  | BS1 _ _ _ _ msg => match msg with Some m => S (bs_depth m) | None => 1%nat end
  | BSM children _ => S (fold_right (fun c acc => Nat.max (bs_depth c) acc) O children)
  end.

Fixpoint thread_depth (t : thread) : nat :=
  match t with Thread _ subs => S (fold_right (fun c acc => Nat.max (thread_depth c) acc) O subs) end.
Fixpoint thread_nums_ok (t : thread) : bool :=
  match t with Thread chain subs => forallb msgnum_ok chain && forallb thread_nums_ok subs end.

Definition opt_ok {A} (f : A -> bool) (o : option A) : bool := match o with Some v => f v | None => true end.

Definition fitem_valid (it : fitem) : bool :=
  match it with
  | FUid u => msgnum_ok u
  | FSize n => n <? 9223372036854775808
  | FBodyStructure _ b => Nat.leb (bs_depth b) MAX_BODY_DEPTH
  | FBinarySize _ n => n <? M32
  | FModSeq m => m <? 18446744073709551616
  | _ => true
  end.

Definition rcode_valid (c : rcode) : bool :=
  match c with
  | CAppendUid v u => (v <? M32) && msgnum_ok u
  | CCopyUid v s d => (v <? M32) && resultset_ok s && resultset_ok d
  | CUidNext n => n <? M32
  | CUidValidity n => n <? M32
  | _ => true
  end.

(* the invariants of C11 on everything delivered: no sequence number or UID zero, no
   open-ended ("*") set, no nesting beyond the cap, every number inside its Go type *)
Definition ev_valid (e : ev) : bool :=
  match e with
  | EvCode _ c => rcode_valid c
  | EvExists n => n <? M32
  | EvExpunge n => msgnum_ok n
  | EvFetchBegin seq => msgnum_ok seq
  | EvFetchItem it => fitem_valid it
  | EvSearchNum n => msgnum_ok n
  | EvSortNum n => msgnum_ok n
  | EvThread t => thread_nums_ok t && Nat.leb (thread_depth t) MAX_LIST_DEPTH
  | EvESearch d =>
      opt_ok resultset_ok (es_all d) && opt_ok msgnum_ok (es_min d) && opt_ok msgnum_ok (es_max d)
      && opt_ok (fun n => n <? M32) (es_count d)
  | _ => true
  end.

(* the numbers of the untagged SEARCH responses, in arrival order *)
Fixpoint search_nums_of (log : list ev) : list N :=
  match log with
  | [] => []
  | EvSearchNum n :: r => n :: search_nums_of r
  | _ :: r => search_nums_of r
  end.
