(* Proofs/RespExtModel.v — C03: the hypotheses ext_ok on the library functions (Go's mime, time,
   net/mail, go-message) are satisfiable: a concrete, fully defined instance of the interface
   [ext] is exhibited and proved to satisfy every field of ext_ok.  (The theorems of C03 that
   assume ext_ok are therefore not vacuous.) *)
From Coq Require Import Lia ZArith NArith List Bool.
From Coq Require Import ZifyN ZifyNat ZifyBool.
From GoImap.Base Require Import Bytes.
From GoImap.Model Require Import NumSet MatchList Utf7 Wire Resp RespFetch RespCmd.
From GoImap.Proofs Require Import Utf7Spec Utf7Lemmas WireSpec WireLemmas NumSetText RespSpec.
Open Scope N_scope.
Ltac Zify.zify_post_hook ::= Z.div_mod_to_equations.

(* ---------------------------------------------------------------------------------------- *)
(* 1. encoded words: the encoder is the server's own hide_loop, the decoder a one-pass state
      machine on the bytes: "=?" opens a word (skip "=?utf-8?q?"), "?" closes one (skip "?="),
      a space separates words, "=XY" is a byte in hexadecimal, anything else is itself.       *)

Definition lt256 (n : N) : Prop := n < 256.

Definition hexv (n : N) : N := if n <? 58 then n - 48 else n - 55.

Fixpoint qdec (skip : nat) (l : list N) : list N :=
  match l with
  | [] => []
  | c :: r =>
      match skip with
      | S k => qdec k r
      | O =>
          if c =? 61 then
            match r with
            | x :: y :: _ => if x =? 63 then qdec 9 r else (16 * hexv x + hexv y) :: qdec 2 r
            | _ => []
            end
          else if c =? 63 then qdec 1 r
          else if c =? 32 then qdec 0 r
          else c :: qdec 0 r
      end
  end.

Definition enc_q (s : bytes) : bytes := map n2b (hide_loop (S (length s)) (map b2n s) 0).
Definition dec_q (s : bytes) : bytes := map n2b (qdec 0 (map b2n s)).

Lemma qdec_open : forall rest, qdec 0 (Q_OPEN ++ rest) = qdec 0 rest.
Proof. intros. vm_compute. reflexivity. Qed.

Lemma qdec_close_sp : forall rest, qdec 0 ((Q_CLOSE ++ [32]) ++ rest) = qdec 0 rest.
Proof. intros. vm_compute. reflexivity. Qed.

Lemma qdec_close : qdec 0 Q_CLOSE = [].
Proof. reflexivity. Qed.

Lemma hexv_hexdigit : forall d, d < 16 -> hexv (hexdigit d) = d.
Proof. intros d H. unfold hexv, hexdigit. destruct (d <? 10) eqn:E.
  - replace (48 + d <? 58) with true by lia. lia.
  - replace (55 + d <? 58) with false by lia. lia.
Qed.

Lemma hexdigit_range : forall d, d < 16 -> 48 <= hexdigit d /\ hexdigit d <= 70.
Proof. intros d H. unfold hexdigit. destruct (d <? 10) eqn:E; lia. Qed.

Lemma hexdigit_ne63 : forall d, hexdigit d <> 63.
Proof. intros d. unfold hexdigit. destruct (d <? 10) eqn:E; lia. Qed.

Lemma qdec_qbyte : forall n rest, n < 256 -> qdec 0 (q_byte n ++ rest) = n :: qdec 0 rest.
Proof.
  intros n rest Hn. unfold q_byte. destruct (is_alnum n) eqn:E.
  - unfold is_alnum in E. cbn [app qdec].
    replace (n =? 61) with false by lia. replace (n =? 63) with false by lia.
    replace (n =? 32) with false by lia. reflexivity.
  - assert (H1 : n / 16 < 16) by lia. assert (H2 : n mod 16 < 16) by lia.
    pose proof (hexdigit_ne63 (n / 16)) as R1.
    cbn [app qdec]. change (61 =? 61) with true. cbv iota.
    replace (hexdigit (n / 16) =? 63) with false by lia.
    rewrite (hexv_hexdigit _ H1), (hexv_hexdigit _ H2). f_equal. lia.
Qed.

Lemma qdec_content : forall l rest, Forall lt256 l ->
  qdec 0 (flat_map q_byte l ++ rest) = l ++ qdec 0 rest.
Proof.
  induction l as [|n l IH]; intros rest H; [reflexivity|].
  inversion H; subst. cbn [flat_map]. rewrite <- app_assoc, qdec_qbyte by assumption.
  rewrite IH by assumption. reflexivity.
Qed.

Lemma decode_rune_size : forall a r rn size, decode_rune (a :: r) = (rn, size) -> (1 <= size)%nat.
Proof.
  intros a r rn size. unfold decode_rune.
  repeat match goal with
         | |- context [if ?b then _ else _] => destruct b
         | |- context [match ?l with [] => _ | _ :: _ => _ end] => destruct l
         end; intros H; inversion H; lia.
Qed.

Lemma Forall_firstn_skipn : forall (P : N -> Prop) n l,
  Forall P l -> Forall P (firstn n l) /\ Forall P (skipn n l).
Proof. intros P n l H. rewrite <- (firstn_skipn n l) in H. apply Forall_app in H. exact H. Qed.

Lemma qdec_hide : forall fuel s clen, Forall lt256 s -> (length s < fuel)%nat ->
  qdec 0 (hide_loop fuel s clen) = s.
Proof.
  induction fuel as [|k IH]; intros s clen Hs Hl; [lia|].
  destruct s as [|a r]; [reflexivity|].
  cbn [hide_loop]. destruct (decode_rune (a :: r)) as [rn size] eqn:ED.
  pose proof (decode_rune_size _ _ _ _ ED) as Hsz.
  destruct (Forall_firstn_skipn _ size _ Hs) as [Hf Hk].
  assert (Hl' : (length (skipn size (a :: r)) < k)%nat).
  { rewrite skipn_length. cbn [length] in *. lia. }
  cbv zeta.
  destruct ((clen =? 0) || (63 <? clen + _)).
  - destruct (0 <? clen).
    + rewrite qdec_close_sp, qdec_open, qdec_content, IH by assumption. apply firstn_skipn.
    + cbn [app]. rewrite qdec_open, qdec_content, IH by assumption. apply firstn_skipn.
  - rewrite qdec_content, IH by assumption. apply firstn_skipn.
Qed.

Lemma qbyte_lt : forall n, n < 256 -> Forall lt256 (q_byte n).
Proof.
  intros n Hn. unfold q_byte. destruct (is_alnum n); [repeat constructor; exact Hn|].
  assert (H1 : n / 16 < 16) by lia. assert (H2 : n mod 16 < 16) by lia.
  pose proof (hexdigit_range _ H1). pose proof (hexdigit_range _ H2).
  repeat constructor; unfold lt256; lia.
Qed.

Lemma content_lt : forall l, Forall lt256 l -> Forall lt256 (flat_map q_byte l).
Proof.
  induction l as [|n l IH]; intros H; [constructor|]. inversion H; subst.
  cbn [flat_map]. apply Forall_app. split; [apply qbyte_lt; assumption|apply IH; assumption].
Qed.

Lemma qopen_lt : Forall lt256 Q_OPEN.
Proof. repeat constructor. Qed.
Lemma qclose_lt : Forall lt256 Q_CLOSE.
Proof. repeat constructor. Qed.

Lemma hide_lt : forall fuel s clen, Forall lt256 s -> Forall lt256 (hide_loop fuel s clen).
Proof.
  induction fuel as [|k IH]; intros s clen Hs; [constructor|].
  destruct s as [|a r]; [exact qclose_lt|].
  cbn [hide_loop]. destruct (decode_rune (a :: r)) as [rn size].
  destruct (Forall_firstn_skipn _ size _ Hs) as [Hf Hk].
  cbv zeta.
  destruct ((clen =? 0) || (63 <? clen + _)).
  - repeat (apply Forall_app; split); try apply qopen_lt; try (apply content_lt; assumption);
      try (apply IH; assumption).
    destruct (0 <? clen); [|constructor].
    apply Forall_app; split; [apply qclose_lt|repeat constructor].
  - apply Forall_app; split; [apply content_lt; assumption|apply IH; assumption].
Qed.

Lemma map_b2n_n2b : forall l, Forall lt256 l -> map b2n (map n2b l) = l.
Proof.
  induction l as [|n l IH]; intros H; [reflexivity|]. inversion H; subst.
  cbn [map]. rewrite b2n_n2b, IH by assumption. reflexivity.
Qed.

Lemma b2n_lt : forall s, Forall lt256 (map b2n s).
Proof.
  induction s as [|c s IH]; cbn [map]; constructor; [|exact IH].
  unfold lt256, b2n. apply N_ascii_bounded.
Qed.

Lemma dec_enc_q : forall s, dec_q (enc_q s) = s.
Proof.
  intros s. unfold dec_q, enc_q.
  rewrite map_b2n_n2b by (apply hide_lt, b2n_lt).
  rewrite qdec_hide; [apply map_n2b_b2n|apply b2n_lt|rewrite map_length; apply le_n].
Qed.

Lemma enc_q_eqq : forall s, s <> [] -> contains_eqq (enc_q s) = true.
Proof.
  intros [|a r] H; [congruence|]. unfold enc_q. cbn [length map hide_loop].
  destruct (decode_rune (b2n a :: map b2n r)) as [rn size]. cbv zeta.
  change (0 =? 0) with true. change (0 <? 0) with false. cbn [orb app].
  reflexivity.
Qed.

Lemma needs_encoding_nonnil : forall s, needs_encoding s = true -> s <> [].
Proof. intros [|a r] H; [discriminate H|discriminate]. Qed.

Lemma contains_eqq_nonnil : forall s, contains_eqq s = true -> s <> [].
Proof. intros [|a r] H; [discriminate H|discriminate]. Qed.

(* ---------------------------------------------------------------------------------------- *)
(* 2. times: twelve decimal digits for the seconds (shifted to be non-negative) followed by
      six decimal digits for the zone offset (shifted by one day)                            *)

Fixpoint digs (k : nat) (n : N) : bytes :=
  match k with O => [] | S k' => digs k' (n / 10) ++ [n2b (48 + n mod 10)] end.
Definition dval (s : bytes) : N := fold_left (fun acc c => acc * 10 + (b2n c - 48)) s 0.
Fixpoint pow10 (k : nat) : N := match k with O => 1 | S k' => 10 * pow10 k' end.

Lemma dval_snoc : forall s c, dval (s ++ [c]) = dval s * 10 + (b2n c - 48).
Proof. intros s c. unfold dval. rewrite fold_left_app. reflexivity. Qed.

Lemma dval_digs : forall k n, n < pow10 k -> dval (digs k n) = n.
Proof.
  induction k as [|k IH]; intros n H; cbn [pow10] in H.
  - cbn [digs]. unfold dval. cbn [fold_left]. lia.
  - cbn [digs]. rewrite dval_snoc. rewrite IH by lia. rewrite b2n_n2b by lia. lia.
Qed.

Lemma digs_length : forall k n, length (digs k n) = k.
Proof.
  induction k as [|k IH]; intros n; [reflexivity|].
  cbn [digs]. rewrite app_length, IH. cbn [length]. lia.
Qed.

Lemma digs_plain : forall k n,
  forallb (fun c => (32 <=? b2n c) && (b2n c <=? 126)) (digs k n) = true.
Proof.
  induction k as [|k IH]; intros n; [reflexivity|].
  cbn [digs]. rewrite forallb_app, IH. cbn [forallb]. rewrite b2n_n2b by lia.
  replace (32 <=? 48 + n mod 10) with true by lia.
  replace (48 + n mod 10 <=? 126) with true by lia. reflexivity.
Qed.

Lemma firstn_app_len : forall (A : Type) (a b : list A) k, length a = k -> firstn k (a ++ b) = a.
Proof. intros A a b k <-. apply firstn_length_app. Qed.

Lemma skipn_app_len : forall (A : Type) (a b : list A) k, length a = k -> skipn k (a ++ b) = b.
Proof. intros A a b k <-. induction a as [|x a IH]; [reflexivity|exact IH]. Qed.

Definition SEC_SHIFT : Z := 62167305600%Z.   (* 62167219200 + 86400 *)
Definition OFF_SHIFT : Z := 86400%Z.

Definition fmt_time (t : time) : bytes :=
  digs 12 (Z.to_N (t_sec t + SEC_SHIFT)) ++ digs 6 (Z.to_N (t_off t + OFF_SHIFT)).
Definition parse_time (s : bytes) : option time :=
  if Nat.eqb (length s) 18
  then Some (mkTime (Z.of_N (dval (firstn 12 s)) - SEC_SHIFT) 0 (Z.of_N (dval (skipn 12 s)) - OFF_SHIFT))
  else None.

Lemma time_ok_bounds : forall t, time_ok t = true ->
  (0 <= t_sec t + SEC_SHIFT < 1000000000000)%Z /\ (0 <= t_off t + OFF_SHIFT < 1000000)%Z.
Proof.
  intros t H. unfold time_ok in H. unfold SEC_SHIFT, OFF_SHIFT.
  repeat (apply andb_true_iff in H; destruct H as [H ?]).
  lia.
Qed.

Lemma parse_fmt_time : forall t, time_ok t = true -> parse_time (fmt_time t) = Some (time_norm t).
Proof.
  intros t H. destruct (time_ok_bounds t H) as [B1 B2].
  unfold parse_time, fmt_time.
  rewrite app_length, !digs_length. cbn [Nat.add Nat.eqb].
  rewrite firstn_app_len, skipn_app_len by apply digs_length.
  rewrite !dval_digs.
  - unfold time_norm. f_equal. f_equal; lia.
  - change (pow10 6) with 1000000. lia.
  - change (pow10 12) with 1000000000000. lia.
Qed.

Lemma fmt_time_plain : forall t, plain (fmt_time t) = true.
Proof.
  intros t. unfold plain, fmt_time.
  rewrite app_length, !digs_length, forallb_app, !digs_plain. reflexivity.
Qed.

(* ---------------------------------------------------------------------------------------- *)
(* 3. message identifiers: strip the angle brackets; a list is split where ">" is followed by
      a space or by the end of the text (an identifier contains no space, but its domain
      literal may contain ">")                                                               *)

Definition strip_angle (s : bytes) : bytes := match s with [] => [] | _ :: r => removelast r end.

Fixpoint ids_go (skip : nat) (l : bytes) : list bytes :=
  match l with
  | [] => []
  | c :: r =>
      match skip with
      | S k => ids_go k r
      | O =>
          if (b2n c =? 62) && (match r with [] => true | d :: _ => b2n d =? 32 end)
          then [] :: ids_go 2 r
          else match ids_go 0 r with [] => [[c]] | w :: ws => (c :: w) :: ws end
      end
  end.
Definition split_ids (s : bytes) : list bytes := match s with [] => [] | _ :: r => ids_go 0 r end.

Definition nosp (id : bytes) : Prop := forall c, In c id -> b2n c <> 32.

Lemma atext_nosp : forall c, is_atext c = true -> b2n c <> 32.
Proof.
  intros c H. unfold is_atext in H. cbv zeta in H.
  apply andb_true_iff in H as [H _]. apply andb_true_iff in H as [H _]. lia.
Qed.

Lemma dtext_nosp : forall c, is_dtext c = true -> b2n c <> 32.
Proof.
  intros c H. unfold is_dtext in H. cbv zeta in H.
  apply andb_true_iff in H as [H _]. apply andb_true_iff in H as [H _]. lia.
Qed.

Lemma msgid_nosp : forall id, msgid_ok id = true -> nosp id.
Proof.
  intros id H. unfold msgid_ok in H.
  destruct (index_of (ch "@") id) as [i|] eqn:Ei; [|discriminate H].
  pose proof (index_of_split _ _ _ Ei) as Hsplit. cbv zeta in H.
  apply andb_true_iff in H as [H Hr]. apply andb_true_iff in H as [_ Hl].
  intros c Hc. rewrite Hsplit in Hc. apply in_app_iff in Hc as [Hc|[Hc|Hc]].
  - apply atext_nosp. rewrite forallb_forall in Hl. apply Hl. exact Hc.
  - subst c. vm_compute. discriminate.
  - destruct (skipn (S i) id) as [|d r'] eqn:Er; [discriminate Hr|].
    destruct (b2n d =? 91) eqn:Ed.
    + destruct Hc as [Hc|Hc]; [subst c; lia|].
      apply in_rev in Hc. destruct (rev r') as [|last mid]; [discriminate Hr|].
      apply andb_true_iff in Hr as [Hlast Hmid].
      destruct Hc as [Hc|Hc]; [subst c; lia|].
      apply dtext_nosp. rewrite forallb_forall in Hmid. apply Hmid. exact Hc.
    + apply atext_nosp. rewrite forallb_forall in Hr. apply Hr. exact Hc.
Qed.

Lemma ids_go_id : forall id rest, nosp id -> (rest = [] \/ exists r', rest = ch " " :: r') ->
  ids_go 0 (id ++ ch ">" :: rest) = id :: ids_go 2 rest.
Proof.
  induction id as [|c id IH]; intros rest Hn Hr.
  - cbn [app ids_go]. change (b2n (ch ">") =? 62) with true.
    destruct Hr as [->|[r' ->]]; reflexivity.
  - assert (Hn' : nosp id) by (intros x Hx; apply Hn; right; exact Hx).
    cbn [app ids_go]. rewrite (IH rest Hn' Hr).
    replace (match id ++ ch ">" :: rest with [] => true | d :: _ => b2n d =? 32 end) with false.
    + rewrite andb_false_r. reflexivity.
    + destruct id as [|d id']; [reflexivity|]. cbn [app]. symmetry. apply N.eqb_neq.
      apply Hn. right. left. reflexivity.
Qed.

Lemma ids_go_join : forall ids, ids <> [] -> Forall nosp ids ->
  ids_go 0 (join_with (s2b "> <") ids ++ [ch ">"]) = ids.
Proof.
  induction ids as [|a l IH]; intros Hne H; [congruence|].
  inversion H; subst. destruct l as [|b l].
  - cbn [join_with]. rewrite ids_go_id; [reflexivity|assumption|left; reflexivity].
  - rewrite join_cons2. set (J := join_with (s2b "> <") (b :: l)) in *.
    change (s2b "> <") with [ch ">"; ch " "; ch "<"].
    rewrite <- !app_assoc. cbn [app].
    rewrite ids_go_id; [|assumption|right; eexists; reflexivity].
    cbn [ids_go]. rewrite IH; [reflexivity|discriminate|assumption].
Qed.

(* ---------------------------------------------------------------------------------------- *)
(* the instance                                                                              *)

Definition x_model : ext :=
  mkExt enc_q dec_q
        fmt_time (fun s => match parse_time s with Some t => t | None => zero_time end)
        fmt_time parse_time
        strip_angle split_ids.

Theorem ext_ok_model : ext_ok x_model.
Proof.
  constructor; unfold decode_text, x_model;
    cbn [x_qword x_decode_header x_fmt_env_date x_parse_env_date x_fmt_idate x_parse_idate
         x_msgid x_msgid_list].
  - intros s H. rewrite enc_q_eqq by (apply needs_encoding_nonnil; exact H). apply dec_enc_q.
  - intros s H. unfold hide_words. rewrite H. fold (enc_q s).
    rewrite enc_q_eqq by (apply contains_eqq_nonnil; exact H). apply dec_enc_q.
  - intros t H. rewrite parse_fmt_time by exact H. reflexivity.
  - reflexivity.
  - intros t H. apply parse_fmt_time. exact H.
  - intros t _. apply fmt_time_plain.
  - intros id _. unfold LT, GT. change (s2b "<") with [ch "<"]. change (s2b ">") with [ch ">"].
    cbn [app strip_angle]. apply removelast_last.
  - reflexivity.
  - intros ids Hne H. unfold LT, GT, join_bytes.
    change (s2b "<") with [ch "<"]. change (s2b ">") with [ch ">"].
    cbn [app split_ids]. apply ids_go_join; [exact Hne|].
    apply Forall_forall. intros id Hid. apply msgid_nosp.
    rewrite forallb_forall in H. apply H. exact Hid.
  - reflexivity.
Qed.

Theorem ext_ok_satisfiable : exists x : ext, ext_ok x.
Proof. exists x_model. exact ext_ok_model. Qed.

