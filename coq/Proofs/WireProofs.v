(* Proofs/WireProofs.v — proofs for C01 about Model/Wire.v. *)
From GoImap.Base Require Import Bytes.
From GoImap.Model Require Import NumSet MatchList Utf7 Wire.
From GoImap.Proofs Require Import NumSetSpec NumSetProofs Utf7Spec Utf7Proofs WireSpec WireLemmas.
Open Scope N_scope.

(* ---- strings: every byte string, every mode, both sides ---- *)
Lemma quoted_roundtrip : forall s rest, dec_quoted (enc_quoted s ++ rest) = DOk s rest.
Proof. exact quoted_roundtrip'. Qed.

Lemma string_roundtrip : forall cfg s segs rest, fits_int64 s ->
  enc_string cfg s = Some segs ->
  dec_string (peer_server cfg) (flatten segs ++ rest) = DOk s rest /\
  dec_astring (peer_server cfg) (flatten segs ++ rest) = DOk s rest /\
  dec_nstring (peer_server cfg) (flatten segs ++ rest) = DOk s rest.
Proof. exact string_roundtrip'. Qed.

(* a quoted string never contains NUL, CR or LF, and 8-bit bytes only with QuotedUTF8 *)
Lemma string_quoted_only_if_valid : forall cfg s, valid_quoted cfg s = true ->
  enc_string cfg s = Some [SBytes (enc_quoted s)] /\
  forallb (fun c => negb ((b2n c =? 0) || (b2n c =? 13) || (b2n c =? 10))) (enc_quoted s) = true /\
  (quoted_utf8 cfg = false -> forallb (fun c => b2n c <=? 127) (enc_quoted s) = true).
Proof. exact string_quoted_only_if_valid'. Qed.

(* ---- mailbox names: every valid UTF-8 name ---- *)
Lemma mailbox_roundtrip : forall cfg runes segs rest, forallb scalar runes = true ->
  fits_int64 (utf7_encode (utf8_of runes)) -> delimited rest ->
  enc_mailbox cfg (utf8_of runes) = Some segs ->
  dec_mailbox (peer_server cfg) (flatten segs ++ rest) =
    DOk (if equal_fold_ascii (utf8_of runes) INBOX then INBOX else utf8_of runes) rest.
Proof. exact mailbox_roundtrip'. Qed.

(* ---- number sets ---- *)
Lemma numset_roundtrip : forall s segs rest, canon s = true -> delimited rest ->
  enc_numset s = Some segs -> dec_numset (flatten segs ++ rest) = DOk (Some s) rest.
Proof. exact numset_roundtrip'. Qed.

Lemma numset_empty_refused : enc_numset [] = None.
Proof. reflexivity. Qed.

(* ---- flags and mailbox attributes ---- *)
Lemma flag_roundtrip : forall f segs rest, delimited rest -> enc_flag f = Some segs ->
  dec_flag (flatten segs ++ rest) = DOk (canonical_flag f) rest.
Proof. exact flag_roundtrip'. Qed.

Lemma attr_roundtrip : forall a segs rest, delimited rest -> enc_mailbox_attr a = Some segs ->
  dec_mailbox_attr (flatten segs ++ rest) = DOk (canonical_attr (canonical_flag a)) rest.
Proof. exact attr_roundtrip'. Qed.

(* canonicalisation only changes ASCII case, and only towards a well-known name *)
Lemma canonical_flag_spec : forall f, seven_bit f ->
  (canonical_flag f = f \/ (In (canonical_flag f) known_flags /\ ascii_lower (canonical_flag f) = ascii_lower f)).
Proof. intros f Hf. unfold canonical_flag. apply canon_in_spec. exact Hf. Qed.

(* malformed flags / attributes are refused, nothing is written *)
Lemma flag_refused : forall f, enc_flag f = None <-> (f <> s2b "\*" /\ is_valid_flag f = false).
Proof. exact flag_refused'. Qed.

(* ---- numbers ---- *)
Lemma number_roundtrip : forall n rest, n < 4294967296 ->
  (match rest with [] => False | c :: _ => is_digit c = false end) ->
  dec_number (enc_number n ++ rest) = DOk n rest.
Proof.
  intros n rest Hn Hr. unfold dec_number, enc_number. apply dec_uint_roundtrip; assumption.
Qed.

Lemma number64_roundtrip : forall z segs rest, (z < 9223372036854775808)%Z ->
  (match rest with [] => False | c :: _ => is_digit c = false end) ->
  enc_number64 z = Some segs -> dec_number64 (flatten segs ++ rest) = DOk (Z.to_N z) rest /\ (0 <= z)%Z.
Proof.
  intros z segs rest Hz Hr H. unfold enc_number64 in H.
  destruct (z <? 0)%Z eqn:E; [discriminate|]. inversion H; subst segs.
  apply Z.ltb_ge in E. split; [|exact E].
  rewrite flatten_single. unfold dec_number64. apply dec_uint_roundtrip; [|exact Hr].
  change 9223372036854775808 with (Z.to_N 9223372036854775808%Z).
  apply Z2N.inj_lt; [exact E|discriminate|exact Hz].
Qed.

(* ---- nested lists: below the cap the generic reader consumes exactly the value; at or
   above it the reader reports an error (never a crash, never a silent mis-parse) ---- *)
Lemma value_discard : forall cfg v segs rest fuel, wf_wval v -> (wdepth v < MAX_DEPTH)%nat ->
  delimited rest -> enc_val cfg v = Some segs ->
  (length (flatten segs ++ rest) < fuel)%nat ->
  discard_value fuel (peer_server cfg) 0 (flatten segs ++ rest) = DOk tt rest.
Proof. exact value_discard'. Qed.

Lemma value_too_deep : forall cfg v segs rest fuel, wf_wval v -> (MAX_DEPTH <= wdepth v)%nat ->
  enc_val cfg v = Some segs ->
  discard_value fuel (peer_server cfg) 0 (flatten segs ++ rest) = DErr.
Proof. exact value_too_deep'. Qed.
