(* Proofs/Utf7Chunking.v — the Transform models (Model/Utf7Transform.v) driven in one call with
   atEOF = true and a large enough destination agree with the one-shot enc_loop / dec_loop. *)
From GoImap.Base Require Import Bytes.
From GoImap.Model Require Import Utf7 Utf7Transform.
From GoImap.Proofs Require Import Utf7Spec Utf7Codec Utf7Lemmas.
From Coq Require Import ZifyN ZifyNat ZifyBool.
Open Scope N_scope.

(* ---------------- encoder ---------------- *)
Lemma span_np_spec : forall s a b, span_np s = (a, b) ->
  s = a ++ b /\ forallb nonpr a = true /\
  match b with [] => True | p :: _ => printable p = true end.
Proof.
  induction s as [|c r IH]; intros a b H; cbn [span_np] in H.
  - inversion H. auto.
  - destruct (printable c) eqn:Ep.
    + inversion H; subst. cbn. auto.
    + destruct (span_np r) as [a' b'] eqn:E. inversion H; subst.
      destruct (IH _ _ eq_refl) as [H1 [H2 H3]].
      cbn [app forallb]. unfold nonpr at 1. rewrite Ep, H2. subst r. auto.
Qed.

Lemma enc_loop_after_run : forall run r', run <> [] ->
  match r' with [] => True | p :: _ => printable p = true end ->
  enc_loop r' (rev run) = encode_run run ++ enc_loop r' [].
Proof.
  intros run r' Hne Hr'.
  assert (Hf : flush (rev run) = encode_run run).
  { unfold flush. destruct (rev run) eqn:Er.
    - apply (f_equal (@rev N)) in Er. rewrite rev_involutive in Er. cbn in Er. contradiction.
    - rewrite <- Er, rev_involutive. reflexivity. }
  destruct r' as [|p r'']; cbn [enc_loop].
  - rewrite Hf, app_nil_r. reflexivity.
  - rewrite Hr', Hf. reflexivity.
Qed.

Lemma enc_tr_eof : forall fuel cap rest out nsrc,
  (length rest < fuel)%nat ->
  (length out + length (enc_loop rest []) <= cap)%nat ->
  enc_tr fuel cap rest true out nsrc = (out ++ enc_loop rest [], (nsrc + length rest)%nat, 0).
Proof.
  induction fuel as [|f IH]; intros cap rest out nsrc Hf Hc; [lia|].
  destruct rest as [|c r].
  - cbn [enc_tr enc_loop flush length]. rewrite app_nil_r, Nat.add_0_r. reflexivity.
  - cbn [enc_tr]. destruct (printable c) eqn:Ep.
    + cbn [enc_loop flush app] in Hc. rewrite Ep in Hc. cbn [app] in Hc.
      rewrite app_length in Hc. cbv zeta.
      destruct (Nat.ltb_spec cap (length out + length (if c =? AMP then [AMP; DASH] else [c]))) as [Hlt|Hge];
        [lia|].
      rewrite IH.
      * cbn [enc_loop flush app length]. rewrite Ep. cbn [app]. rewrite <- app_assoc.
        f_equal. f_equal. lia.
      * cbn [length] in Hf. lia.
      * rewrite app_length. lia.
    + destruct (span_np (c :: r)) as [run r'] eqn:Esp.
      destruct (span_np_spec _ _ _ Esp) as [Hs [Hn Hr']].
      assert (Hrun : run <> []).
      { cbn [span_np] in Esp. rewrite Ep in Esp. destruct (span_np r). inversion Esp. discriminate. }
      cbn [negb andb]. cbv zeta.
      assert (Hel : enc_loop (c :: r) [] = encode_run run ++ enc_loop r' []).
      { rewrite Hs, enc_loop_nonpr by exact Hn. rewrite app_nil_r.
        apply enc_loop_after_run; assumption. }
      rewrite Hel in Hc. rewrite app_length in Hc.
      destruct (Nat.ltb_spec cap (length out + length (encode_run run))) as [Hlt|Hge]; [lia|].
      assert (Hlen : length (c :: r) = (length run + length r')%nat).
      { rewrite Hs, app_length. reflexivity. }
      assert (Hrl : (0 < length run)%nat) by (destruct run; [congruence|cbn; lia]).
      rewrite IH.
      * rewrite Hel, <- app_assoc. f_equal. f_equal. lia.
      * lia.
      * rewrite app_length. lia.
Qed.

Theorem enc_transform_eof : forall cap src,
  (length (enc_loop src []) <= cap)%nat ->
  enc_transform cap src true = (enc_loop src [], length src, 0).
Proof.
  intros cap src H. unfold enc_transform.
  rewrite enc_tr_eof; [reflexivity|lia|cbn [length]; lia].
Qed.

(* ---------------- decoder ---------------- *)
Lemma dec_b64_step c r a acc : c <> DASH -> (c =? 13) || (c =? 10) = false ->
  dec_loop (c :: r) (MB64 a acc) = dec_loop r (MB64 a (c :: acc)).
Proof.
  intros Hd Hc. cbn [dec_loop]. destruct (N.eqb_spec c DASH); [contradiction|].
  rewrite Hc. reflexivity.
Qed.

Lemma dec_b64_crlf c r a acc : c <> DASH -> (c =? 13) || (c =? 10) = true ->
  dec_loop (c :: r) (MB64 a acc) = None.
Proof.
  intros Hd Hc. cbn [dec_loop]. destruct (N.eqb_spec c DASH); [contradiction|].
  rewrite Hc. reflexivity.
Qed.

Lemma scan_b64_spec : forall r,
  match scan_b64 r with
  | None | Some None => forall a acc, dec_loop r (MB64 a acc) = None
  | Some (Some (seg, r')) =>
      (forall a acc, dec_loop r (MB64 a acc) = dec_loop (DASH :: r') (MB64 a (rev seg ++ acc))) /\
      length r = (length seg + 1 + length r')%nat
  end.
Proof.
  induction r as [|c r IH]; cbn [scan_b64].
  - intros a acc. reflexivity.
  - destruct (N.eqb_spec c DASH) as [Ed|Ed].
    + subst c. split; [intros; reflexivity|reflexivity].
    + destruct ((c =? 13) || (c =? 10)) eqn:Ecr.
      * intros a acc. apply dec_b64_crlf; assumption.
      * destruct (scan_b64 r) as [[[seg r']|]|].
        -- destruct IH as [IH1 IH2]. split.
           ++ intros a acc. rewrite dec_b64_step by assumption.
              rewrite IH1. cbn [rev]. rewrite <- app_assoc. reflexivity.
           ++ cbn [length]. lia.
        -- intros a acc. rewrite dec_b64_step by assumption. apply IH.
        -- intros a acc. rewrite dec_b64_step by assumption. apply IH.
Qed.

Lemma dec_dash_nil a r :
  dec_loop (DASH :: r) (MB64 a []) = option_map (cons AMP) (dec_loop r (MDirect true)).
Proof. cbn [dec_loop]. rewrite N.eqb_refl. reflexivity. Qed.

Lemma dec_dash_seg a x seg r :
  dec_loop (DASH :: r) (MB64 a (rev (x :: seg) ++ [])) =
  if negb a then None
  else match decode_b64 (x :: seg) with
       | None | Some [] => None
       | Some b => option_map (app b) (dec_loop r (MDirect false))
       end.
Proof.
  cbn [dec_loop]. rewrite N.eqb_refl. rewrite app_nil_r.
  destruct (rev (x :: seg)) as [|y l] eqn:Er.
  { apply (f_equal (@rev N)) in Er. rewrite rev_involutive in Er. discriminate. }
  rewrite <- Er, rev_involutive. reflexivity.
Qed.

(* what dec_loop does on '&' in direct mode, phrased with scan_b64 *)
Lemma dec_amp a r :
  dec_loop (AMP :: r) (MDirect a) =
  match scan_b64 r with
  | None | Some None => None
  | Some (Some ([], r')) => option_map (cons AMP) (dec_loop r' (MDirect true))
  | Some (Some (x :: seg, r')) =>
      if negb a then None
      else match decode_b64 (x :: seg) with
           | None | Some [] => None
           | Some b => option_map (app b) (dec_loop r' (MDirect false))
           end
  end.
Proof.
  cbn [dec_loop]. rewrite printable_AMP. cbn [negb]. rewrite N.eqb_refl.
  pose proof (scan_b64_spec r) as H.
  destruct (scan_b64 r) as [[[seg r']|]|]; try apply H.
  destruct H as [H _]. rewrite H. destruct seg as [|x seg].
  - apply dec_dash_nil.
  - apply dec_dash_seg.
Qed.

Lemma scan_b64_length r seg r' : scan_b64 r = Some (Some (seg, r')) ->
  length r = (length seg + 1 + length r')%nat.
Proof. intros H. pose proof (scan_b64_spec r) as S. rewrite H in S. apply S. Qed.

Lemma dec_tr_complete : forall fuel cap rest a out nsrc o,
  (length rest < fuel)%nat ->
  dec_loop rest (MDirect a) = Some o ->
  (length out + length o <= cap)%nat ->
  dec_tr fuel cap rest true a out nsrc = (out ++ o, (nsrc + length rest)%nat, 0, true).
Proof.
  induction fuel as [|f IH]; intros cap rest a out nsrc o Hf Hd Hc; [lia|].
  destruct rest as [|c r].
  - cbn [dec_loop] in Hd. inversion Hd; subst. cbn [dec_tr length].
    rewrite app_nil_r, Nat.add_0_r. reflexivity.
  - cbn [dec_tr]. cbn [length] in Hf.
    destruct (N.eqb_spec c AMP) as [Ea|Ea].
    + subst c. rewrite printable_AMP. cbn [negb].
      rewrite dec_amp in Hd.
      destruct (scan_b64 r) as [[[seg r']|]|] eqn:Esc; try discriminate.
      pose proof (scan_b64_length _ _ _ Esc) as Hlen.
      destruct seg as [|x seg].
      * destruct (dec_loop r' (MDirect true)) as [o'|] eqn:Ed'; [|discriminate].
        cbn [option_map] in Hd. inversion Hd; subst. cbn [length] in Hc, Hlen.
        destruct (Nat.ltb_spec cap (length out + 1)) as [Hlt|Hge]; [lia|].
        rewrite (IH _ _ _ _ _ o'); [|lia|exact Ed'|rewrite app_length; cbn [length]; lia].
        rewrite <- app_assoc. cbn [app length]. f_equal. f_equal. f_equal. lia.
      * destruct (negb a); [discriminate|].
        destruct (decode_b64 (x :: seg)) as [[|b0 b]|]; try discriminate.
        destruct (dec_loop r' (MDirect false)) as [o'|] eqn:Ed'; [|discriminate].
        cbn [option_map] in Hd.
        assert (Ho : o = (b0 :: b) ++ o') by (inversion Hd; reflexivity). clear Hd. subst o.
        rewrite app_length in Hc.
        destruct (Nat.ltb_spec cap (length out + length (b0 :: b))) as [Hlt|Hge]; [lia|].
        rewrite (IH _ _ _ _ _ o'); [|lia|exact Ed'|rewrite app_length; lia].
        rewrite <- app_assoc. cbn [length] in *. f_equal. f_equal. f_equal. lia.
    + cbn [dec_loop] in Hd. destruct (printable c) eqn:Ep; cbn [negb] in *; [|discriminate].
      destruct (N.eqb_spec c AMP); [contradiction|]. cbn [negb].
      destruct (dec_loop r (MDirect true)) as [o'|] eqn:Ed'; [|discriminate].
      cbn [option_map] in Hd. inversion Hd; subst. cbn [length] in Hc.
      destruct (Nat.ltb_spec cap (length out + 1)) as [Hlt|Hge]; [lia|].
      rewrite (IH _ _ _ _ _ o'); [|lia|exact Ed'|rewrite app_length; cbn [length]; lia].
      rewrite <- app_assoc. cbn [app length]. f_equal. f_equal. f_equal. lia.
Qed.

Lemma dec_tr_sound : forall fuel cap rest a out nsrc o' n' a',
  dec_tr fuel cap rest true a out nsrc = (o', n', 0, a') ->
  exists o, dec_loop rest (MDirect a) = Some o /\ o' = out ++ o /\
            n' = (nsrc + length rest)%nat /\ a' = true.
Proof.
  unfold E_OK, E_SHORT_DST, E_SHORT_SRC, E_INVALID.
  induction fuel as [|f IH]; intros cap rest a out nsrc o' n' a' H; cbn [dec_tr] in H.
  { inversion H. }
  unfold E_OK, E_SHORT_DST, E_SHORT_SRC, E_INVALID in H.
  destruct rest as [|c r].
  - inversion H; subst. exists []. cbn [dec_loop length].
    rewrite app_nil_r, Nat.add_0_r. auto.
  - destruct (N.eqb_spec c AMP) as [Ea|Ea].
    + subst c. rewrite printable_AMP in H. cbn [negb] in H.
      rewrite dec_amp.
      destruct (scan_b64 r) as [[[seg r']|]|] eqn:Esc; try (inversion H; fail).
      pose proof (scan_b64_length _ _ _ Esc) as Hlen.
      destruct seg as [|x seg].
      * destruct (Nat.ltb cap (length out + 1)); [inversion H|].
        apply IH in H. destruct H as [o [Hd [Ho [Hn Ha]]]].
        exists (AMP :: o). rewrite Hd. cbn [option_map]. subst.
        rewrite <- app_assoc. cbn [app length] in *. repeat split. lia.
      * destruct (negb a); [inversion H|].
        destruct (decode_b64 (x :: seg)) as [[|b0 b]|]; try (inversion H; fail).
        destruct (Nat.ltb cap (length out + length (b0 :: b))); [inversion H|].
        apply IH in H. destruct H as [o [Hd [Ho [Hn Ha]]]].
        exists ((b0 :: b) ++ o). rewrite Hd. cbn [option_map]. subst.
        rewrite <- app_assoc. cbn [length] in *. repeat split. lia.
    + cbn [dec_loop]. destruct (printable c) eqn:Ep; cbn [negb] in *; [|inversion H].
      destruct (N.eqb_spec c AMP); [contradiction|]. cbn [negb] in H.
      destruct (Nat.ltb cap (length out + 1)); [inversion H|].
      apply IH in H. destruct H as [o [Hd [Ho [Hn Ha]]]].
      exists (c :: o). rewrite Hd. cbn [option_map]. subst.
      rewrite <- app_assoc. cbn [app length]. repeat split. lia.
Qed.

(* with atEOF = true and enough fuel the only possible outcomes are nil, ErrShortDst, ErrInvalidUTF7 *)
Lemma dec_tr_err : forall fuel cap rest a out nsrc o' n' e a',
  (length rest < fuel)%nat ->
  dec_tr fuel cap rest true a out nsrc = (o', n', e, a') -> e = 0 \/ e = 1 \/ e = 3.
Proof.
  induction fuel as [|f IH]; intros cap rest a out nsrc o' n' e a' Hf H; [lia|].
  cbn [dec_tr] in H. unfold E_OK, E_SHORT_DST, E_SHORT_SRC, E_INVALID in H.
  destruct rest as [|c r]; [inversion H; auto|]. cbn [length] in Hf.
  destruct (negb (printable c)); [inversion H; auto|].
  destruct (negb (c =? AMP)).
  - destruct (Nat.ltb cap (length out + 1)); [inversion H; auto|].
    eapply IH; [|exact H]. lia.
  - destruct (scan_b64 r) as [[[seg r']|]|] eqn:Esc; try (inversion H; auto; fail).
    pose proof (scan_b64_length _ _ _ Esc) as Hlen.
    destruct seg as [|x seg].
    + destruct (Nat.ltb cap (length out + 1)); [inversion H; auto|].
      eapply IH; [|exact H]. lia.
    + destruct (negb a); [inversion H; auto|].
      destruct (decode_b64 (x :: seg)) as [[|b0 b]|]; try (inversion H; auto; fail).
      destruct (Nat.ltb cap (length out + length (b0 :: b))); [inversion H; auto|].
      eapply IH; [|exact H]. lia.
Qed.

Theorem dec_transform_complete : forall a cap src o,
  dec_loop src (MDirect a) = Some o -> (length o <= cap)%nat ->
  dec_transform a cap src true = (o, length src, 0, true).
Proof.
  intros a cap src o Hd Hc. unfold dec_transform.
  rewrite (dec_tr_complete _ _ _ _ _ _ o); [reflexivity|lia|exact Hd|cbn [length]; lia].
Qed.

Theorem dec_transform_sound : forall a cap src o n a',
  dec_transform a cap src true = (o, n, 0, a') ->
  dec_loop src (MDirect a) = Some o /\ n = length src /\ a' = true.
Proof.
  intros a cap src o n a' H. unfold dec_transform in H.
  apply dec_tr_sound in H. destruct H as [o0 [Hd [Ho [Hn Ha]]]].
  cbn [app] in Ho. subst. auto.
Qed.

Theorem dec_transform_errors : forall a cap src o n e a',
  dec_transform a cap src true = (o, n, e, a') -> e = 0 \/ e = 1 \/ e = 3.
Proof.
  intros a cap src o n e a' H. unfold dec_transform in H.
  eapply dec_tr_err; [|exact H]. lia.
Qed.

(* ---------------- an explicit "large enough": 2 * length src ---------------- *)
Lemma encode_rune_len r : (length (encode_rune r) <= 4)%nat.
Proof. unfold encode_rune. ifs; cbn [length]; lia. Qed.

Lemma utf8_of_utf16be_len : forall fuel b o, utf8_of_utf16be fuel b = Some o ->
  (length o <= 2 * length b)%nat.
Proof.
  induction fuel as [|f IH]; intros b o H; [discriminate|].
  destruct b as [|h [|l rest]]; cbn [utf8_of_utf16be] in H.
  - inversion H. cbn. lia.
  - discriminate.
  - destruct (is_surrogate (h * 256 + l)).
    + destruct rest as [|h2 [|l2 rest']]; try discriminate.
      destruct ((55296 <=? h * 256 + l) && (h * 256 + l <? 56320) &&
                (56320 <=? h2 * 256 + l2) && (h2 * 256 + l2 <? 57344)); [|discriminate].
      destruct (utf8_of_utf16be f rest') as [o'|] eqn:E; [|discriminate].
      apply IH in E. inversion H; subst. rewrite app_length.
      pose proof (encode_rune_len ((h * 256 + l - 55296) * 1024 + (h2 * 256 + l2 - 56320) + 65536)).
      cbn [length]. lia.
    + destruct (printable (h * 256 + l)); [discriminate|].
      destruct (utf8_of_utf16be f rest) as [o'|] eqn:E; [|discriminate].
      apply IH in E. inversion H; subst. rewrite app_length.
      pose proof (encode_rune_len (h * 256 + l)). cbn [length]. lia.
Qed.

Lemma b64_decode_len : forall s b, b64_decode s = Some b -> (length b <= length s)%nat.
Proof.
  induction s as [|a|a b|a b c|a b c d r IH] using list_ind4; intros out H; cbn [b64_decode] in H.
  - inversion H. cbn. lia.
  - discriminate.
  - destruct (b64val a), (b64val b); try discriminate. inversion H. cbn. lia.
  - destruct (b64val a), (b64val b), (b64val c); try discriminate. inversion H. cbn. lia.
  - destruct (b64val a), (b64val b), (b64val c), (b64val d); try discriminate.
    destruct (b64_decode r) eqn:E; try discriminate.
    inversion H. specialize (IH _ eq_refl). cbn [length]. lia.
Qed.

Lemma decode_b64_len seg out : decode_b64 seg = Some out -> (length out <= 2 * length seg)%nat.
Proof.
  intros H. apply decode_b64_inv in H. destruct H as [b [Hb [_ Hu]]].
  apply b64_decode_len in Hb. apply utf8_of_utf16be_len in Hu. lia.
Qed.

Lemma dec_loop_len : forall s m o, dec_loop s m = Some o ->
  (length o <= 2 * (length s + match m with MB64 _ acc => length acc | MDirect _ => 0 end))%nat.
Proof.
  induction s as [|c r IH]; intros m o H; destruct m as [a|a acc]; cbn [dec_loop] in H.
  - inversion H. cbn. lia.
  - discriminate.
  - destruct (negb (printable c)); [discriminate|].
    destruct (c =? AMP).
    + apply IH in H. cbn [length] in *. lia.
    + destruct (dec_loop r (MDirect true)) eqn:E; [|discriminate].
      apply IH in E. inversion H; subst. cbn [length] in *. lia.
  - destruct (c =? DASH).
    + destruct acc as [|x acc].
      * destruct (dec_loop r (MDirect true)) eqn:E; [|discriminate].
        apply IH in E. inversion H; subst. cbn [length] in *. lia.
      * destruct (negb a); [discriminate|].
        destruct (decode_b64 (rev (x :: acc))) as [b|] eqn:Edec; [|discriminate].
        destruct b as [|b0 b]; [discriminate|].
        destruct (dec_loop r (MDirect false)) eqn:E; [|discriminate].
        apply IH in E. apply decode_b64_len in Edec. rewrite rev_length in Edec.
        assert (Ho : o = (b0 :: b) ++ l) by (inversion H; reflexivity). subst o.
        rewrite app_length. cbn [length] in *. lia.
    + destruct ((c =? 13) || (c =? 10)); [discriminate|].
      apply IH in H. cbn [length] in *. lia.
Qed.

Theorem dec_transform_iff : forall cap src o, (2 * length src <= cap)%nat ->
  (dec_transform true cap src true = (o, length src, 0, true) <->
   dec_loop src (MDirect true) = Some o).
Proof.
  intros cap src o Hc. split; intros H.
  - apply dec_transform_sound in H. apply H.
  - apply dec_transform_complete; [exact H|].
    apply dec_loop_len in H. lia.
Qed.

Print Assumptions enc_transform_eof.
Print Assumptions dec_transform_complete.
Print Assumptions dec_transform_sound.
Print Assumptions dec_transform_errors.
Print Assumptions dec_transform_iff.
