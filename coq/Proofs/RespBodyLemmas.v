(* Proofs/RespBodyLemmas.v — helper lemmas for Proofs/RespBodyProofs.v (C03, body structure):
   writer inversion, round trips of the components of a body structure (strings, nstrings,
   numbers, string lists, parameter lists, dispositions, languages, extension data), the
   order theory behind the parameter map. *)
From GoImap.Base Require Import Bytes.
From GoImap.Model Require Import NumSet MatchList Utf7 Wire Resp RespFetch RespCmd.
From GoImap.Proofs Require Import NumSetText Utf7Lemmas Utf7Spec WireSpec WireLemmas WireProofs RespSpec.
From Coq Require Import Permutation.
Open Scope N_scope.

(* ---------------------------------------------------------------------------------------- *)
(* writers                                                                                    *)

Lemma wcat_some : forall a b bs, a +++ b = Some bs ->
  exists x y, a = Some x /\ b = Some y /\ bs = x ++ y.
Proof.
  intros [x|] [y|] bs H; unfold wcat in H; try discriminate. injection H as <-. eauto.
Qed.

Lemma wcat_assoc : forall a b c, (a +++ b) +++ c = a +++ (b +++ c).
Proof. intros [a|] [b|] [c|]; unfold wcat; try reflexivity. rewrite app_assoc. reflexivity. Qed.

(* invert a chain  a +++ b +++ ... = Some bs  (bs a variable) *)
Ltac wleaf H :=
  lazymatch type of H with
  | ws _ = Some _ => unfold ws in H; injection H as <-
  | wb _ = Some _ => unfold wb in H; injection H as <-
  | w_num _ = Some _ => unfold w_num, enc_number in H; injection H as <-
  | Some _ = Some _ => injection H as <-
  | _ => idtac
  end.
(* H : a +++ b = Some bs  becomes  Hx : a = Some x, H : b = Some y, bs := x ++ y *)
Tactic Notation "wsplit" hyp(H) "as" ident(x) ident(Hx) :=
  let y := fresh "y" in let Hy := fresh "Hy" in
  lazymatch type of H with
  | (?a +++ ?b) = Some ?bs =>
      destruct (wcat_some a b bs H) as (x & y & Hx & Hy & ->); clear H; rename Hy into H; wleaf Hx
  end.
(* the same when a is a literal *)
Ltac wskip H := let x := fresh "x" in let Hx := fresh "Hx" in wsplit H as x Hx.
Ltac winv H := wleaf H.
Ltac napp := rewrite <- ?app_assoc; cbn [app s2b list_ascii_of_string].

Lemma w_join_cons2 : forall A (f : A -> wr) a b r,
  w_join f (a :: b :: r) = f a +++ ws " " +++ w_join f (b :: r).
Proof. reflexivity. Qed.

Lemma list_items_S : forall A k (f : P A) s,
  list_items (S k) f s =
  match f s with
  | DOk v r =>
      match dec_special (ch ")") r with
      | DOk _ r' => DOk [v] r'
      | DErr => DErr
      | DNo _ =>
          match dec_sp r with
          | DOk _ r2 => match list_items k f r2 with DOk l r3 => DOk (v :: l) r3 | _ => DErr end
          | _ => DErr
          end
      end
  | _ => DErr
  end.
Proof. reflexivity. Qed.

(* ---------------------------------------------------------------------------------------- *)
(* what follows / starts a component                                                          *)

(* the remainder after a component inside a body structure: SP or ")" *)
Definition stop (rest : bytes) : Prop :=
  match rest with c :: _ => beqb c SP_ || beqb c (ch ")") = true | [] => False end.
Definition nondigit (rest : bytes) : Prop :=
  match rest with [] => False | c :: _ => is_digit c = false end.
(* first byte of a component that follows a separating SP: not CR, not LF *)
Definition vfirst (bs : bytes) : Prop :=
  match bs with c :: _ => beqb c CR_ || beqb c LF_ = false | [] => False end.
(* first byte of a string: DQUOTE or "{" *)
Definition strfirst (bs : bytes) : Prop := exists t, bs = DQ_ :: t \/ bs = ch "{" :: t.

Lemma stop_cases : forall rest, stop rest -> exists t, rest = SP_ :: t \/ rest = ch ")" :: t.
Proof.
  intros [|c t] H; [contradiction|]. unfold stop in H. exists t.
  apply orb_true_iff in H. destruct H as [H|H]; apply beqb_true_iff in H; subst c; auto.
Qed.

Lemma stop_nonatom : forall rest, stop rest -> nonatom rest.
Proof. intros rest H. destruct (stop_cases rest H) as [t [-> | ->]]; reflexivity. Qed.

Lemma stop_nondigit : forall rest, stop rest -> nondigit rest.
Proof. intros rest H. destruct (stop_cases rest H) as [t [-> | ->]]; reflexivity. Qed.

Lemma stop_sp : forall t, stop (SP_ :: t). Proof. reflexivity. Qed.
Lemma stop_close : forall t, stop (ch ")" :: t). Proof. reflexivity. Qed.

Lemma strfirst_vfirst : forall bs, strfirst bs -> vfirst bs.
Proof. intros bs [t [-> | ->]]; reflexivity. Qed.

Lemma vfirst_app : forall bs r, vfirst bs -> vfirst (bs ++ r).
Proof. intros [|c t] r H; [contradiction|exact H]. Qed.

Lemma strfirst_app : forall bs r, strfirst bs -> strfirst (bs ++ r).
Proof. intros bs r [t [-> | ->]]; eexists; [left|right]; reflexivity. Qed.

Lemma vfirst_open : forall t, vfirst (ch "(" :: t). Proof. reflexivity. Qed.
Lemma vfirst_NIL : forall t, vfirst (s2b "NIL" ++ t). Proof. reflexivity. Qed.

Lemma dec_sp_app : forall bs rest, vfirst bs -> dec_sp (SP_ :: bs ++ rest) = DOk tt (bs ++ rest).
Proof.
  intros [|c t] rest H; [contradiction|]. unfold vfirst in H. cbn [app dec_sp].
  rewrite beqb_refl, H. reflexivity.
Qed.

Lemma ex_sp_app : forall bs rest, vfirst bs -> ex_sp (SP_ :: bs ++ rest) = DOk tt (bs ++ rest).
Proof. intros bs rest H. unfold ex_sp. rewrite dec_sp_app by exact H. reflexivity. Qed.

Lemma dec_sp_close : forall t, dec_sp (ch ")" :: t) = DNo (ch ")" :: t).
Proof. reflexivity. Qed.

Lemma close_miss_str : forall bs r, strfirst bs -> dec_special (ch ")") (bs ++ r) = DNo (bs ++ r).
Proof. intros bs r [t [-> | ->]]; reflexivity. Qed.

Lemma skip_values_close : forall k t, skip_values (S k) (ch ")" :: t) = DOk tt (ch ")" :: t).
Proof. reflexivity. Qed.

(* ---------------------------------------------------------------------------------------- *)
(* strings and nstrings                                                                       *)

Lemma fits_int64_of : forall s, fits s = true -> fits_int64 s.
Proof. intros s H. unfold fits in H. unfold fits_int64. apply N.ltb_lt. exact H. Qed.

Lemma w_string_inv : forall q s bs, w_string q s = Some bs ->
  exists segs, enc_string (scfg q) s = Some segs /\ bs = flatten segs.
Proof.
  intros q s bs H. unfold w_string in H. destruct (enc_string (scfg q) s) as [segs|]; [|discriminate].
  injection H as <-. eauto.
Qed.

Lemma w_string_rt : forall q s bs rest, fits s = true -> w_string q s = Some bs ->
  dec_string false (bs ++ rest) = DOk s rest.
Proof.
  intros q s bs rest Hf H. destruct (w_string_inv q s bs H) as (segs & He & ->).
  destruct (string_roundtrip (scfg q) s segs rest (fits_int64_of s Hf) He) as (H1 & _). exact H1.
Qed.

Lemma w_string_nrt : forall q s bs rest, fits s = true -> w_string q s = Some bs ->
  dec_nstring false (bs ++ rest) = DOk s rest.
Proof.
  intros q s bs rest Hf H. destruct (w_string_inv q s bs H) as (segs & He & ->).
  destruct (string_roundtrip (scfg q) s segs rest (fits_int64_of s Hf) He) as (_ & _ & H1). exact H1.
Qed.

Lemma ex_string_rt : forall q s bs rest, fits s = true -> w_string q s = Some bs ->
  ex_string (bs ++ rest) = DOk s rest.
Proof. intros. unfold ex_string. erewrite w_string_rt by eassumption. reflexivity. Qed.

Lemma w_string_first : forall q s bs, w_string q s = Some bs -> strfirst bs.
Proof.
  intros q s bs H. destruct (w_string_inv q s bs H) as (segs & He & ->).
  unfold enc_string in He. destruct (valid_quoted (scfg q) s).
  - injection He as <-. rewrite flatten_single. eexists. left. reflexivity.
  - destruct (enc_literal_shape _ _ _ He) as (plus & _ & ->). eexists. right. reflexivity.
Qed.

Lemma w_string_vfirst : forall q s bs, w_string q s = Some bs -> vfirst bs.
Proof. intros. apply strfirst_vfirst. eapply w_string_first; eassumption. Qed.

Lemma w_string_len : forall q s bs, w_string q s = Some bs -> (1 <= length bs)%nat.
Proof.
  intros q s bs H. destruct (w_string_first q s bs H) as [t [-> | ->]]; cbn [length]; lia.
Qed.

Lemma w_nstring_rt : forall q s bs rest, fits s = true -> w_nstring q s = Some bs -> nonatom rest ->
  dec_nstr (bs ++ rest) = DOk s rest.
Proof.
  intros q s bs rest Hf H Hr. unfold dec_nstr. unfold w_nstring in H. destruct s as [|c s]; cbn [is_nil] in H.
  - winv H. unfold dec_nstring. rewrite dec_atom_app; [reflexivity|discriminate|reflexivity|exact Hr].
  - eapply w_string_nrt; eassumption.
Qed.

Lemma w_nstring_vfirst : forall q s bs, w_nstring q s = Some bs -> vfirst bs.
Proof.
  intros q s bs H. unfold w_nstring in H. destruct (is_nil s).
  - winv H. reflexivity.
  - eapply w_string_vfirst; eassumption.
Qed.

(* ---------------------------------------------------------------------------------------- *)
(* numbers                                                                                    *)

Lemma digit_facts : forall c, is_digit c = true ->
  beqb c (ch "-") = false /\ beqb c CR_ || beqb c LF_ = false.
Proof.
  intros [[] [] [] [] [] [] [] []]; vm_compute; intros H; try discriminate H; split; reflexivity.
Qed.

Lemma dec_of_N_vfirst : forall n, vfirst (dec_of_N n).
Proof.
  intros n. destruct (dec_first n) as (c & t & -> & Hc). unfold vfirst.
  apply digit_facts in Hc. apply Hc.
Qed.

Lemma octets_rt : forall n rest, u32 n = true -> nondigit rest ->
  dec_octets (dec_of_N n ++ rest) = DOk n rest.
Proof.
  intros n rest Hn Hr. unfold dec_octets.
  assert (Hm : dec_special (ch "-") (dec_of_N n ++ rest) = DNo (dec_of_N n ++ rest)).
  { destruct (dec_first n) as (c & t & -> & Hc). cbn [app]. apply dec_special_miss.
    apply digit_facts in Hc. apply Hc. }
  rewrite Hm. unfold ex_number.
  assert (Hlt : n < 4294967296) by (unfold u32 in Hn; apply N.ltb_lt; exact Hn).
  pose proof (number_roundtrip n rest Hlt Hr) as X. unfold enc_number in X. rewrite X. reflexivity.
Qed.

Lemma i64_bounds : forall z, i64 z = true -> (0 <= z < 9223372036854775808)%Z.
Proof.
  intros z H. unfold i64 in H. apply andb_true_iff in H. destruct H as [H1 H2].
  apply Z.leb_le in H1. apply Z.ltb_lt in H2. split; assumption.
Qed.

Lemma w_num64_inv : forall z bs, w_num64 z = Some bs ->
  exists segs, enc_number64 z = Some segs /\ bs = flatten segs.
Proof.
  intros z bs H. unfold w_num64 in H. destruct (enc_number64 z) as [segs|]; [|discriminate].
  injection H as <-. eauto.
Qed.

Lemma num64_rt : forall z bs rest, i64 z = true -> w_num64 z = Some bs -> nondigit rest ->
  ex_number64 (bs ++ rest) = DOk (Z.to_N z) rest.
Proof.
  intros z bs rest Hz H Hr. destruct (w_num64_inv z bs H) as (segs & He & ->).
  apply i64_bounds in Hz. unfold ex_number64.
  destruct (number64_roundtrip z segs rest (proj2 Hz) Hr He) as [H1 _]. rewrite H1. reflexivity.
Qed.

Lemma w_num64_vfirst : forall z bs, w_num64 z = Some bs -> vfirst bs.
Proof.
  intros z bs H. destruct (w_num64_inv z bs H) as (segs & He & ->).
  unfold enc_number64 in He. destruct (z <? 0)%Z; [discriminate|]. injection He as <-.
  rewrite flatten_single. apply dec_of_N_vfirst.
Qed.

(* ---------------------------------------------------------------------------------------- *)
(* lists of strings                                                                           *)

Lemma w_join_str_first : forall q l bs, l <> [] -> w_join (w_string q) l = Some bs -> strfirst bs.
Proof.
  intros q [|a [|b r]] bs Hl H; [congruence| |].
  - cbn [w_join] in H. eapply w_string_first; eassumption.
  - rewrite w_join_cons2 in H. wsplit H as w Hw. apply strfirst_app. eapply w_string_first; eassumption.
Qed.

Lemma w_join_str_len : forall q l bs, w_join (w_string q) l = Some bs -> (length l <= length bs)%nat.
Proof.
  intros q. induction l as [|a l IH]; intros bs H; [cbn [length]; lia|].
  destruct l as [|b r].
  - cbn [w_join] in H. apply w_string_len in H. cbn [length]. lia.
  - rewrite w_join_cons2 in H. wsplit H as w Hw. wskip H. specialize (IH _ H). apply w_string_len in Hw.
    rewrite !app_length. cbn [length] in *. lia.
Qed.

Lemma items_strings : forall q l bs rest k, l <> [] -> forallb fits l = true ->
  w_join (w_string q) l = Some bs -> (length l <= k)%nat ->
  list_items k ex_string (bs ++ ch ")" :: rest) = DOk l rest.
Proof.
  intros q. induction l as [|a l IH]; intros bs rest k Hl Hf H Hk; [congruence|].
  cbn [forallb] in Hf. apply andb_true_iff in Hf. destruct Hf as [Hfa Hfl].
  destruct k as [|k]; [cbn [length] in Hk; lia|]. rewrite list_items_S.
  destruct l as [|b r].
  - cbn [w_join] in H. rewrite (ex_string_rt q a bs _ Hfa H). rewrite dec_special_hit. reflexivity.
  - rewrite w_join_cons2 in H. wsplit H as w Hw. wskip H. rewrite <- !app_assoc.
    rewrite (ex_string_rt q a w _ Hfa Hw). cbn [app].
    rewrite dec_special_miss by reflexivity.
    rewrite dec_sp_app by (apply strfirst_vfirst; eapply w_join_str_first; [|eassumption]; discriminate).
    rewrite (IH _ rest k); [reflexivity|discriminate|exact Hfl|exact H|cbn [length] in *; lia].
Qed.

Lemma dec_list_strings : forall q l bs rest, forallb fits l = true -> w_list (w_string q) l = Some bs ->
  dec_list ex_string (bs ++ rest) = DOk (Some l) rest.
Proof.
  intros q l bs rest Hf H. unfold w_list in H. wskip H. wsplit H as w1 Hw1. winv H. napp.
  unfold dec_list. rewrite dec_special_hit. destruct l as [|a l].
  - cbn [w_join] in Hw1. winv Hw1. cbn [app]. rewrite dec_special_hit. reflexivity.
  - assert (Hne : a :: l <> []) by discriminate.
    rewrite close_miss_str by (eapply w_join_str_first; eassumption).
    rewrite (items_strings q (a :: l) w1 rest); [reflexivity|exact Hne|exact Hf|exact Hw1|].
    apply w_join_str_len in Hw1. rewrite app_length. lia.
Qed.

Lemma w_list_first : forall A (f : A -> wr) l bs, w_list f l = Some bs -> exists t, bs = ch "(" :: t.
Proof. intros A f l bs H. unfold w_list in H. wskip H. eexists. reflexivity. Qed.

Lemma ex_nlist_strings : forall q l bs rest, forallb fits l = true -> w_list (w_string q) l = Some bs ->
  ex_nlist ex_string (bs ++ rest) = DOk l rest.
Proof.
  intros q l bs rest Hf H. unfold ex_nlist, ex_list. rewrite (dec_list_strings q l bs rest Hf H).
  destruct (w_list_first _ _ _ _ H) as [t ->]. cbn [app]. unfold dec_atom.
  rewrite dec_func_no by reflexivity. reflexivity.
Qed.

Lemma ex_nlist_NIL : forall A (f : P A) rest, nonatom rest -> ex_nlist f (s2b "NIL" ++ rest) = DOk [] rest.
Proof.
  intros A f rest Hr. unfold ex_nlist.
  rewrite dec_atom_app; [reflexivity|discriminate|reflexivity|exact Hr].
Qed.

(* ---------------------------------------------------------------------------------------- *)
(* the order of parameter names                                                               *)

Lemma b2n_inj : forall a b, b2n a = b2n b -> a = b.
Proof. intros a b H. rewrite <- (n2b_b2n a), <- (n2b_b2n b), H. reflexivity. Qed.

Lemma ltb_irrefl : forall a, bytes_ltb a a = false.
Proof. induction a as [|x a IH]; cbn [bytes_ltb]; [reflexivity|]. rewrite N.ltb_irrefl. exact IH. Qed.

Lemma ltb_trans : forall a b c, bytes_ltb a b = true -> bytes_ltb b c = true -> bytes_ltb a c = true.
Proof.
  induction a as [|x a IH]; intros [|y b] [|z c]; cbn [bytes_ltb]; try discriminate; try reflexivity.
  destruct (N.ltb_spec (b2n x) (b2n y)), (N.ltb_spec (b2n y) (b2n x)), (N.ltb_spec (b2n y) (b2n z)),
    (N.ltb_spec (b2n z) (b2n y)), (N.ltb_spec (b2n x) (b2n z)), (N.ltb_spec (b2n z) (b2n x));
    intros Hlt1 Hlt2; try discriminate; try reflexivity; try lia. eapply IH; eassumption.
Qed.

Lemma ltb_total : forall a b, a <> b -> bytes_ltb a b = true \/ bytes_ltb b a = true.
Proof.
  induction a as [|x a IH]; intros [|y b] Hne; cbn [bytes_ltb]; [congruence|left; reflexivity|right; reflexivity|].
  destruct (N.ltb_spec (b2n x) (b2n y)); [left; reflexivity|].
  destruct (N.ltb_spec (b2n y) (b2n x)); [right; reflexivity|].
  assert (x = y) by (apply b2n_inj; lia). subst y. apply IH. congruence.
Qed.

Ltac ord_contra :=
  match goal with
  | H1 : bytes_ltb ?a ?b = true, H2 : bytes_ltb ?b ?c = true, H3 : bytes_ltb ?a ?c = false |- _ =>
      rewrite (ltb_trans _ _ _ H1 H2) in H3; discriminate H3
  | H1 : bytes_ltb ?a ?b = true, H2 : bytes_ltb ?b ?a = true |- _ =>
      let X := fresh in pose proof (ltb_trans _ _ _ H1 H2) as X; rewrite ltb_irrefl in X; discriminate X
  | H1 : bytes_ltb ?a ?b = false, H2 : bytes_ltb ?b ?a = false, Hne : ?a <> ?b |- _ =>
      destruct (ltb_total _ _ Hne); congruence
  end.

Lemma insert_comm : forall a b m, fst a <> fst b ->
  insert_kv a (insert_kv b m) = insert_kv b (insert_kv a m).
Proof.
  intros a b m Hne. induction m as [|h t IH].
  - cbn [insert_kv].
    destruct (bytes_ltb (fst a) (fst b)) eqn:Eab, (bytes_ltb (fst b) (fst a)) eqn:Eba;
      try reflexivity; exfalso; ord_contra.
  - destruct (bytes_ltb (fst a) (fst b)) eqn:Eab, (bytes_ltb (fst b) (fst a)) eqn:Eba,
      (bytes_ltb (fst b) (fst h)) eqn:Ebh, (bytes_ltb (fst a) (fst h)) eqn:Eah;
      repeat (cbn [insert_kv]; rewrite ?Eab, ?Eba, ?Ebh, ?Eah);
      try reflexivity; try (rewrite IH; reflexivity); exfalso; ord_contra.
Qed.

Lemma insert_perm : forall a m, Permutation (insert_kv a m) (a :: m).
Proof.
  intros a. induction m as [|h t IH]; cbn [insert_kv]; [apply Permutation_refl|].
  destruct (bytes_ltb (fst a) (fst h)); [apply Permutation_refl|].
  apply perm_trans with (h :: a :: t); [apply perm_skip; exact IH|apply perm_swap].
Qed.

Lemma sort_perm : forall l, Permutation (sort_kv l) l.
Proof.
  induction l as [|a l IH]; [apply Permutation_refl|].
  change (sort_kv (a :: l)) with (insert_kv a (sort_kv l)).
  eapply perm_trans; [apply insert_perm|apply perm_skip; exact IH].
Qed.

Lemma sort_nonnil : forall l, l <> [] -> sort_kv l <> [].
Proof.
  intros l Hl E. pose proof (sort_perm l) as Hp. rewrite E in Hp.
  apply Permutation_nil in Hp. contradiction.
Qed.

(* the client's map *)
Definition mstep (m : list (bytes * bytes)) (kv : bytes * bytes) : list (bytes * bytes) :=
  map_set (fst kv) (snd kv) m.

Lemma map_set_absent : forall k v m, ~ In k (map fst m) -> map_set k v m = insert_kv (k, v) m.
Proof.
  intros k v. induction m as [|h t IH]; intros H; [reflexivity|]. cbn [map_set insert_kv fst].
  destruct (bytes_eqb (fst h) k) eqn:E.
  - apply bytes_eqb_true_iff in E. exfalso. apply H. left. exact E.
  - destruct (bytes_ltb k (fst h)); [reflexivity|]. rewrite IH; [reflexivity|].
    intros X. apply H. right. exact X.
Qed.

Lemma fold_insert_push : forall a r m0, ~ In (fst a) (map fst r) ->
  fold_right insert_kv (insert_kv a m0) r = insert_kv a (fold_right insert_kv m0 r).
Proof.
  intros a. induction r as [|h r IH]; intros m0 H; [reflexivity|]. cbn [fold_right].
  rewrite IH by (intros X; apply H; right; exact X).
  apply insert_comm. intros E. apply H. left. exact E.
Qed.

Lemma fold_left_mstep : forall L m0, NoDup (map fst L) ->
  (forall k, In k (map fst L) -> ~ In k (map fst m0)) ->
  fold_left mstep L m0 = fold_right insert_kv m0 L.
Proof.
  induction L as [|a r IH]; intros m0 Hnd Hdis; [reflexivity|].
  change (fold_left mstep (a :: r) m0) with (fold_left mstep r (map_set (fst a) (snd a) m0)).
  cbn [map] in Hnd, Hdis. inversion Hnd as [|? ? Hni Hnd']; subst.
  rewrite map_set_absent by (apply Hdis; left; reflexivity).
  replace (fst a, snd a) with a by (destruct a; reflexivity).
  rewrite IH.
  - cbn [fold_right]. apply fold_insert_push. exact Hni.
  - exact Hnd'.
  - intros k Hk Hin.
    apply (Permutation_in _ (Permutation_map fst (insert_perm a m0))) in Hin.
    cbn [map] in Hin. destruct Hin as [<-|Hin]; [contradiction|].
    apply (Hdis k); [right; exact Hk|exact Hin].
Qed.

Lemma fold_left_mstep_sort : forall L, NoDup (map fst L) -> fold_left mstep L [] = sort_kv L.
Proof. intros L H. apply fold_left_mstep; [exact H|]. intros k _ []. Qed.

Definition lower1 (kv : bytes * bytes) : bytes * bytes := (ascii_lower (fst kv), snd kv).

Lemma lower_keys_cons : forall a l, lower_keys (a :: l) = lower1 a :: lower_keys l.
Proof. reflexivity. Qed.

Lemma sort_lower_insert : forall a m,
  (forall h, In h m -> ascii_lower (fst a) <> ascii_lower (fst h)) ->
  sort_kv (lower_keys (insert_kv a m)) = insert_kv (lower1 a) (sort_kv (lower_keys m)).
Proof.
  intros a. induction m as [|h t IH]; intros Hd; [reflexivity|]. cbn [insert_kv].
  destruct (bytes_ltb (fst a) (fst h)); [reflexivity|].
  change (sort_kv (lower_keys (h :: insert_kv a t)))
    with (insert_kv (lower1 h) (sort_kv (lower_keys (insert_kv a t)))).
  rewrite IH by (intros h' Hh'; apply Hd; right; exact Hh').
  change (sort_kv (lower_keys (h :: t))) with (insert_kv (lower1 h) (sort_kv (lower_keys t))).
  apply insert_comm. cbn [fst lower1]. intros E. apply (Hd h (or_introl eq_refl)). symmetry. exact E.
Qed.

Lemma In_lower_keys : forall h l, In h l -> In (ascii_lower (fst h)) (map fst (lower_keys l)).
Proof.
  intros h l H. apply in_map_iff. exists (lower1 h). split; [reflexivity|].
  unfold lower_keys. apply in_map_iff. exists h. split; [reflexivity|exact H].
Qed.

Lemma sort_lower_sort : forall l, NoDup (map fst (lower_keys l)) ->
  sort_kv (lower_keys (sort_kv l)) = sort_kv (lower_keys l).
Proof.
  induction l as [|a r IH]; intros Hnd; [reflexivity|].
  rewrite lower_keys_cons in Hnd. cbn [map] in Hnd. inversion Hnd as [|? ? Hni Hnd']; subst.
  change (sort_kv (a :: r)) with (insert_kv a (sort_kv r)). rewrite sort_lower_insert.
  - rewrite IH by exact Hnd'. reflexivity.
  - intros h Hh E. apply (Permutation_in _ (sort_perm r)) in Hh. apply Hni.
    cbn [fst lower1]. rewrite E. apply In_lower_keys. exact Hh.
Qed.

Lemma nodup_b_NoDup : forall l, nodup_b l = true -> NoDup l.
Proof.
  induction l as [|a l IH]; cbn [nodup_b]; intros H; constructor.
  - apply andb_true_iff in H. destruct H as [H _]. intros Hin.
    assert (X : existsb (bytes_eqb a) l = true).
    { apply existsb_exists. exists a. split; [exact Hin|apply bytes_eqb_refl]. }
    rewrite X in H. discriminate H.
  - apply IH. apply andb_true_iff in H. apply H.
Qed.

(* ---------------------------------------------------------------------------------------- *)
(* parameters                                                                                 *)

Lemma decode_hide : forall x v, ext_ok x -> decode_text x (hide_words v) = v.
Proof.
  intros x v Hx. destruct (contains_eqq v) eqn:E.
  - apply (xo_hide x Hx). exact E.
  - unfold hide_words. rewrite E. unfold decode_text. rewrite E. reflexivity.
Qed.

Fixpoint flatkv (l : list (bytes * bytes)) : list bytes :=
  match l with [] => [] | kv :: r => fst kv :: hide_words (snd kv) :: flatkv r end.

Definition w_kv (q : bool) (kv : bytes * bytes) : wr :=
  w_string q (fst kv) +++ ws " " +++ w_string q (hide_words (snd kv)).

Lemma w_join_flat : forall q l, w_join (w_kv q) l = w_join (w_string q) (flatkv l).
Proof.
  intros q. induction l as [|kv l IH]; [reflexivity|]. destruct l as [|kv2 r].
  - reflexivity.
  - rewrite w_join_cons2, IH. cbn [flatkv]. rewrite !w_join_cons2. unfold w_kv.
    rewrite !wcat_assoc. reflexivity.
Qed.

Definition kv_ok (kv : bytes * bytes) : bool :=
  seven (fst kv) && fits (fst kv) && fits (hide_words (snd kv)).

Lemma flatkv_fits : forall L, (forall kv, In kv L -> kv_ok kv = true) -> forallb fits (flatkv L) = true.
Proof.
  induction L as [|kv r IH]; intros H; [reflexivity|]. cbn [flatkv forallb].
  pose proof (H kv (or_introl eq_refl)) as Hk. unfold kv_ok in Hk.
  apply andb_true_iff in Hk. destruct Hk as [Hk H4]. apply andb_true_iff in Hk. destruct Hk as [_ H3].
  rewrite H3, H4, IH; [reflexivity|]. intros kv' Hin. apply H. right. exact Hin.
Qed.

Definition unopt (m : params) : list (bytes * bytes) := match m with Some m => m | None => [] end.

Lemma pair_flat : forall x, ext_ok x -> forall L m, (forall kv, In kv L -> kv_ok kv = true) ->
  pair_params x (flatkv L) None m =
  Some (match L with [] => m | _ => Some (fold_left mstep (lower_keys L) (unopt m)) end).
Proof.
  intros x Hx. induction L as [|kv r IH]; intros m Hk; [reflexivity|].
  cbn [flatkv pair_params].
  rewrite (decode_hide x _ Hx).
  rewrite IH by (intros kv' Hin; apply Hk; right; exact Hin).
  destruct r; reflexivity.
Qed.

Lemma w_params_vfirst : forall q p bs, w_params q p = Some bs -> vfirst bs.
Proof.
  intros q [l|] bs H; unfold w_params in H.
  - destruct (w_list_first _ _ _ _ H) as [t ->]. reflexivity.
  - winv H. reflexivity.
Qed.

Lemma params_rt : forall x q p bs rest, ext_ok x -> wf_params p = true -> w_params q p = Some bs ->
  nonatom rest -> read_params x (bs ++ rest) = DOk (norm_params p) rest.
Proof.
  intros x q [l|] bs rest Hx Hwf H Hr; unfold w_params in H; unfold read_params.
  - unfold wf_params in Hwf. apply andb_true_iff in Hwf. destruct Hwf as [Hwf Hnd2].
    apply andb_true_iff in Hwf. destruct Hwf as [Hall _].
    fold kv_ok in Hall. rewrite forallb_forall in Hall.
    assert (Hall' : forall kv, In kv (sort_kv l) -> kv_ok kv = true).
    { intros kv Hin. apply Hall. apply (Permutation_in _ (sort_perm l)). exact Hin. }
    change (fun kv : bytes * bytes => w_string q (fst kv) +++ ws " " +++ w_string q (hide_words (snd kv)))
      with (w_kv q) in H.
    unfold w_list in H. rewrite w_join_flat in H. fold (w_list (w_string q) (flatkv (sort_kv l))) in H.
    rewrite (ex_nlist_strings q _ bs rest (flatkv_fits _ Hall') H). cbn [bind].
    rewrite (pair_flat x Hx _ None Hall'). cbn [unopt].
    destruct l as [|kv l]; [reflexivity|].
    assert (Hne : kv :: l <> []) by discriminate.
    apply nodup_b_NoDup in Hnd2.
    rewrite fold_left_mstep_sort.
    + rewrite sort_lower_sort by exact Hnd2.
      pose proof (sort_nonnil _ Hne) as Hs. destruct (sort_kv (kv :: l)); [congruence|]. reflexivity.
    + eapply Permutation_NoDup; [|exact Hnd2]. apply Permutation_sym.
      apply Permutation_map. unfold lower_keys. apply Permutation_map. apply sort_perm.
  - winv H. rewrite ex_nlist_NIL by exact Hr. reflexivity.
Qed.

(* ---------------------------------------------------------------------------------------- *)
(* disposition, language, extension data                                                      *)

Lemma dec_nil_NIL : forall rest, nonatom rest -> dec_nil (s2b "NIL" ++ rest) = DOk tt rest.
Proof.
  intros rest Hr. unfold dec_nil. rewrite dec_atom_app; [reflexivity|discriminate|reflexivity|exact Hr].
Qed.

Lemma w_disp_vfirst : forall q d bs, w_disp q d = Some bs -> vfirst bs.
Proof.
  intros q [[v p]|] bs H; unfold w_disp in H; [wskip H|winv H]; reflexivity.
Qed.

Lemma disp_rt : forall x q d bs rest, ext_ok x -> wf_disp d = true -> w_disp q d = Some bs ->
  nonatom rest -> read_disp x (bs ++ rest) = DOk (norm_disp d) rest.
Proof.
  intros x q [[v p]|] bs rest Hx Hwf H Hr; unfold w_disp in H; unfold read_disp.
  - unfold wf_disp in Hwf. apply andb_true_iff in Hwf. destruct Hwf as [Hv Hp].
    wskip H. wsplit H as w1 Hw1. wskip H. wsplit H as w0 Hw0. winv H. napp.
    rewrite dec_special_hit. rewrite (ex_string_rt q v w1 _ Hv Hw1). cbn [bind].
    rewrite ex_sp_app by (eapply w_params_vfirst; eassumption). cbn [bind].
    rewrite (params_rt x q p w0 _ Hx Hp Hw0) by reflexivity. cbn [bind].
    unfold ex_special. rewrite dec_special_hit. reflexivity.
  - winv H. change (dec_special (ch "(") (s2b "NIL" ++ rest)) with (@DNo unit (s2b "NIL" ++ rest)).
    rewrite dec_nil_NIL by exact Hr. reflexivity.
Qed.

Lemma w_lang_vfirst : forall q l bs, w_lang q l = Some bs -> vfirst bs.
Proof.
  intros q [l|] bs H; unfold w_lang in H.
  - destruct (w_list_first _ _ _ _ H) as [t ->]. reflexivity.
  - winv H. reflexivity.
Qed.

Lemma lang_rt : forall q l bs rest, wf_lang l = true -> w_lang q l = Some bs -> nonatom rest ->
  read_lang (bs ++ rest) = DOk (norm_lang l) rest.
Proof.
  intros q [l|] bs rest Hwf H Hr; unfold w_lang in H; unfold read_lang.
  - unfold wf_lang in Hwf. rewrite (dec_list_strings q l bs rest Hwf H). destruct l; reflexivity.
  - winv H. change (dec_list ex_string (s2b "NIL" ++ rest)) with (@DOk (option (list bytes)) None (s2b "NIL" ++ rest)).
    cbv iota. unfold dec_nstr, dec_nstring. rewrite dec_atom_app; [reflexivity|discriminate|reflexivity|exact Hr].
Qed.

(* SP dsp SP lang SP location *)
Lemma ext_tail_rt : forall x q d l loc db lb cb rest, ext_ok x ->
  wf_disp d = true -> wf_lang l = true -> fits loc = true ->
  w_disp q d = Some db -> w_lang q l = Some lb -> w_nstring q loc = Some cb -> nonatom rest ->
  read_ext_tail x (SP_ :: db ++ SP_ :: lb ++ SP_ :: cb ++ rest) = DOk (norm_disp d, norm_lang l, loc) rest.
Proof.
  intros x q d l loc db lb cb rest Hx Hd Hl Hc Hdb Hlb Hcb Hr. unfold read_ext_tail.
  rewrite dec_sp_app by (eapply w_disp_vfirst; eassumption).
  rewrite (disp_rt x q d db _ Hx Hd Hdb) by reflexivity. cbn [bind].
  rewrite dec_sp_app by (eapply w_lang_vfirst; eassumption).
  rewrite (lang_rt q l lb _ Hl Hlb) by reflexivity. cbn [bind].
  rewrite dec_sp_app by (eapply w_nstring_vfirst; eassumption).
  rewrite (w_nstring_rt q loc cb rest Hc Hcb Hr). reflexivity.
Qed.

Lemma ext_1part_rt : forall x q e db lb cb rest, ext_ok x -> wf_spx e = true ->
  w_disp q (spx_disp e) = Some db -> w_lang q (spx_lang e) = Some lb -> w_nstring q (spx_loc e) = Some cb ->
  nonatom rest ->
  read_ext_1part x (s2b "NIL" ++ SP_ :: db ++ SP_ :: lb ++ SP_ :: cb ++ rest) = DOk (norm_spx e) rest.
Proof.
  intros x q e db lb cb rest Hx Hwf Hdb Hlb Hcb Hr. unfold wf_spx in Hwf.
  apply andb_true_iff in Hwf. destruct Hwf as [Hwf Hc]. apply andb_true_iff in Hwf. destruct Hwf as [Hd Hl].
  unfold read_ext_1part, dec_nstr at 1, dec_nstring.
  rewrite dec_atom_app; [|discriminate|reflexivity|reflexivity].
  change (bytes_eqb (s2b "NIL") (s2b "NIL")) with true. cbv iota. cbn [bind].
  rewrite (ext_tail_rt x q _ _ _ db lb cb rest Hx Hd Hl Hc Hdb Hlb Hcb Hr). reflexivity.
Qed.

Lemma ext_mpart_rt : forall x q e pb db lb cb rest, ext_ok x -> wf_mpx e = true ->
  w_params q (mpx_params e) = Some pb ->
  w_disp q (mpx_disp e) = Some db -> w_lang q (mpx_lang e) = Some lb -> w_nstring q (mpx_loc e) = Some cb ->
  nonatom rest ->
  read_ext_mpart x (pb ++ SP_ :: db ++ SP_ :: lb ++ SP_ :: cb ++ rest) = DOk (norm_mpx e) rest.
Proof.
  intros x q e pb db lb cb rest Hx Hwf Hpb Hdb Hlb Hcb Hr. unfold wf_mpx in Hwf.
  apply andb_true_iff in Hwf. destruct Hwf as [Hwf Hc]. apply andb_true_iff in Hwf. destruct Hwf as [Hwf Hl].
  apply andb_true_iff in Hwf. destruct Hwf as [Hp Hd].
  unfold read_ext_mpart.
  rewrite (params_rt x q _ pb _ Hx Hp Hpb) by reflexivity. cbn [bind].
  rewrite (ext_tail_rt x q _ _ _ db lb cb rest Hx Hd Hl Hc Hdb Hlb Hcb Hr). reflexivity.
Qed.

(* ---------------------------------------------------------------------------------------- *)
(* types                                                                                      *)

Lemma message_not_text : forall typ st, is_message_type typ st = true -> is_text_type typ = false.
Proof.
  intros typ st H. unfold is_message_type in H. apply andb_true_iff in H. destruct H as [H _].
  unfold equal_fold_go in H. apply bytes_eqb_true_iff in H. unfold is_text_type, equal_fold_go.
  rewrite H. vm_compute. reflexivity.
Qed.

Lemma fits_7bit : fits (s2b "7BIT") = true.
Proof. vm_compute. reflexivity. Qed.

Lemma fits_upper : forall s, fits s = true -> fits (ascii_upper s) = true.
Proof. intros s H. unfold fits in *. unfold ascii_upper. rewrite map_length. exact H. Qed.

Lemma encoding_rt : forall q enc bs rest, fits enc = true -> w_encoding q enc = Some bs ->
  exists v, dec_nstr (bs ++ rest) = DOk v rest /\ (if is_nil v then s2b "7BIT" else v) = norm_encoding enc.
Proof.
  intros q enc bs rest Hf H. unfold w_encoding in H. unfold norm_encoding, dec_nstr.
  destruct enc as [|c enc]; cbn [is_nil] in H |- *.
  - exists (s2b "7BIT"). split; [|reflexivity]. apply (w_string_nrt q _ bs rest); [exact fits_7bit|exact H].
  - exists (ascii_upper (c :: enc)). split; [|reflexivity]. apply (w_string_nrt q _ bs rest); [|exact H].
    apply fits_upper. exact Hf.
Qed.

Lemma w_encoding_vfirst : forall q enc bs, w_encoding q enc = Some bs -> vfirst bs.
Proof.
  intros q enc bs H. unfold w_encoding in H. destruct (is_nil enc); eapply w_string_vfirst; eassumption.
Qed.
