(* Proofs/CmdProofs.v — C02 assembled: every client request reaches the backend as [norm_req]. *)
From GoImap.Base Require Import Bytes.
From GoImap.Model Require Import NumSet NumSetCorr MatchList Utf7 Wire Search ClientWrite CmdDate CmdTypes CmdClient CmdServer.
From GoImap.Proofs Require Import NumSetSpec Utf7Spec WireSpec WireLemmas WireProofs SearchSpec SearchProofs
  CmdDateProofs CmdSpec CmdPrim CmdSimple CmdFetch CmdSearch.
Open Scope N_scope.

Theorem req_delivery : forall c lp order tag q,
  wf_req q -> covers order -> wf_tag tag ->
  Forall2 (delivers lp tag) (w_req c order q) (norm_req c q).
Proof.
  intros c lp order tag q Hq Ho Ht.
  destruct (is_search q) eqn:Es.
  - destruct q; try discriminate. apply search_delivery; assumption.
  - destruct (is_fetch q) eqn:Ef.
    + destruct q; try discriminate. apply fetch_delivery; assumption.
    + apply simple_delivery; assumption.
Qed.

Theorem req_encodable : forall c order tag q,
  wf_req q -> c_cont c = Some true ->
  Forall (fun body => w_line tag body <> None) (w_req c order q).
Proof.
  intros c order tag q Hq Hc.
  destruct (is_search q) eqn:Es.
  - destruct q; try discriminate. apply search_encodable; assumption.
  - destruct (is_fetch q) eqn:Ef.
    + destruct q; try discriminate. apply fetch_encodable; assumption.
    + apply simple_encodable; assumption.
Qed.

(* the normalised search criteria select the same messages as the keys the caller's criteria
   stand for (C19's key semantics): nothing is weakened by the rebuild on the server *)
Theorem search_semantics : forall c m, wf_crit c -> (0 <= m_size m)%Z ->
  forallb wf_key (keys_sent c) = true ->
  matches m (norm_crit c) = forallb (key_matches m) (keys_sent c).
Proof.
  intros c m Hc Hm Hk.
  rewrite <- (apply_keys_sent c Hc).
  exact (keys_conjunction (keys_sent c) m Hm Hk).
Qed.
