(* Proofs/Utf7Lemmas.v — loop-level lemmas (enc_loop / dec_loop) for C16. *)
From GoImap.Base Require Import Bytes.
From GoImap.Model Require Import Utf7.
From GoImap.Proofs Require Import Utf7Spec Utf7Codec.
From Coq Require Import ZifyN ZifyNat ZifyBool.
Open Scope N_scope.

(* ---- N <-> ascii plumbing ---- *)
Lemma b2n_n2b x : x < 256 -> b2n (n2b x) = x.
Proof. intros H. unfold b2n, n2b. apply N_ascii_embedding. exact H. Qed.

Lemma n2b_b2n a : n2b (b2n a) = a.
Proof. unfold b2n, n2b. apply ascii_N_embedding. Qed.

Lemma map_b2n_n2b l : Forall (fun x => x < 256) l -> map b2n (map n2b l) = l.
Proof.
  induction 1; cbn [map]. reflexivity. rewrite b2n_n2b by assumption. f_equal. assumption.
Qed.

Lemma printable_Forall l : forallb printable l = true -> Forall (fun x => x < 256) l.
Proof.
  intros H. apply Forall_forall. intros x Hx. rewrite forallb_forall in H.
  apply printable_lt256. apply H. exact Hx.
Qed.

Lemma printable_b_map l : forallb printable l = true -> forallb printable_b (map n2b l) = true.
Proof.
  induction l; cbn [forallb map]; intros H. reflexivity.
  apply andb_true_iff in H. destruct H as [Ha Hl].
  unfold printable_b at 1. rewrite b2n_n2b by (apply printable_lt256; exact Ha).
  rewrite Ha, (IHl Hl). reflexivity.
Qed.

Lemma printable_b_unmap t : forallb printable (map b2n t) = true -> forallb printable_b t = true.
Proof.
  induction t; cbn [forallb map]; intros H. reflexivity.
  apply andb_true_iff in H. destruct H as [Ha Hl].
  unfold printable_b at 1. rewrite Ha, (IHt Hl). reflexivity.
Qed.

Lemma notin_map_b2n c b : ~ In (n2b c) b -> ~ In c (map b2n b).
Proof.
  intros H Hin. apply in_map_iff in Hin. destruct Hin as [x [Hx Hi]].
  apply H. rewrite <- Hx, n2b_b2n. exact Hi.
Qed.

(* ---- (1) the encoder output is printable ---- *)
Lemma b64_encode_printable b : forallb printable (b64_encode b) = true.
Proof.
  pose proof (b64_encode_ok b) as H. rewrite forallb_forall in *.
  intros x Hx. specialize (H x Hx). unfold b64ok in H.
  rewrite !andb_true_iff in H. tauto.
Qed.

Lemma flush_printable run : forallb printable (flush run) = true.
Proof.
  unfold flush. destruct run; [reflexivity|]. unfold encode_run.
  cbn [forallb]. rewrite forallb_app, b64_encode_printable. reflexivity.
Qed.

Lemma enc_loop_printable : forall s run, forallb printable (enc_loop s run) = true.
Proof.
  induction s as [|c r IH]; intros run; cbn [enc_loop].
  - apply flush_printable.
  - destruct (printable c) eqn:Ep; [|apply IH].
    rewrite !forallb_app, flush_printable, IH.
    destruct (c =? AMP); cbn [forallb]; [reflexivity|rewrite Ep; reflexivity].
Qed.

(* ---- decode_b64 ---- *)
Lemma decode_b64_inv seg out : decode_b64 seg = Some out ->
  exists b, b64_decode seg = Some b /\ Nat.odd (length b) = false /\
            utf8_of_utf16be (S (length b)) b = Some out.
Proof.
  unfold decode_b64. destruct (rev seg); [discriminate|].
  destruct (n =? 61); [discriminate|].
  destruct (b64_decode seg) as [b|]; [|discriminate].
  destruct (Nat.odd (length b)) eqn:E; [discriminate|].
  intros H. exists b. auto.
Qed.

Lemma ebytes_nonpr rs : forallb nonpr rs = true -> forallb nonpr (ebytes rs) = true.
Proof.
  intros H. unfold ebytes. rewrite forallb_flat_map.
  rewrite forallb_forall in *. intros x Hx. apply encode_rune_nonpr.
  specialize (H x Hx). unfold nonpr in H. destruct (printable x); [discriminate|reflexivity].
Qed.

Lemma decode_b64_runes seg out : decode_b64 seg = Some out ->
  exists rs, forallb scalar rs = true /\ forallb nonpr rs = true /\ out = ebytes rs.
Proof.
  intros H. apply decode_b64_inv in H. destruct H as [b [Hb [_ Hu]]].
  eapply utf8_of_utf16be_runes; [|exact Hu]. eapply b64_decode_bytes. exact Hb.
Qed.

Lemma decode_b64_alphabet seg out : decode_b64 seg = Some out -> forallb printable seg = true.
Proof.
  intros H. apply decode_b64_inv in H. destruct H as [b [Hb _]].
  apply b64_decode_alphabet in Hb. rewrite forallb_forall in *.
  intros x Hx. specialize (Hb x Hx). destruct (b64val x) eqn:E; [|discriminate].
  eapply b64val_printable. exact E.
Qed.

(* ---- (2) decoder: accepted input is printable ---- *)
Lemma dec_loop_input_printable : forall s m u, dec_loop s m = Some u ->
  forallb printable s = true /\
  match m with MB64 _ acc => forallb printable acc = true | MDirect _ => True end.
Proof.
  induction s as [|c r IH]; intros m u H; destruct m as [a|a acc]; cbn [dec_loop] in H.
  - split; [reflexivity|exact I].
  - discriminate.
  - destruct (printable c) eqn:Ep; cbn [negb] in H; [|discriminate].
    cbn [forallb]. rewrite Ep. split; [|exact I].
    destruct (c =? AMP).
    + apply IH in H. apply H.
    + destruct (dec_loop r (MDirect true)) eqn:E; [|discriminate].
      apply IH in E. apply E.
  - cbn [forallb]. destruct (N.eqb_spec c DASH) as [Ed|Ed].
    + subst c. rewrite printable_DASH. destruct acc as [|x acc].
      * destruct (dec_loop r (MDirect true)) eqn:E; [|discriminate].
        apply IH in E. split; [apply E|reflexivity].
      * destruct (negb a); [discriminate|].
        destruct (decode_b64 (rev (x :: acc))) as [b|] eqn:Edec; [|discriminate].
        destruct b as [|b0 b]; [discriminate|].
        destruct (dec_loop r (MDirect false)) eqn:E; [|discriminate].
        apply IH in E. split; [apply E|].
        apply decode_b64_alphabet in Edec. rewrite forallb_forall in *.
        intros y Hy. apply Edec. apply in_rev in Hy. exact Hy.
    + destruct ((c =? 13) || (c =? 10)); [discriminate|].
      apply IH in H. destruct H as [Hr Hacc]. cbn [forallb] in Hacc.
      apply andb_true_iff in Hacc. destruct Hacc as [Hc Hacc].
      rewrite Hc, Hr. split; [reflexivity|exact Hacc].
Qed.

(* ---- (2) decoder: rejections ---- *)
Lemma dec_loop_prefix_none : forall pre Y, (forall m, dec_loop Y m = None) ->
  forall m, dec_loop (pre ++ Y) m = None.
Proof.
  induction pre as [|c pre IH]; intros Y HY m; cbn [app]; [apply HY|].
  destruct m as [a|a acc]; cbn [dec_loop].
  - destruct (negb (printable c)); [reflexivity|].
    destruct (c =? AMP); rewrite (IH Y HY); reflexivity.
  - destruct (c =? DASH).
    + destruct acc; [rewrite (IH Y HY); reflexivity|].
      destruct (negb a); [reflexivity|].
      destruct (decode_b64 (rev (n :: acc))) as [[|? ?]|]; try reflexivity.
      rewrite (IH Y HY). reflexivity.
    + destruct ((c =? 13) || (c =? 10)); [reflexivity|]. apply (IH Y HY).
Qed.

Lemma dec_b64_run : forall b a acc rest, ~ In DASH b ->
  dec_loop (b ++ rest) (MB64 a acc) = None \/
  dec_loop (b ++ rest) (MB64 a acc) = dec_loop rest (MB64 a (rev b ++ acc)).
Proof.
  induction b as [|c b IH]; intros a acc rest Hn; cbn [app].
  - right. reflexivity.
  - cbn [dec_loop]. destruct (N.eqb_spec c DASH) as [Ed|Ed].
    { exfalso. apply Hn. left. exact Ed. }
    destruct ((c =? 13) || (c =? 10)); [left; reflexivity|].
    cbn [rev]. rewrite <- app_assoc. cbn [app]. apply IH.
    intros Hi. apply Hn. right. exact Hi.
Qed.

Lemma dec_b64_nodash : forall b a acc, ~ In DASH b -> dec_loop b (MB64 a acc) = None.
Proof.
  intros b a acc Hn. destruct (dec_b64_run b a acc [] Hn) as [H|H]; rewrite app_nil_r in H.
  - exact H.
  - rewrite H. reflexivity.
Qed.

Lemma dec_unterminated_tail b : ~ In DASH b -> forall m, dec_loop (AMP :: b) m = None.
Proof.
  intros Hn [a|a acc]; cbn [dec_loop].
  - rewrite printable_AMP. cbn [negb]. rewrite N.eqb_refl. apply dec_b64_nodash. exact Hn.
  - change (AMP =? DASH) with false. change ((AMP =? 13) || (AMP =? 10)) with false.
    cbv iota. apply dec_b64_nodash. exact Hn.
Qed.

Lemma rev_app_nonempty {A} (b acc : list A) : b <> [] -> rev b ++ acc <> [].
Proof.
  intros Hb H. apply app_eq_nil in H. destruct H as [H _].
  apply (f_equal (@rev A)) in H. rewrite rev_involutive in H. cbn in H. contradiction.
Qed.

Lemma dec_shift_then : forall b1 X, b1 <> [] -> ~ In DASH b1 ->
  dec_loop X (MDirect false) = None ->
  forall a acc, dec_loop (b1 ++ DASH :: X) (MB64 a acc) = None.
Proof.
  intros b1 X Hne Hn HX a acc.
  destruct (dec_b64_run b1 a acc (DASH :: X) Hn) as [H|H]; [exact H|]. rewrite H.
  cbn [dec_loop]. rewrite N.eqb_refl.
  pose proof (rev_app_nonempty b1 acc Hne) as Hacc.
  destruct (rev b1 ++ acc) as [|x l]; [congruence|].
  destruct (negb a); [reflexivity|].
  destruct (decode_b64 (rev (x :: l))) as [[|? ?]|]; try reflexivity.
  rewrite HX. reflexivity.
Qed.

Lemma dec_second_shift : forall b2 post, b2 <> [] -> ~ In DASH b2 ->
  dec_loop (AMP :: b2 ++ DASH :: post) (MDirect false) = None.
Proof.
  intros b2 post Hne Hn. cbn [dec_loop]. rewrite printable_AMP. cbn [negb]. rewrite N.eqb_refl.
  destruct (dec_b64_run b2 false [] (DASH :: post) Hn) as [H|H]; [exact H|]. rewrite H.
  cbn [dec_loop]. rewrite N.eqb_refl.
  pose proof (rev_app_nonempty b2 [] Hne) as Hacc.
  destruct (rev b2 ++ []) as [|x l]; [congruence|]. reflexivity.
Qed.

Lemma dec_adjacent_tail : forall b1 b2 post, b1 <> [] -> b2 <> [] -> ~ In DASH b1 -> ~ In DASH b2 ->
  forall m, dec_loop (AMP :: b1 ++ DASH :: AMP :: b2 ++ DASH :: post) m = None.
Proof.
  intros b1 b2 post H1 H2 Hn1 Hn2 [a|a acc]; cbn [dec_loop].
  - rewrite printable_AMP. cbn [negb]. rewrite N.eqb_refl.
    apply dec_shift_then; auto. apply dec_second_shift; auto.
  - change (AMP =? DASH) with false. change ((AMP =? 13) || (AMP =? 10)) with false.
    cbv iota. apply dec_shift_then; auto. apply dec_second_shift; auto.
Qed.

(* ---- (4) decoder output is the UTF-8 of scalar values ---- *)
Lemma ebytes_app a b : ebytes (a ++ b) = ebytes a ++ ebytes b.
Proof. unfold ebytes. apply flat_map_app. Qed.

Lemma dec_loop_runes : forall s m o, dec_loop s m = Some o ->
  exists rs, forallb scalar rs = true /\ o = ebytes rs.
Proof.
  induction s as [|c r IH]; intros m o H; destruct m as [a|a acc]; cbn [dec_loop] in H.
  - inversion H. exists []. auto.
  - discriminate.
  - destruct (printable c) eqn:Ep; cbn [negb] in H; [|discriminate].
    destruct (c =? AMP).
    + eapply IH. exact H.
    + destruct (dec_loop r (MDirect true)) eqn:E; [|discriminate].
      apply IH in E. destruct E as [rs [Hs Ho]]. inversion H; subst.
      exists (c :: rs). cbn [forallb ebytes flat_map]. fold (ebytes rs).
      rewrite Hs, (scalar_printable c Ep), (encode_rune_printable c Ep). auto.
  - destruct (c =? DASH).
    + destruct acc as [|x acc].
      * destruct (dec_loop r (MDirect true)) eqn:E; [|discriminate].
        apply IH in E. destruct E as [rs [Hs Ho]]. inversion H; subst.
        exists (AMP :: rs). cbn [forallb ebytes flat_map]. fold (ebytes rs).
        rewrite Hs. auto.
      * destruct (negb a); [discriminate|].
        destruct (decode_b64 (rev (x :: acc))) as [b|] eqn:Edec; [|discriminate].
        destruct b as [|b0 b]; [discriminate|].
        destruct (dec_loop r (MDirect false)) eqn:E; [|discriminate].
        apply IH in E. destruct E as [rs [Hs Ho]]. inversion H; subst.
        apply decode_b64_runes in Edec. destruct Edec as [rs1 [Hs1 [_ Ho1]]].
        exists (rs1 ++ rs). rewrite forallb_app, Hs1, Hs, ebytes_app, <- Ho1. auto.
    + destruct ((c =? 13) || (c =? 10)); [discriminate|]. eapply IH. exact H.
Qed.

(* ---- (5) round trip ---- *)
Lemma enc_loop_nonpr : forall bs rest run, forallb nonpr bs = true ->
  enc_loop (bs ++ rest) run = enc_loop rest (rev bs ++ run).
Proof.
  induction bs as [|c bs IH]; intros rest run H; cbn [app]. reflexivity.
  cbn [forallb] in H. apply andb_true_iff in H. destruct H as [Hc H].
  cbn [enc_loop]. unfold nonpr in Hc. destruct (printable c); [discriminate|].
  rewrite (IH _ _ H). cbn [rev]. rewrite <- app_assoc. reflexivity.
Qed.

Lemma dec_char r rest a : printable r = true ->
  dec_loop ((if r =? AMP then [AMP; DASH] else [r]) ++ rest) (MDirect a) =
  option_map (cons r) (dec_loop rest (MDirect true)).
Proof.
  intros Hp. destruct (N.eqb_spec r AMP) as [E|E].
  - subst r. cbn [app dec_loop]. rewrite printable_AMP. cbn [negb].
    rewrite !N.eqb_refl. reflexivity.
  - cbn [app dec_loop]. rewrite Hp. cbn [negb].
    destruct (N.eqb_spec r AMP); [contradiction|]. reflexivity.
Qed.

Lemma dec_b64_accum : forall cs a acc rest, forallb b64ok cs = true ->
  dec_loop (cs ++ rest) (MB64 a acc) = dec_loop rest (MB64 a (rev cs ++ acc)).
Proof.
  induction cs as [|c cs IH]; intros a acc rest H; cbn [app]. reflexivity.
  cbn [forallb] in H. apply andb_true_iff in H. destruct H as [Hc H].
  cbn [dec_loop]. unfold b64ok in Hc. rewrite !andb_true_iff, !negb_true_iff in Hc.
  destruct Hc as [[[[_ H45] _] H13] H10].
  change DASH with 45. rewrite H45, H13, H10. cbn [orb].
  rewrite (IH _ _ _ H). cbn [rev]. rewrite <- app_assoc. reflexivity.
Qed.

Lemma decode_b64_encode ps : ps <> [] -> forallb scalar ps = true -> forallb nonpr ps = true ->
  decode_b64 (b64_encode (wbytes ps)) = Some (ebytes ps).
Proof.
  intros Hne Hs Hn. unfold decode_b64.
  pose proof (b64_encode_nonempty _ (wbytes_nonempty ps Hne)) as Hcs.
  pose proof (b64_encode_ok (wbytes ps)) as Hok.
  destruct (rev (b64_encode (wbytes ps))) as [|x l] eqn:Er.
  { apply (f_equal (@rev N)) in Er. rewrite rev_involutive in Er. cbn in Er. contradiction. }
  assert (Hx : In x (b64_encode (wbytes ps))).
  { apply in_rev. rewrite Er. left. reflexivity. }
  rewrite forallb_forall in Hok. specialize (Hok x Hx). unfold b64ok in Hok.
  rewrite !andb_true_iff, !negb_true_iff in Hok.
  destruct Hok as [[[[_ _] H61] _] _]. rewrite H61.
  rewrite b64_roundtrip by apply wbytes_bytes.
  rewrite wbytes_even. apply utf8_of_wbytes; auto.
  pose proof (wbytes_length ps). lia.
Qed.

Lemma ebytes_nonempty ps : ps <> [] -> ebytes ps <> [].
Proof.
  destruct ps as [|p ps]; [congruence|]. intros _. cbn [ebytes flat_map].
  pose proof (encode_rune_nonempty p). destruct (encode_rune p); [congruence|discriminate].
Qed.

Lemma dec_block ps rest : ps <> [] -> forallb scalar ps = true -> forallb nonpr ps = true ->
  dec_loop (encode_run (ebytes ps) ++ rest) (MDirect true) =
  option_map (app (ebytes ps)) (dec_loop rest (MDirect false)).
Proof.
  intros Hne Hs Hn. unfold encode_run.
  rewrite utf16be_of_ebytes by (auto; lia).
  cbn [app dec_loop]. rewrite printable_AMP. cbn [negb]. rewrite N.eqb_refl.
  rewrite <- app_assoc. rewrite dec_b64_accum by apply b64_encode_ok.
  cbn [app dec_loop]. rewrite N.eqb_refl. rewrite app_nil_r.
  pose proof (b64_encode_nonempty _ (wbytes_nonempty ps Hne)) as Hcs.
  destruct (rev (b64_encode (wbytes ps))) as [|x l] eqn:Er.
  { apply (f_equal (@rev N)) in Er. rewrite rev_involutive in Er. cbn in Er. contradiction. }
  cbn [negb]. rewrite <- Er, rev_involutive.
  rewrite (decode_b64_encode ps Hne Hs Hn).
  pose proof (ebytes_nonempty ps Hne) as He.
  destruct (ebytes ps); [congruence|reflexivity].
Qed.

Lemma option_map_app_nil {A} (x : option (list A)) : option_map (app []) x = x.
Proof. destruct x; reflexivity. Qed.

Lemma dec_flush ps rest : forallb scalar ps = true -> forallb nonpr ps = true ->
  dec_loop (flush (rev (ebytes ps)) ++ rest) (MDirect true) =
  option_map (app (ebytes ps))
    (dec_loop rest (MDirect (match ps with [] => true | _ => false end))).
Proof.
  intros Hs Hn. destruct ps as [|p ps].
  - cbn [ebytes flat_map rev flush app]. rewrite option_map_app_nil. reflexivity.
  - assert (Hne : p :: ps <> []) by discriminate.
    pose proof (ebytes_nonempty _ Hne) as He.
    unfold flush. destruct (rev (ebytes (p :: ps))) as [|x l] eqn:Er.
    { apply (f_equal (@rev N)) in Er. rewrite rev_involutive in Er. cbn [rev] in Er. contradiction. }
    rewrite <- Er, rev_involutive. apply dec_block; auto.
Qed.

Lemma roundtrip_loop : forall rs ps, forallb scalar rs = true ->
  forallb scalar ps = true -> forallb nonpr ps = true ->
  dec_loop (enc_loop (ebytes rs) (rev (ebytes ps))) (MDirect true) =
  Some (ebytes ps ++ ebytes rs).
Proof.
  induction rs as [|r rs IH]; intros ps Hs Hps Hn.
  - cbn [ebytes flat_map enc_loop].
    rewrite <- (app_nil_r (flush _)). fold (ebytes ps). rewrite dec_flush by assumption.
    cbn [dec_loop option_map]. reflexivity.
  - cbn [forallb] in Hs. apply andb_true_iff in Hs. destruct Hs as [Hr Hs].
    cbn [ebytes flat_map]. fold (ebytes rs). fold (ebytes ps).
    destruct (printable r) eqn:Ep.
    + rewrite (encode_rune_printable r Ep). cbn [app enc_loop]. rewrite Ep.
      rewrite dec_flush by assumption. rewrite dec_char by exact Ep.
      change (@nil N) with (rev (ebytes [])) at 1.
      rewrite (IH [] Hs eq_refl eq_refl). cbn [ebytes flat_map app option_map]. reflexivity.
    + rewrite enc_loop_nonpr by (apply encode_rune_nonpr; exact Ep).
      rewrite <- rev_app_distr.
      replace (ebytes ps ++ encode_rune r) with (ebytes (ps ++ [r])).
      2:{ rewrite ebytes_app. cbn [ebytes flat_map]. rewrite app_nil_r. reflexivity. }
      rewrite IH; auto.
      * rewrite ebytes_app. cbn [ebytes flat_map]. rewrite app_nil_r, <- app_assoc. reflexivity.
      * rewrite forallb_app, Hps. cbn [forallb]. rewrite Hr. reflexivity.
      * rewrite forallb_app, Hn. cbn [forallb]. unfold nonpr. rewrite Ep. reflexivity.
Qed.
