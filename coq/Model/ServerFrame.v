(* Model/ServerFrame.v — byte-level model of the server's command reader: Conn.serve's loop,
   Conn.readCommand (tag, name, dispatch, DiscardLine, tagged status), the argument parsers of
   the commands listed in [dispatch] below, Decoder.Literal with Conn.checkBufferedLiteral /
   acceptLiteral, and handleAppend's literal path.  Input = the client's whole byte stream;
   output = response tokens, backend calls, and the input offsets at which commands started. *)
From GoImap.Base Require Import Bytes.
From GoImap.Model Require Import NumSet MatchList Utf7 Wire ServerConn.
Open Scope N_scope.

(* response tokens, in order *)
Inductive sout :=
| OTagged (tag : bytes) (cls : N)      (* 0 OK, 1 NO, 2 BAD *)
| OCont                                (* "+ ..." *)
| OUntagged (kind : N)                 (* 1 CAPABILITY 2 ENABLED 3 select data block 4 CLOSED *)
| OBye.

Inductive scall :=
| SLogin (u p : bytes) | SCreate (m : bytes) (use : list bytes) | SDelete (m : bytes) | SRename (a b : bytes)
| SSubscribe (m : bytes) | SUnsubscribe (m : bytes) | SSelect (m : bytes) (ro : bool) | SUnselect
| SExpunge | SAppend (m : bytes) (flags : list bytes) (date : bytes) (payload : bytes) | SIdle.

Record fcfg := mkFcfg {
  f_insecure : bool;        (* InsecureAuth (plaintext transport in this model) *)
  f_literal_plus : bool;    (* server advertises LITERAL+ *)
  f_tlsconfig : bool;
  f_date_ok : bytes -> bool; (* time.Parse(DateTimeLayout, s) succeeds — library oracle *)
  f_append_fails : bytes -> bool (* backend oracle: Session.Append on this mailbox returns an error
                                    (possibly without reading the message) *)
}.

Definition APPEND_LIMIT : N := 104857600.

(* parse results:
   SOk v rest conts        matched
   SNo rest                not this element, no decoder error
   SErr cls close conts rest   failed: cls 1 = NO, 2 = BAD, 3 = the input ended (the server
                           answers NO [SERVERBUG] and then sees EOF); close = the connection
                           must end after the tagged response (refused non-synchronising
                           literal); rest = where the decoder stopped
   conts = continuation requests written while parsing *)
Inductive sres (A : Type) :=
| SOk (v : A) (rest : bytes) (conts : nat)
| SNo (rest : bytes)
| SErr (cls : N) (close : bool) (conts : nat) (rest : bytes).
Arguments SOk {A}. Arguments SNo {A}. Arguments SErr {A}.

Definition io_or_syntax (s : bytes) : N := match s with [] => 3 | _ => 2 end.

(* an Expect-style use of a Wire decoder: no match = syntax error where the decoder stopped *)
Definition expect {A} (s : bytes) (r : dres A) : sres A :=
  match r with
  | DOk v rest => SOk v rest O
  | DNo rest => SErr (io_or_syntax rest) false O rest
  | DErr => SErr (io_or_syntax s) false O s
  end.

(* sequencing: continuation counts add up; a missing mandatory element is a syntax error *)
Definition bind {A B} (r : sres A) (f : A -> bytes -> sres B) : sres B :=
  match r with
  | SOk v rest k =>
      match f v rest with
      | SOk w rest' k' => SOk w rest' (k + k')
      | SNo rest' => SErr (io_or_syntax rest') false k rest'
      | SErr c cl k' rest' => SErr c cl (k + k') rest'
      end
  | SNo rest => SErr (io_or_syntax rest) false O rest
  | SErr c cl k rest => SErr c cl k rest
  end.
Notation "p >>= f" := (bind p f) (at level 62, left associativity).
Definition ret {A} (v : A) (rest : bytes) : sres A := SOk v rest O.

(* Decoder.LiteralReader on the server side: (size, nonSync), rest after the CRLF *)
(* DiscardLine's view of the rest of the current line: the bytes up to the first LF (a CR
   that is not followed by LF is part of the line), without the optional CR and the optional
   SP that Decoder.CRLF accepts before LF; reversed.  None = the input ends before LF. *)
Definition not_lf (c : byte) : bool := negb (beqb c LF_).
Definition strip_last (x : byte) (rtext : bytes) : bytes :=
  match rtext with c :: r => if beqb c x then r else rtext | [] => [] end.
Definition line_tail_rev (s : bytes) : option (bytes * bytes) :=
  match take_while not_lf s with
  | None => None
  | Some (text, r) =>
      Some (strip_last SP_ (strip_last CR_ (rev text)), match r with _ :: x => x | [] => [] end)
  end.
(* the rest of the current line ends with "+}" *)
Definition partial_header_nonsync (s : bytes) : bool :=
  match line_tail_rev s with
  | Some (c1 :: c2 :: _, _) => (b2n c1 =? 125) && (b2n c2 =? 43)
  | _ => false
  end.

Definition lit_header (s : bytes) : sres (N * bool) :=
  match dec_special (ch "{") s with
  | DErr => SErr 3 false O s
  | DNo r => SNo r
  | DOk _ r =>
      match dec_number64 r with
      | DOk n r1 =>
          let '(nonsync, r2) := match r1 with x :: t => if b2n x =? 43 then (true, t) else (false, r1) | [] => (false, r1) end in
          match dec_special (ch "}") r2 with
          | DOk _ r3 =>
              match dec_crlf r3 with
              | DOk _ r4 => SOk (n, nonsync) r4 O
              | DNo r' => SErr (io_or_syntax r') (partial_header_nonsync r') O r'
              | DErr => SErr 3 false O r3
              end
          | DNo r' => SErr 2 (partial_header_nonsync r') O r'   (* Decoder.litHeader is still set *)
          | DErr => SErr 3 false O r2
          end
      | DNo r' =>
          (* the size is not a readable number (e.g. it overflows int64): Decoder.litHeader stays
             set, and DiscardLine treats a line that then ends in "+}" as an announced
             non-synchronising literal: the connection is closed after the response *)
          SErr (io_or_syntax r') (partial_header_nonsync r') O r'
      | DErr => SErr 3 false O r
      end
  end.

(* Decoder.Literal with Conn.checkBufferedLiteral *)
Definition s_literal (s : bytes) : sres bytes :=
  match lit_header s with
  | SNo r => SNo r
  | SErr c cl k r => SErr c cl k r
  | SOk (n, nonsync) r _ =>
      (* NO [TOOBIG]; close if non-sync.  Class 4 = NO with Decoder.crlf still set by the
         CRLF of the literal header: DiscardLine must not skip the next line *)
      if 4096 <? n then SErr 4 nonsync O r
      else SOk (firstn (N.to_nat n) r) (skipn (N.to_nat n) r) (if nonsync then O else 1%nat)
  end.

Definition s_string (s : bytes) : sres bytes :=
  match dec_quoted s with
  | DOk v r => SOk v r O
  | DErr => SErr 3 false O []                                  (* only EOF makes Quoted fail *)
  | DNo _ => s_literal s
  end.

(* Decoder.ExpectAString *)
Definition s_astring (s : bytes) : sres bytes :=
  match s_string s with
  | SOk v r k => SOk v r k
  | SErr c cl k r => SErr c cl k r
  | SNo _ => expect s (dec_atom s)
  end.

(* Decoder.ExpectMailbox *)
Definition s_mailbox (s : bytes) : sres bytes :=
  match s_astring s with
  | SOk name r k =>
      if equal_fold_ascii name INBOX then SOk INBOX r k
      else match utf7_decode name with
           | Some n => SOk n r k
           | None =>
               (* a plain Go error: NO [SERVERBUG].  If the name came as a literal,
                  LiteralReader.Read has cleared Decoder.crlf when the literal data ended, so
                  DiscardLine skips the rest of the line like after any other error *)
               SErr 1 false k r
           end
  | SNo r => SNo r
  | SErr c cl k r => SErr c cl k r
  end.

Definition s_sp (s : bytes) : sres unit := expect s (dec_sp s).
Definition s_crlf (s : bytes) : sres unit := expect s (dec_crlf s).
Definition s_special (c : byte) (s : bytes) : sres unit := expect s (dec_special c s).
Definition s_atom (s : bytes) : sres bytes := expect s (dec_atom s).

(* Decoder.Text / bufio.ReadLine / DiscardLine *)
Definition not_eol (c : byte) : bool := negb (beqb c CR_ || beqb c LF_).
Fixpoint ends_nonsync_lit (rtext : bytes) : bool :=   (* rtext = reversed discarded text *)
  match rtext with
  | c1 :: c2 :: r =>
      (b2n c1 =? 125) && (b2n c2 =? 43) &&            (* "+}" *)
      (fix digits (r : bytes) (seen : bool) : bool :=
         match r with
         | [] => false
         | d :: r' => if is_digit d then digits r' true else seen && (b2n d =? 123)
         end) r false
  | _ => false
  end.
(* DiscardLine: rest after the line (which ends at the first LF), and whether the discarded
   text announced a non-synchronising literal ("{n+}", then optional SP, optional CR, LF) *)
Definition discard_line (crlf_seen : bool) (s : bytes) : bytes * bool :=
  if crlf_seen then (s, false)
  else
    match line_tail_rev s with
    | None => ([], false)                              (* EOF while discarding *)
    | Some (rtext, r') => (r', ends_nonsync_lit rtext)
    end.
(* bufio.Reader.ReadLine (lines up to the buffer size): Some (line without CRLF / LF, rest) *)
Fixpoint read_line (s : bytes) : option (bytes * bytes) :=
  match s with
  | [] => None
  | c :: r =>
      if beqb c LF_ then Some ([], r)
      else match read_line r with
           | Some (l, rest) =>
               Some (match l with [] => if beqb c CR_ then [] else [c] | _ => c :: l end, rest)
           | None => None
           end
  end.

(* ---- command handlers ------------------------------------------------------------------ *)

(* what a handler that parsed its whole line decides *)
Record hok := mkOk { k_calls : list scall; k_outs : list sout; k_cls : N; k_st : cstate }.

(* outcome of a handler *)
Record hres := mkH {
  h_calls : list scall;
  h_outs : list sout;     (* written before the tagged completion *)
  h_cls : N;              (* 0 OK 1 NO 2 BAD 3 input ended *)
  h_st : cstate;
  h_rest : bytes;
  h_crlf : bool;          (* Decoder.crlf: the line has been consumed up to its CRLF *)
  h_close : bool
}.

Definition conts_out (k : nat) : list sout := repeat OCont k.

Definition finish (st0 : cstate) (r : sres hok) : hres :=
  match r with
  | SOk o rest k => mkH (k_calls o) (conts_out k ++ k_outs o) (k_cls o) (k_st o) rest true false
  | SNo rest => mkH [] [] (io_or_syntax rest) st0 rest false false
  | SErr c cl k rest => mkH [] (conts_out k) (if c =? 4 then 1 else c) st0 rest (c =? 4) cl
  end.

Definition done (calls : list scall) (outs : list sout) (cls : N) (st' : cstate) (rest : bytes) : sres hok :=
  SOk (mkOk calls outs cls st') rest O.

Definition canon_attr_list (l : list bytes) : list bytes := map canonical_attr l.

(* flag *(SP flag) ")" with internal.ExpectFlag *)
Fixpoint flag_items (fuel : nat) (s : bytes) : sres (list bytes) :=
  match fuel with
  | O => SErr 2 false O s
  | S f =>
      bind (expect s (dec_flag s)) (fun fl r1 =>
      match dec_special (ch ")") r1 with
      | DOk _ r' => SOk [fl] r' O
      | DErr => SErr 3 false O r1
      | DNo _ =>
          bind (s_sp r1) (fun _ r2 =>
          bind (flag_items f r2) (fun l r3 => SOk (fl :: l) r3 O))
      end)
  end.
(* Decoder.List(ExpectFlag): SNo = not a list *)
Definition flag_list (s : bytes) : sres (list bytes) :=
  match dec_special (ch "(") s with
  | DErr => SErr 3 false O s
  | DNo r => SNo r
  | DOk _ r =>
      match dec_special (ch ")") r with
      | DOk _ r' => SOk [] r' O
      | DErr => SErr 3 false O r
      | DNo _ => flag_items (S (length r)) r
      end
  end.

Definition guard (ok : bool) (c : conn) (calls : list scall) (outs : list sout) (st' : cstate) (rest : bytes) : sres hok :=
  if ok then done calls outs 0 st' rest else done [] [] 2 (st c) rest.

(* one-mailbox commands: SP mailbox CRLF *)
Definition h_mailbox1 (mk : bytes -> scall) (c : conn) (s : bytes) : sres hok :=
  bind (s_sp s) (fun _ r1 => bind (s_mailbox r1) (fun m r2 => bind (s_crlf r2) (fun _ r3 =>
  guard (check_state SAuth c) c [mk m] [] (st c) r3))).

Definition just_crlf (c : conn) (s : bytes) (k : bytes -> sres hok) : sres hok :=
  bind (s_crlf s) (fun _ r => k r).

Definition name_is (nm : bytes) (k : string) : bool := bytes_eqb nm (s2b k).
Arguments name_is nm k%string.

Definition handle_cmd (cfg : fcfg) (c : conn) (name : bytes) (s : bytes) : hres :=
  let st0 := st c in
  let nm := ascii_upper name in
  if name_is nm "NOOP" || name_is nm "CHECK" then finish st0 (just_crlf c s (fun r => done [] [] 0 st0 r))
  else if name_is nm "CAPABILITY" then finish st0 (just_crlf c s (fun r => done [] [OUntagged 1] 0 st0 r))
  else if name_is nm "LOGOUT" then finish st0 (just_crlf c s (fun r => done [] [OBye] 0 SLogout r))
  else if name_is nm "STARTTLS" then
    finish st0 (just_crlf c s (fun r => done [] [] (if f_tlsconfig cfg then 9 else 1) st0 r))
  else if name_is nm "LOGIN" then
    finish st0 (
      bind (s_sp s) (fun _ r1 => bind (s_astring r1) (fun u r2 => bind (s_sp r2) (fun _ r3 =>
      bind (s_astring r3) (fun p r4 => bind (s_crlf r4) (fun _ r5 =>
      if negb (check_state SNotAuth c) then done [] [] 2 st0 r5
      else if negb (f_insecure cfg) then done [] [] 1 st0 r5
      else done [SLogin u p] [] 0 SAuth r5))))))
  else if name_is nm "DELETE" then finish st0 (h_mailbox1 SDelete c s)
  else if name_is nm "SUBSCRIBE" then finish st0 (h_mailbox1 SSubscribe c s)
  else if name_is nm "UNSUBSCRIBE" then finish st0 (h_mailbox1 SUnsubscribe c s)
  else if name_is nm "CREATE" then
    finish st0 (
      bind (s_sp s) (fun _ r0 => bind (s_mailbox r0) (fun m r1 =>
      match dec_sp r1 with
      | DOk _ r2 =>
          bind (s_special (ch "(") r2) (fun _ r3 => bind (s_atom r3) (fun a r4 => bind (s_sp r4) (fun _ r5 =>
          if bytes_eqb (ascii_upper a) (s2b "USE") then
            bind (flag_list r5) (fun fl r6 => bind (s_special (ch ")") r6) (fun _ r7 => bind (s_crlf r7) (fun _ r8 =>
            guard (check_state SAuth c) c [SCreate m (canon_attr_list fl)] [] st0 r8)))
          else SErr 2 false O r5)))
      | DNo r2 => bind (s_crlf r2) (fun _ r3 => guard (check_state SAuth c) c [SCreate m []] [] st0 r3)
      | DErr => bind (s_crlf r1) (fun _ r3 => guard (check_state SAuth c) c [SCreate m []] [] st0 r3)
      end)))
  else if name_is nm "RENAME" then
    finish st0 (
      bind (s_sp s) (fun _ r1 => bind (s_mailbox r1) (fun a r2 => bind (s_sp r2) (fun _ r3 =>
      bind (s_mailbox r3) (fun b r4 => bind (s_crlf r4) (fun _ r5 =>
      guard (check_state SAuth c) c [SRename a b] [] st0 r5))))))
  else if name_is nm "SELECT" || name_is nm "EXAMINE" then
    finish st0 (
      bind (s_sp s) (fun _ r1 => bind (s_mailbox r1) (fun m r2 => bind (s_crlf r2) (fun _ r3 =>
      let was := match st0 with SSelected => true | _ => false end in
      guard (check_state SAuth c) c
            ((if was then [SUnselect] else []) ++ [SSelect m (name_is nm "EXAMINE")])
            ((if was then [OUntagged 4] else []) ++ [OUntagged 3]) SSelected r3))))
  else if name_is nm "UNSELECT" || name_is nm "CLOSE" then
    finish st0 (just_crlf c s (fun r =>
      guard (check_state SSelected c) c ((if name_is nm "CLOSE" then [SExpunge] else []) ++ [SUnselect]) [] SAuth r))
  else if name_is nm "EXPUNGE" then
    finish st0 (just_crlf c s (fun r => guard (check_state SSelected c) c [SExpunge] [] st0 r))
  else if name_is nm "ENABLE" then
    finish st0 (
      (fix caps (fuel : nat) (s : bytes) : sres hok :=
         match fuel with
         | O => SErr 2 false O s
         | S f =>
             match dec_sp s with
             | DOk _ r => bind (s_atom r) (fun _ r' => caps f r')
             | DNo r => bind (s_crlf r) (fun _ r' => guard (check_state SAuth c) c [] [OUntagged 2] st0 r')
             | DErr => bind (s_crlf s) (fun _ r' => guard (check_state SAuth c) c [] [OUntagged 2] st0 r')
             end
         end) (S (length s)) s)
  else if name_is nm "IDLE" then
    finish st0 (
      bind (s_crlf s) (fun _ rest =>
      if negb (check_state SAuth c) then done [] [] 2 st0 rest
      else
        (* "+ idling", then one line (bufio.ReadLine) that must be DONE; EOF ends IDLE quietly *)
        match read_line rest with
        | None => done [SIdle] [OCont] 0 st0 []
        | Some (line, r2) =>
            if bytes_eqb line (s2b "DONE") then done [SIdle] [OCont] 0 st0 r2
            else done [SIdle] [OCont] 2 st0 r2
        end))
  else if name_is nm "APPEND" then
    match bind (s_sp s) (fun _ r0 => bind (s_mailbox r0) (fun m r1 => bind (s_sp r1) (fun _ r2 => SOk m r2 O))) with
    | SOk m r2 k =>
        (* optional flag list followed by SP *)
        let fl := match flag_list r2 with
                  | SNo _ => SOk [] r2 O
                  | SOk l r' k' => bind (s_sp r') (fun _ r'' => SOk l r'' k')
                  | SErr c1 cl k' r' => SErr c1 cl k' r'
                  end in
        match fl with
        | SOk flags r3 _ =>
            (* internal.DecodeDateTime: optional quoted date-time, then SP; a date that does not
               parse is a plain Go error: NO [SERVERBUG] *)
            let dt := match dec_quoted r3 with
                      | DOk d r' => if f_date_ok cfg d then bind (s_sp r') (fun _ r'' => SOk d r'' O) else SErr 1 false O r'
                      | DNo _ => SOk [] r3 O
                      | DErr => SErr 3 false O []
                      end in
            match dt with
            | SOk date r4 _ =>
                match dec_atom r4 with
                | DOk _ r' => finish st0 (SErr 2 false k r')           (* data extension: not modelled *)
                | DErr => finish st0 (SErr 3 false k r4)
                | DNo _ =>
                    let r5 := match r4 with x :: t => if b2n x =? 126 then t else r4 | [] => r4 end in
                    match lit_header r5 with
                    | SOk (n, nonsync) r6 _ =>
                        if APPEND_LIMIT <? n then finish st0 (SErr 4 nonsync k r6)
                        else if nonsync && (4096 <? n) && negb (f_literal_plus cfg) then finish st0 (SErr 2 true k r6)
                        else
                          let k' := if nonsync then k else S k in
                          let payload := firstn (N.to_nat n) r6 in
                          let r7 := skipn (N.to_nat n) r6 in
                          if negb (check_state SAuth c) then
                            (* literal discarded, dec.CRLF() attempted, BAD *)
                            match dec_crlf r7 with
                            | DOk _ r8 => mkH [] (conts_out k') 2 st0 r8 true false
                            | DNo r8 => mkH [] (conts_out k') 2 st0 r8 false false
                            | DErr => mkH [] (conts_out k') 2 st0 r7 false false
                            end
                          else
                            match dec_crlf r7 with
                            | DOk _ r8 => mkH [SAppend m flags date payload] (conts_out k') (if f_append_fails cfg m then 1 else 0) st0 r8 true false
                            | DNo r8 => mkH [SAppend m flags date payload] (conts_out k') (io_or_syntax r8) st0 r8 false false
                            | DErr => mkH [SAppend m flags date payload] (conts_out k') 3 st0 r7 false false
                            end
                    | SErr c1 cl _ r' => finish st0 (SErr c1 cl k r')
                    | SNo r' => finish st0 (SErr (io_or_syntax r') false k r')
                    end
                end
            | SErr c1 cl _ r' => finish st0 (SErr c1 cl k r')
            | SNo r' => finish st0 (SErr 2 false k r')
            end
        | SErr c1 cl _ r' => finish st0 (SErr c1 cl k r')
        | SNo r' => finish st0 (SErr 2 false k r')
        end
    | other => finish st0 (match other with
                           | SOk _ r k => SErr 2 false k r
                           | SNo r => SNo r
                           | SErr c1 cl k r => SErr c1 cl k r
                           end)
    end
  else
    (* unknown command *)
    match st0 with
    | SNotAuth => mkH [] [] 2 SLogout s false true
    | _ => mkH [] [] 2 st0 s false false
    end.

(* ---- readCommand and the serve loop ------------------------------------------------------ *)

Record fstate := mkF {
  fs_conn : conn;
  fs_out : list sout;          (* reversed *)
  fs_calls : list scall;       (* reversed *)
  fs_starts : list N           (* input offsets at which a command started, reversed *)
}.

(* one command; None = the connection ends (I/O error, logout, refused non-sync literal) *)
Definition read_command (cfg : fcfg) (f : fstate) (total : N) (s : bytes) : fstate * option bytes :=
  let off := total - N.of_nat (length s) in
  let f0 := mkF (fs_conn f) (fs_out f) (fs_calls f) (off :: fs_starts f) in
  match dec_atom s with
  | DOk tag r1 =>
      match dec_sp r1 with
      | DOk _ r2 =>
          match dec_atom r2 with
          | DOk name r3 =>
              (* a tag containing "+" is refused like an unreadable one (its tagged response would
                 read as a continuation request): the connection ends *)
              if existsb (fun b => b2n b =? 43) tag then (f0, None) else
              (* "UID" prefix: SP atom; the commands modelled here have no UID form *)
              let nr :=
                if bytes_eqb (ascii_upper name) (s2b "UID") then
                  match dec_sp r3 with
                  | DOk _ r4 => match dec_atom r4 with DOk sub r5 => Some (name ++ [SP_] ++ sub, r5) | _ => None end
                  | _ => None
                  end
                else Some (name, r3) in
              match nr with
              | None => (f0, None)
              | Some (name', r') =>
                  let h := handle_cmd cfg (fs_conn f) name' r' in
                  let '(rest, announced) := discard_line (h_crlf h) (h_rest h) in
                  let close := h_close h || (announced && negb (h_cls h =? 0)) in
                  let cls := if h_cls h =? 3 then 1 else h_cls h in
                  let outs := OTagged tag cls :: rev (h_outs h) ++ fs_out f0 in
                  let outs := if close then OBye :: outs else outs in
                  let f1 := mkF (mkConn (if close then SLogout else h_st h) (tls (fs_conn f)))
                                outs (rev (h_calls h) ++ fs_calls f0) (fs_starts f0) in
                  if (h_cls h =? 3) || close then (f1, None)
                  else match h_st h with
                       | SLogout => (f1, None)
                       | _ => (f1, Some rest)
                       end
              end
          | _ => (f0, None)
          end
      | _ => (f0, None)
      end
  | _ => (f0, None)
  end.

Fixpoint serve_bytes (fuel : nat) (cfg : fcfg) (f : fstate) (total : N) (s : bytes) : fstate :=
  match fuel with
  | O => f
  | S fu =>
      match s with
      | [] => f                                     (* dec.EOF() *)
      | _ =>
          match read_command cfg f total s with
          | (f', None) => f'
          | (f', Some rest) => serve_bytes fu cfg f' total rest
          end
      end
  end.

Definition run_stream (cfg : fcfg) (st0 : cstate) (s : bytes) : fstate :=
  serve_bytes (S (length s)) cfg (mkF (mkConn st0 false) [] [] []) (N.of_nat (length s)) s.
