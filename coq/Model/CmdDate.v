(* Model/CmdDate.v — the two date layouts of internal/internal.go as the commands use them:
     DateLayout     = "2-Jan-2006"                   (SEARCH date keys: Time.Format on the client,
                                                      internal.ExpectDate = time.Parse on the server)
     DateTimeLayout = "_2-Jan-2006 15:04:05 -0700"   (APPEND: Time.Format / internal.DecodeDateTime)
   time.Time values are modelled by what these two functions can see of them:
     seconds and nanoseconds since the zero time (0001-01-01 00:00:00 UTC) and the zone offset in
     effect (seconds east of UTC).  The civil-date conversion is the usual days<->(y,m,d)
     algorithm on the proleptic Gregorian calendar (Go's absDate / Date); the text side follows
     time.Format / time.Parse for exactly these two layouts.                                   *)
From GoImap.Base Require Import Bytes.
Open Scope Z_scope.

(* ---- time.Time as the command writers see it ------------------------------------------- *)
Record ctime := mkT { t_sec : Z; t_nsec : Z; t_off : Z }.
Definition tzero : ctime := mkT 0 0 0.
Definition t_is_zero (t : ctime) : bool := (t_sec t =? 0) && (t_nsec t =? 0).     (* Time.IsZero *)
Definition t_eqb (a b : ctime) : bool :=
  (t_sec a =? t_sec b) && (t_nsec a =? t_nsec b) && (t_off a =? t_off b).
Definition DAYSEC : Z := 86400.
(* local wall clock: day number since 0001-01-01 and second of the day *)
Definition t_day (t : ctime) : Z := (t_sec t + t_off t) / DAYSEC.
Definition t_sod (t : ctime) : Z := (t_sec t + t_off t) mod DAYSEC.
(* b.Sub(a) == 24*time.Hour (Sub saturates far outside this value) *)
Definition t_sub_is_24h (b a : ctime) : bool :=
  ((t_sec b - t_sec a) * 1000000000 + (t_nsec b - t_nsec a) =? DAYSEC * 1000000000).
(* the UTC midnight of a day number, as time.Parse(DateLayout) returns it *)
Definition t_of_day (d : Z) : ctime := mkT (d * DAYSEC) 0 0.

(* ---- civil dates ------------------------------------------------------------------------ *)
Definition is_leap (y : Z) : bool := ((y mod 4 =? 0) && negb (y mod 100 =? 0)) || (y mod 400 =? 0).
Definition days_in_month (y m : Z) : Z :=
  if m =? 2 then (if is_leap y then 29 else 28)
  else if (m =? 4) || (m =? 6) || (m =? 9) || (m =? 11) then 30 else 31.

(* day number (0 = 0001-01-01) -> (year, month 1..12, day 1..31) *)
Definition civil_of_days (d : Z) : Z * Z * Z :=
  let z := d + 306 in                          (* days since 0000-03-01 *)
  let era := z / 146097 in
  let doe := z mod 146097 in
  let yoe := (doe - doe / 1460 + doe / 36524 - doe / 146096) / 365 in
  let y0 := yoe + era * 400 in
  let doy := doe - (365 * yoe + yoe / 4 - yoe / 100) in
  let mp := (5 * doy + 2) / 153 in
  let dd := doy - (153 * mp + 2) / 5 + 1 in
  let mm := if mp <? 10 then mp + 3 else mp - 9 in
  (if mm <=? 2 then y0 + 1 else y0, mm, dd).

Definition days_of_civil (y m d : Z) : Z :=
  let y' := if m <=? 2 then y - 1 else y in
  let era := y' / 400 in
  let yoe := y' mod 400 in
  let mp := if 2 <? m then m - 3 else m + 9 in
  let doy := (153 * mp + 2) / 5 + d - 1 in
  let doe := yoe * 365 + yoe / 4 - yoe / 100 + doy in
  era * 146097 + doe - 306.

(* the day numbers of 0001-01-01 .. 9999-12-31: what a four-digit year can express *)
Definition MAXDAY : Z := 3652058.
Definition day_in_range (d : Z) : bool := (0 <=? d) && (d <=? MAXDAY).

(* ---- text ------------------------------------------------------------------------------- *)
Definition month_names : list bytes :=
  map s2b ["Jan"; "Feb"; "Mar"; "Apr"; "May"; "Jun"; "Jul"; "Aug"; "Sep"; "Oct"; "Nov"; "Dec"]%string.
Definition month_name (m : Z) : bytes := nth (Z.to_nat (m - 1)) month_names [].

Definition digit (v : Z) : byte := n2b (Z.to_N (48 + v mod 10)).
Definition dec2 (v : Z) : bytes := [digit (v / 10); digit v].                    (* zero padded *)
Definition dec4 (v : Z) : bytes := [digit (v / 1000); digit (v / 100); digit (v / 10); digit v].
Definition dec_day (v : Z) : bytes := if v <? 10 then [digit v] else dec2 v.   (* "2" *)
(* "2006": appendInt(year, 4) — zero padded to four digits, longer for years above 9999,
   with a sign for negative years *)
Definition dec_Z (v : Z) : bytes := dec_of_N (Z.to_N v).
Definition pad4 (v : Z) : bytes := if v <=? 9999 then dec4 v else dec_Z v.
Definition year_text (y : Z) : bytes := if y <? 0 then s2b "-" ++ pad4 (- y) else pad4 y.

(* Time.Format(DateLayout) of a time whose local day number is d *)
Definition fmt_date (d : Z) : bytes :=
  let '(y, m, dd) := civil_of_days d in
  dec_day dd ++ s2b "-" ++ month_name m ++ s2b "-" ++ year_text y.

(* Time.Format(DateTimeLayout) *)
Definition fmt_zone (off : Z) : bytes :=
  let zone := Z.quot off 60 in                     (* minutes, truncated toward zero *)
  let '(sign, z) := if zone <? 0 then (s2b "-", - zone) else (s2b "+", zone) in
  sign ++ dec2 (z / 60) ++ dec2 (z mod 60).
Definition fmt_datetime (t : ctime) : bytes :=
  let '(y, m, dd) := civil_of_days (t_day t) in
  let s := t_sod t in
  (if dd <? 10 then s2b " " ++ [digit dd] else dec2 dd) ++ s2b "-" ++ month_name m ++ s2b "-" ++ year_text y ++
  s2b " " ++ dec2 (s / 3600) ++ s2b ":" ++ dec2 ((s / 60) mod 60) ++ s2b ":" ++ dec2 (s mod 60) ++
  s2b " " ++ fmt_zone (t_off t).

(* ---- time.Parse for the two layouts ------------------------------------------------------ *)
Definition dval (c : byte) : Z := Z.of_N (b2n c) - 48.

(* getnum(s, fixed): one or two digits (exactly two when fixed) *)
Definition getnum (fixed : bool) (s : bytes) : option (Z * bytes) :=
  match s with
  | a :: r =>
      if is_digit a then
        match r with
        | b :: r' => if is_digit b then Some (dval a * 10 + dval b, r')
                     else if fixed then None else Some (dval a, r)
        | [] => if fixed then None else Some (dval a, r)
        end
      else None
  | [] => None
  end.

Definition expect_byte (c : byte) (s : bytes) : option bytes :=
  match s with x :: r => if beqb x c then Some r else None | [] => None end.

(* lookup(shortMonthNames, value): ASCII-case-insensitive three-letter prefix *)
Fixpoint lookup_month (names : list bytes) (i : Z) (s : bytes) : option (Z * bytes) :=
  match names with
  | [] => None
  | n :: rest =>
      if bytes_eqb (ascii_lower (firstn 3 s)) (ascii_lower n) then Some (i, skipn 3 s)
      else lookup_month rest (i + 1) s
  end.

(* stdLongYear: exactly four digits *)
Definition getyear (s : bytes) : option (Z * bytes) :=
  match s with
  | a :: b :: c :: d :: r =>
      if is_digit a && is_digit b && is_digit c && is_digit d
      then Some (dval a * 1000 + dval b * 100 + dval c * 10 + dval d, r) else None
  | _ => None
  end.

Definition valid_civil (y m d : Z) : bool := (1 <=? d) && (d <=? days_in_month y m).

(* "2-Jan-2006" (or "_2-Jan-2006" when [under]): (year, month, day), rest *)
Definition parse_dmy (under : bool) (s : bytes) : option (Z * Z * Z * bytes) :=
  let s0 := if under then match s with x :: r => if beqb x (ch " ") then r else s | [] => s end else s in
  match getnum false s0 with
  | Some (d, s1) =>
      match expect_byte (ch "-") s1 with
      | Some s2 =>
          match lookup_month month_names 1 s2 with
          | Some (m, s3) =>
              match expect_byte (ch "-") s3 with
              | Some s4 =>
                  match getyear s4 with
                  | Some (y, s5) => Some (y, m, d, s5)
                  | None => None
                  end
              | None => None
              end
          | None => None
          end
      | None => None
      end
  | None => None
  end.

(* time.Parse(DateLayout, s): the day number of the UTC midnight it returns *)
Definition parse_date (s : bytes) : option Z :=
  match parse_dmy false s with
  | Some (y, m, d, []) => if valid_civil y m d then Some (days_of_civil y m d) else None
  | _ => None
  end.

(* stdNumTZ "-0700" *)
Definition parse_zone (s : bytes) : option (Z * bytes) :=
  match s with
  | sg :: a :: b :: c :: d :: r =>
      if is_digit a && is_digit b && is_digit c && is_digit d then
        let hr := dval a * 10 + dval b in
        let mn := dval c * 10 + dval d in
        if (24 <? hr) || (60 <? mn) then None
        else if beqb sg (ch "+") then Some ((hr * 60 + mn) * 60, r)
        else if beqb sg (ch "-") then Some (- ((hr * 60 + mn) * 60), r)
        else None
      else None
  | _ => None
  end.

(* time.Parse(DateTimeLayout, s) *)
Definition parse_datetime (s : bytes) : option ctime :=
  match parse_dmy true s with
  | Some (y, m, d, s1) =>
      match expect_byte (ch " ") s1 with
      | Some s2 =>
          match getnum false s2 with
          | Some (hh, s3) =>
              match expect_byte (ch ":") s3 with
              | Some s4 =>
                  match getnum true s4 with
                  | Some (mi, s5) =>
                      match expect_byte (ch ":") s5 with
                      | Some s6 =>
                          match getnum true s6 with
                          | Some (ss, s7) =>
                              match expect_byte (ch " ") s7 with
                              | Some s8 =>
                                  match parse_zone s8 with
                                  | Some (off, []) =>
                                      if valid_civil y m d && (hh <? 24) && (mi <? 60) && (ss <? 60) then
                                        Some (mkT (days_of_civil y m d * DAYSEC + hh * 3600 + mi * 60 + ss - off) 0 off)
                                      else None
                                  | _ => None
                                  end
                              | None => None
                              end
                          | None => None
                          end
                      | None => None
                      end
                  | None => None
                  end
              | None => None
              end
          | None => None
          end
      | None => None
      end
  | None => None
  end.
