(* Model/RespCorr.v — correspondence evaluator for C03: each case carries the configuration,
   the data a stub backend handed to the real server's writer API, the bytes the real client
   then received for the command, and what the real client delivered.  The evaluator re-runs
   the server model on the data and the client model on the observed bytes.  The library
   functions of [ext] are instantiated by finite tables holding the values observed from the
   real libraries during the same run. *)
From GoImap.Base Require Import Bytes.
From GoImap.Model Require Import NumSet MatchList Utf7 Wire Resp RespFetch RespCmd.
Open Scope N_scope.

(* ---- tables for the library functions ---- *)
Record tables := mkTb {
  tb_qword : list (bytes * bytes);
  tb_dech : list (bytes * bytes);
  tb_fenv : list (time * bytes);
  tb_penv : list (bytes * time);
  tb_fid : list (time * bytes);
  tb_pid : list (bytes * time);
  tb_msgid : list (bytes * bytes);
  tb_msgids : list (bytes * list bytes)
}.

Fixpoint lookup_b {A} (k : bytes) (l : list (bytes * A)) : option A :=
  match l with [] => None | (k', v) :: r => if bytes_eqb k k' then Some v else lookup_b k r end.
Fixpoint lookup_t {A} (k : time) (l : list (time * A)) : option A :=
  match l with [] => None | (k', v) :: r => if time_eqb k k' then Some v else lookup_t k r end.

Definition MISSING : bytes := s2b "?missing-table-entry?".

(* defaults = what the library returns when it fails / leaves its input alone *)
Definition ext_of (t : tables) : ext :=
  mkExt
    (fun s => match lookup_b s (tb_qword t) with Some v => v | None => MISSING end)
    (fun s => match lookup_b s (tb_dech t) with Some v => v | None => s end)
    (fun tm => match lookup_t tm (tb_fenv t) with Some v => v | None => MISSING end)
    (fun s => match lookup_b s (tb_penv t) with Some v => v | None => zero_time end)
    (fun tm => match lookup_t tm (tb_fid t) with Some v => v | None => MISSING end)
    (fun s => lookup_b s (tb_pid t))
    (fun s => match lookup_b s (tb_msgid t) with Some v => v | None => [] end)
    (fun s => match lookup_b s (tb_msgids t) with Some v => v | None => [] end).

(* ---- boolean equality of delivered data ---- *)
Definition opt_eqb {A} (f : A -> A -> bool) (a b : option A) : bool :=
  match a, b with Some x, Some y => f x y | None, None => true | _, _ => false end.
Fixpoint list_eqb {A} (f : A -> A -> bool) (a b : list A) : bool :=
  match a, b with
  | [], [] => true
  | x :: a', y :: b' => f x y && list_eqb f a' b'
  | _, _ => false
  end.
Definition pair_eqb {A B} (f : A -> A -> bool) (g : B -> B -> bool) (a b : A * B) : bool :=
  f (fst a) (fst b) && g (snd a) (snd b).
Definition bl_eqb := list_eqb bytes_eqb.
Definition range_eqb' (a b : N * N) : bool := (fst a =? fst b) && (snd a =? snd b).
Definition nset_eqb := list_eqb range_eqb'.

Definition status_eqb (a b : status_data) : bool :=
  bytes_eqb (sd_mailbox a) (sd_mailbox b) && opt_eqb N.eqb (sd_messages a) (sd_messages b) &&
  (sd_uidnext a =? sd_uidnext b) && (sd_uidvalidity a =? sd_uidvalidity b) &&
  opt_eqb N.eqb (sd_unseen a) (sd_unseen b) && opt_eqb N.eqb (sd_deleted a) (sd_deleted b) &&
  opt_eqb Z.eqb (sd_size a) (sd_size b) && opt_eqb N.eqb (sd_appendlimit a) (sd_appendlimit b) &&
  opt_eqb Z.eqb (sd_deleted_storage a) (sd_deleted_storage b).

Definition listdata_eqb (a b : list_data) : bool :=
  bl_eqb (ld_attrs a) (ld_attrs b) && (ld_delim a =? ld_delim b) && bytes_eqb (ld_mailbox a) (ld_mailbox b) &&
  opt_eqb Bool.eqb (ld_childinfo a) (ld_childinfo b) && bytes_eqb (ld_oldname a) (ld_oldname b) &&
  opt_eqb status_eqb (ld_status a) (ld_status b).

Definition select_eqb (a b : select_data) : bool :=
  bl_eqb (sl_flags a) (sl_flags b) && bl_eqb (sl_permflags a) (sl_permflags b) && (sl_num a =? sl_num b) &&
  (sl_uidnext a =? sl_uidnext b) && (sl_uidvalidity a =? sl_uidvalidity b) && opt_eqb listdata_eqb (sl_list a) (sl_list b).

Definition search_eqb (a b : search_data) : bool :=
  opt_eqb nset_eqb (sr_all a) (sr_all b) && Bool.eqb (sr_uid a) (sr_uid b) && (sr_min a =? sr_min b) &&
  (sr_max a =? sr_max b) && (sr_count a =? sr_count b).

Definition nsl_eqb := opt_eqb (list_eqb (pair_eqb bytes_eqb N.eqb)).
Definition ns_eqb (a b : ns_data) : bool :=
  nsl_eqb (ns_personal a) (ns_personal b) && nsl_eqb (ns_other a) (ns_other b) && nsl_eqb (ns_shared a) (ns_shared b).

Definition addr_eqb (a b : address) : bool :=
  bytes_eqb (a_name a) (a_name b) && bytes_eqb (a_mailbox a) (a_mailbox b) && bytes_eqb (a_host a) (a_host b).
Definition addrs_eqb := opt_eqb (list_eqb addr_eqb).
Definition env_eqb (a b : envelope) : bool :=
  time_eqb (e_date a) (e_date b) && bytes_eqb (e_subject a) (e_subject b) &&
  addrs_eqb (e_from a) (e_from b) && addrs_eqb (e_sender a) (e_sender b) && addrs_eqb (e_replyto a) (e_replyto b) &&
  addrs_eqb (e_to a) (e_to b) && addrs_eqb (e_cc a) (e_cc b) && addrs_eqb (e_bcc a) (e_bcc b) &&
  bl_eqb (e_inreplyto a) (e_inreplyto b) && bytes_eqb (e_msgid a) (e_msgid b).

Definition params_eqb : params -> params -> bool := opt_eqb (list_eqb (pair_eqb bytes_eqb bytes_eqb)).
Definition dispo_eqb : dispo -> dispo -> bool := opt_eqb (pair_eqb bytes_eqb params_eqb).
Definition lang_eqb := opt_eqb bl_eqb.
Definition spx_eqb (a b : sp_ext) : bool :=
  dispo_eqb (spx_disp a) (spx_disp b) && lang_eqb (spx_lang a) (spx_lang b) && bytes_eqb (spx_loc a) (spx_loc b).
Definition mpx_eqb (a b : mp_ext) : bool :=
  params_eqb (mpx_params a) (mpx_params b) && dispo_eqb (mpx_disp a) (mpx_disp b) &&
  lang_eqb (mpx_lang a) (mpx_lang b) && bytes_eqb (mpx_loc a) (mpx_loc b).

Fixpoint bs_eqb (a b : bstruct) : bool :=
  match a, b with
  | BSingle t1 s1 p1 i1 d1 e1 z1 m1 x1 ext1, BSingle t2 s2 p2 i2 d2 e2 z2 m2 x2 ext2 =>
      bytes_eqb t1 t2 && bytes_eqb s1 s2 && params_eqb p1 p2 && bytes_eqb i1 i2 && bytes_eqb d1 d2 &&
      bytes_eqb e1 e2 && (z1 =? z2) &&
      (match m1, m2 with
       | Some (ea, ba, la), Some (eb, bb, lb) => opt_eqb env_eqb ea eb && bs_eqb ba bb && Z.eqb la lb
       | None, None => true
       | _, _ => false
       end) &&
      opt_eqb Z.eqb x1 x2 && opt_eqb spx_eqb ext1 ext2
  | BMulti c1 s1 e1, BMulti c2 s2 e2 =>
      (fix kids (l1 l2 : list bstruct) : bool :=
         match l1, l2 with
         | [], [] => true
         | x :: r1, y :: r2 => bs_eqb x y && kids r1 r2
         | _, _ => false
         end) c1 c2 && bytes_eqb s1 s2 && opt_eqb mpx_eqb e1 e2
  | _, _ => false
  end.

Definition zl_eqb := list_eqb Z.eqb.
Definition section_eqb (a b : section) : bool :=
  bytes_eqb (sec_spec a) (sec_spec b) && zl_eqb (sec_part a) (sec_part b) && bl_eqb (sec_fields a) (sec_fields b) &&
  bl_eqb (sec_notfields a) (sec_notfields b) && opt_eqb (pair_eqb Z.eqb Z.eqb) (sec_partial a) (sec_partial b) &&
  Bool.eqb (sec_peek a) (sec_peek b).

Definition citem_eqb (a b : citem) : bool :=
  match a, b with
  | CUid x, CUid y => x =? y
  | CFlags x, CFlags y => bl_eqb x y
  | CSize x, CSize y => x =? y
  | CIDate x, CIDate y => time_eqb x y
  | CEnvelope x, CEnvelope y => env_eqb x y
  | CBody x ex, CBody y ey => bs_eqb x y && Bool.eqb ex ey
  | CSection s1 l1, CSection s2 l2 => section_eqb s1 s2 && opt_eqb bytes_eqb l1 l2
  | CBinary p1 l1, CBinary p2 l2 => zl_eqb p1 p2 && opt_eqb bytes_eqb l1 l2
  | CBinSize p1 n1, CBinSize p2 n2 => zl_eqb p1 p2 && (n1 =? n2)
  | CModSeq x, CModSeq y => x =? y
  | _, _ => false
  end.
Definition msgs_eqb := list_eqb (pair_eqb N.eqb (list_eqb citem_eqb)).

(* ---- cases ---- *)
(* wire: Some (length, checksum, checksum) of what the server sent for the command, up to and
   including the tagged completion (the bytes themselves would triple the size of the case
   files; two polynomial checksums modulo 2^64 stand for them);
   None = a writer call reported an error or panicked in the stub backend.
   obs: Some data = the command completed with OK and delivered data; None = it failed. *)
Inductive ccase :=
| KFetch (t : tables) (q nonext extd uid : bool) (tag : bytes) (req : nset) (msgs : list (N * list fitem))
         (wire : option (N * N * N)) (obs : option (list (N * list citem)))
| KList (q : bool) (rs : option status_opts) (tag : bytes) (l : list list_data)
        (wire : option (N * N * N)) (obs : option (list list_data))
| KStatus (q : bool) (o : status_opts) (tag mbox : bytes) (d : status_data)
          (wire : option (N * N * N)) (obs : option status_data)
| KSelect (rev2 q was_selected readonly : bool) (tag mbox : bytes) (d : select_data)
          (wire : option (N * N * N)) (obs : option select_data)
| KSearch (rev2 extended uid : bool) (tag : bytes) (o : search_opts) (d : search_data)
          (wire : option (N * N * N)) (obs : option search_data)
| KAppend (tag : bytes) (d : option append_data) (wire : option (N * N * N)) (obs : option (N * N))
| KCopy (tag : bytes) (d : option copy_data) (wire : option (N * N * N)) (obs : option (N * nset * nset))
| KMove (tag : bytes) (uid : bool) (d : option copy_data) (expunged : list N)
        (wire : option (N * N * N)) (obs : option (N * nset * nset))
| KNamespace (q : bool) (tag : bytes) (d : ns_data) (wire : option (N * N * N)) (obs : option ns_data)
| KCapability (tag : bytes) (caps : list bytes) (wire : option (N * N * N)) (obs : option (list bytes))
| KExpunge (tag : bytes) (uid : bool) (l : list N) (wire : option (N * N * N)) (obs : option (list N)).

(* model answer for a mismatch: what the server model writes, and a code for which half
   disagrees (1 server bytes, 2 client data, 3 both) *)
Definition mobs := (N * option bytes)%type.

Definition MASK64 : N := 18446744073709551615.
Definition cksum (b : bytes) : N * N * N :=
  (N.of_nat (length b),
   fold_left (fun h c => N.land (h * 33 + b2n c + 1) MASK64) b 5381,
   fold_left (fun h c => N.land (h * 131 + b2n c + 1) MASK64) b 7).
Definition ck_eqb (a b : N * N * N) : bool :=
  (fst (fst a) =? fst (fst b)) && (snd (fst a) =? snd (fst b)) && (snd a =? snd b).

(* the server model must reproduce the observed bytes; the client model then reads them.
   [want]: Some d when the data is inside the domain of the C03 theorems, d being the normal
   form they promise (computed by the caller, see Proofs/RespSpecCorr.v); the client model must
   then deliver exactly d.  Codes: 1 server bytes, 2 client data vs observation, 4 client data
   vs theorem. *)
Definition check {R} (srv : wr) (wire : option (N * N * N)) (run : bytes -> outcome) (proj : pending -> option R)
                 (eqb : R -> R -> bool) (obs : option R) (want : option R) : option mobs :=
  let srv_ok := opt_eqb ck_eqb (option_map cksum srv) wire in
  let res :=
    match srv with
    | Some w => match run w with
                | Done p typ => if bytes_eqb typ OKb then proj p else None
                | _ => None
                end
    | None => None
    end in
  let cli_ok := match srv, wire with Some _, Some _ => opt_eqb eqb res obs | _, _ => true end in
  (* the theorems are about data the server does write: srv = Some _ *)
  let thm_ok := match want, srv with Some d, Some _ => opt_eqb eqb res (Some d) | _, _ => true end in
  if srv_ok && cli_ok && thm_ok then None
  else Some ((if srv_ok then 0 else 1) + (if cli_ok then 0 else 2) + (if thm_ok then 0 else 4), srv).

(* capability sets are compared as sorted lists without duplicates *)
Fixpoint insert_b (k : bytes) (l : list bytes) : list bytes :=
  match l with
  | [] => [k]
  | h :: t => if bytes_eqb h k then l else if bytes_ltb k h then k :: l else h :: insert_b k t
  end.
Definition sort_set (l : list bytes) : list bytes := fold_right insert_b [] l.

(* the domain and normal form of each family, supplied by Proofs/RespSpecCorr.v *)
Record wants := mkWants {
  wt_fetch : ext -> bool -> bool -> bool -> bytes -> nset -> list (N * list fitem) -> option (list (N * list citem));
  wt_list : option status_opts -> bytes -> list list_data -> option (list list_data);
  wt_status : status_opts -> bytes -> bytes -> status_data -> option status_data;
  wt_select : bytes -> bytes -> select_data -> option select_data;
  wt_search : bool -> bool -> bytes -> search_opts -> search_data -> option search_data;
  wt_append : bytes -> option append_data -> option (N * N);
  wt_copy : bytes -> option copy_data -> option (N * nset * nset);
  wt_namespace : bytes -> ns_data -> option ns_data;
  wt_capability : bytes -> list bytes -> option (list bytes);
  wt_expunge : bytes -> list N -> option (list N)
}.
Definition no_wants : wants :=
  mkWants (fun _ _ _ _ _ _ _ => None) (fun _ _ _ => None) (fun _ _ _ _ => None) (fun _ _ _ => None)
          (fun _ _ _ _ _ => None) (fun _ _ => None) (fun _ _ => None) (fun _ _ => None) (fun _ _ => None) (fun _ _ => None).

Definition x0 : ext := ext_of (mkTb [] [] [] [] [] [] [] []).

Definition case_check (W : wants) (c : ccase) : option mobs :=
  match c with
  | KFetch t q nonext extd uid tag req msgs wire obs =>
      let x := ext_of t in
      check (srv_fetch x q nonext extd tag uid msgs) wire (fun w => client x tag (init_fetch uid req) w)
            (fun p => match p with PFetch _ _ _ m => Some m | _ => None end) msgs_eqb obs
            (wt_fetch W x nonext extd uid tag req msgs)
  | KList q rs tag l wire obs =>
      check (srv_list q rs tag l) wire
            (fun w => client x0 tag (init_list (match rs with Some _ => true | None => false end)) w)
            (fun p => match p with PList _ _ out => Some out | _ => None end) (list_eqb listdata_eqb) obs
            (wt_list W rs tag l)
  | KStatus q o tag mbox d wire obs =>
      check (srv_status q o tag d) wire (fun w => client x0 tag (init_status mbox) w)
            (fun p => match p with PStatus _ d => Some d | _ => None end) status_eqb obs
            (wt_status W o tag mbox d)
  | KSelect rev2 q ws ro tag mbox d wire obs =>
      check (srv_select rev2 q ws ro tag d) wire (fun w => client x0 tag (init_select mbox) w)
            (fun p => match p with PSelect _ d => Some d | _ => None end) select_eqb obs
            (wt_select W tag mbox d)
  | KSearch rev2 extended uid tag o d wire obs =>
      check (srv_search_cmd rev2 extended uid tag o d) wire (fun w => client x0 tag init_search w)
            (fun p => match p with PSearch d => Some d | _ => None end) search_eqb obs
            (wt_search W rev2 extended tag o d)
  | KAppend tag d wire obs =>
      check (srv_append tag d) wire (fun w => client x0 tag init_append w)
            (fun p => match p with PAppend a => Some (ad_uid a, ad_uidvalidity a) | _ => None end)
            (pair_eqb N.eqb N.eqb) obs (wt_append W tag d)
  | KCopy tag d wire obs =>
      check (srv_copy tag d) wire (fun w => client x0 tag init_copy w)
            (fun p => match p with PCopy c => Some (cd_uidvalidity c, cd_src c, cd_dst c) | _ => None end)
            (pair_eqb (pair_eqb N.eqb nset_eqb) nset_eqb) obs (wt_copy W tag d)
  | KMove tag uid d expunged wire obs =>
      check (srv_move tag uid d expunged) wire (fun w => client x0 tag init_move w)
            (fun p => match p with PMove c => Some (cd_uidvalidity c, cd_src c, cd_dst c) | _ => None end)
            (pair_eqb (pair_eqb N.eqb nset_eqb) nset_eqb) obs
            (if forallb (fun n => (0 <? n) && (n <? 4294967296)) expunged then wt_copy W tag d else None)
  | KNamespace q tag d wire obs =>
      check (srv_namespace q tag d) wire (fun w => client x0 tag init_namespace w)
            (fun p => match p with PNamespace d => Some d | _ => None end) ns_eqb obs (wt_namespace W tag d)
  | KCapability tag caps wire obs =>
      check (srv_capability tag caps) wire (fun w => client x0 tag init_capability w)
            (fun p => match p with PCapability c => Some (sort_set c) | _ => None end) bl_eqb obs
            (option_map sort_set (wt_capability W tag caps))
  | KExpunge tag uid l wire obs =>
      check (srv_expunge tag uid l) wire (fun w => client x0 tag init_expunge w)
            (fun p => match p with PExpunge l => Some l | _ => None end) (list_eqb N.eqb) obs (wt_expunge W tag l)
  end.

(* indices of the disagreeing cases (bin/check reads the printed list as numbers) *)
Fixpoint mism (W : wants) (i : N) (cs : list ccase) : list N :=
  match cs with
  | [] => []
  | c :: r => match case_check W c with
              | None => mism W (i + 1) r
              | Some _ => i :: mism W (i + 1) r
              end
  end.
(* model against implementation only *)
Definition resp_mismatches_model (cs : list ccase) : list N := mism no_wants 0 cs.
