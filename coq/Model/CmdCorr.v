(* Model/CmdCorr.v — C02 correspondence evaluator.  One case = one API call on the real
   imapclient.Client against the real imapserver:
     client configuration (capabilities the client holds, UTF8=ACCEPT enabled, whether the
     continuation requests it asked for were granted), server advertises LITERAL+, iteration
     order of the Go map involved, number of the first tag, the request, the bytes the client
     wrote, whether the client reported an error, the backend calls the session recorded.
   The model client must write exactly those bytes, and the model server, reading them, must
   make exactly those calls (if the client reported an error the bytes may stop early, and then
   nothing may have been delivered).  When the model encoder refuses (invalid argument, refused
   literal) the client must have reported an error and nothing may have been delivered.      *)
From GoImap.Base Require Import Bytes.
From GoImap.Model Require Import NumSet NumSetCorr MatchList Utf7 Wire Search ClientWrite CmdDate CmdTypes CmdClient CmdServer.
Open Scope N_scope.

Definition c02_case := (ccfg * bool * list nat * N * creq * bytes * bool * list bcall)%type.

Definition tag_of (n : N) : bytes := s2b "T" ++ dec_of_N n.

Fixpoint lines_from (n : N) (bodies : list eres) : list eres :=
  match bodies with
  | [] => []
  | b :: r => w_line (tag_of n) b :: lines_from (n + 1) r
  end.

Definition is_some {A} (o : option A) : bool := match o with Some _ => true | None => false end.

Definition case_ok (k : c02_case) : bool :=
  let '(c, lp, order, n, q, wire, err, calls) := k in
  let lines := lines_from n (w_req c order q) in
  if forallb is_some lines then
    let bs := map (fun l => match l with Some segs => flatten segs | None => [] end) lines in
    if bytes_eqb (concat bs) wire then
      list_eqb bcall_eqb
        (flat_map (fun b => match serve_line lp b with Some cs => cs | None => [] end) bs) calls
    else
      (* the connection broke while the client was writing (the server had already refused a
         literal and closed): a prefix was written, the client reported the error, and
         nothing was delivered *)
      err && has_prefix wire (concat bs) && nilb calls
  else err && nilb calls.

Definition c02_mismatches (cs : list c02_case) : list N := idx_filter case_ok 0 cs.

(* second correspondence: raw command lines (syntax the client never produces: atoms instead of
   strings, mixed case, FETCH macros, RFC822.*, bare STORE flags, several LIST patterns, ...)
   sent to the real server: (LITERAL+ advertised, the line with its literals, calls recorded) *)
Definition srv_case := (bool * bytes * list bcall)%type.
Definition srv_ok (k : srv_case) : bool :=
  let '(lp, line, calls) := k in
  list_eqb bcall_eqb (match serve_line lp line with Some cs => cs | None => [] end) calls.
Definition srv_mismatches (cs : list srv_case) : list N := idx_filter srv_ok 0 cs.
