(* Model/Utf7Corr.v — C16 correspondence checks. *)
From GoImap.Base Require Import Bytes.
From GoImap.Model Require Import NumSetCorr MatchList Utf7 Utf7Transform.
Open Scope N_scope.

(* one-shot encoder: (input, output of Encoding.NewEncoder().String) *)
Definition enc_case := (bytes * bytes)%type.
Definition enc_ok (c : enc_case) : bool := let '(s, o) := c in bytes_eqb (utf7_encode s) o.
Definition enc_mismatches (cs : list enc_case) : list N := idx_filter enc_ok 0 cs.

(* one-shot decoder: (input, Some output | None = error) *)
Definition dec_case := (bytes * option bytes)%type.
Definition dec_ok (c : dec_case) : bool :=
  let '(s, o) := c in option_eqb bytes_eqb (utf7_decode s) o.
Definition dec_mismatches (cs : list dec_case) : list N := idx_filter dec_ok 0 cs.

(* explicit Transform calls on one transformer instance:
   (is_decoder, list of (dstcap, src, atEOF, out, nSrc, err)) *)
Definition tr_call := (N * bytes * bool * bytes * N * N)%type.
Fixpoint run_calls (isdec : bool) (ascii : bool) (calls : list tr_call) : bool :=
  match calls with
  | [] => true
  | (cap, src, eof, out, nsrc, err) :: rest =>
      if isdec then
        let '(o, n, e, a') := dec_transform ascii (N.to_nat cap) (map b2n src) eof in
        bytes_eqb (map n2b o) out && (N.of_nat n =? nsrc) && (e =? err) && run_calls isdec a' rest
      else
        let '(o, n, e) := enc_transform (N.to_nat cap) (map b2n src) eof in
        bytes_eqb (map n2b o) out && (N.of_nat n =? nsrc) && (e =? err) && run_calls isdec ascii rest
  end.
Definition trf_case := (bool * list tr_call)%type.
Definition trf_ok (c : trf_case) : bool := let '(d, calls) := c in run_calls d true calls.
Definition trf_mismatches (cs : list trf_case) : list N := idx_filter trf_ok 0 cs.
