(* Model/Utf7Transform.v — the two Transform methods of internal/utf7 with explicit
   destination capacity, source chunk and atEOF flag (what x/text/transform drives). *)
From GoImap.Base Require Import Bytes.
From GoImap.Model Require Import Utf7.
Open Scope N_scope.

(* error classes: 0 nil, 1 ErrShortDst, 2 ErrShortSrc, 3 ErrInvalidUTF7, 9 model out of fuel *)
Definition E_OK : N := 0.
Definition E_SHORT_DST : N := 1.
Definition E_SHORT_SRC : N := 2.
Definition E_INVALID : N := 3.

Fixpoint span_np (s : list N) : list N * list N :=      (* maximal non-printable prefix *)
  match s with
  | [] => ([], [])
  | c :: r => if printable c then ([], s) else let '(a, b) := span_np r in (c :: a, b)
  end.

(* encoder.Transform *)
Fixpoint enc_tr (fuel dstcap : nat) (rest : list N) (atEOF : bool) (out : list N) (nsrc : nat)
  : list N * nat * N :=
  match fuel with
  | O => (out, nsrc, 9)
  | S f =>
      match rest with
      | [] => (out, nsrc, E_OK)
      | c :: r =>
          if printable c then
            let b := if c =? AMP then [AMP; DASH] else [c] in
            if Nat.ltb dstcap (length out + length b) then (out, nsrc, E_SHORT_DST)
            else enc_tr f dstcap r atEOF (out ++ b) (S nsrc)
          else
            let '(run, r') := span_np rest in
            if negb atEOF && (match r' with [] => true | _ => false end) then (out, nsrc, E_SHORT_SRC)
            else
              let b := encode_run run in
              if Nat.ltb dstcap (length out + length b) then (out, nsrc, E_SHORT_DST)
              else enc_tr f dstcap r' atEOF (out ++ b) (nsrc + length run)
      end
  end.
Definition enc_transform (dstcap : nat) (src : list N) (atEOF : bool) : list N * nat * N :=
  enc_tr (S (length src)) dstcap src atEOF [] O.

(* scan a base64 segment: Some (segment, rest after '-') | None = no '-' ; CR/LF => invalid *)
Fixpoint scan_b64 (s : list N) : option (option (list N * list N)) :=   (* None = CR/LF seen *)
  match s with
  | [] => Some None
  | c :: r =>
      if c =? DASH then Some (Some ([], r))
      else if (c =? 13) || (c =? 10) then None
      else match scan_b64 r with
           | None => None
           | Some None => Some None
           | Some (Some (seg, rest)) => Some (Some (c :: seg, rest))
           end
  end.

(* decoder.Transform: returns (out, nSrc, err, ascii') *)
Fixpoint dec_tr (fuel dstcap : nat) (rest : list N) (atEOF ascii : bool) (out : list N) (nsrc : nat)
  : list N * nat * N * bool :=
  match fuel with
  | O => (out, nsrc, 9, ascii)
  | S f =>
      match rest with
      | [] => (out, nsrc, E_OK, if atEOF then true else ascii)
      | c :: r =>
          if negb (printable c) then (out, nsrc, E_INVALID, ascii)
          else if negb (c =? AMP) then
            if Nat.ltb dstcap (length out + 1) then (out, nsrc, E_SHORT_DST, ascii)
            else dec_tr f dstcap r atEOF true (out ++ [c]) (S nsrc)
          else
            match scan_b64 r with
            | None => (out, nsrc, E_INVALID, ascii)
            | Some None => (out, nsrc, if atEOF then E_INVALID else E_SHORT_SRC, ascii)
            | Some (Some (seg, r')) =>
                match seg with
                | [] =>
                    if Nat.ltb dstcap (length out + 1) then (out, nsrc, E_SHORT_DST, true)
                    else dec_tr f dstcap r' atEOF true (out ++ [AMP]) (nsrc + 2)
                | _ =>
                    if negb ascii then (out, nsrc, E_INVALID, ascii)
                    else match decode_b64 seg with
                         | None | Some [] => (out, nsrc, E_INVALID, false)
                         | Some b =>
                             if Nat.ltb dstcap (length out + length b) then (out, nsrc, E_SHORT_DST, true)
                             else dec_tr f dstcap r' atEOF false (out ++ b) (nsrc + length seg + 2)
                         end
                end
            end
      end
  end.
Definition dec_transform (ascii : bool) (dstcap : nat) (src : list N) (atEOF : bool) : list N * nat * N * bool :=
  dec_tr (S (length src)) dstcap src atEOF ascii [] O.
