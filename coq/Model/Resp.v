(* Model/Resp.v — executable model of the server's response writers (imapserver) and of the
   client's response readers (imapclient), on byte strings, for every response that carries
   data a backend supplies.  Built on Model/Wire.v (imapwire Encoder/Decoder primitives).
   This file: vocabulary shared by all responses, the external-library interface, and the
   responses other than FETCH (LIST, STATUS, SELECT data, SEARCH/ESEARCH, APPENDUID/COPYUID,
   NAMESPACE, CAPABILITY, EXPUNGE/EXISTS).  FETCH is in Model/RespFetch.v.

   Writers return [option bytes]: [None] = the imapwire.Encoder entered its error state
   (invalid flag, negative number, empty number set) or the Go code panics (nil pointer in
   data the backend was asked for): no complete response line is produced.
   Readers are [bytes -> dres A] in the style of Model/Wire.v.  Decoder.listDepth is not
   modelled: the responses modelled here nest lists at most 3 deep (maxListDepth is 1000). *)
From GoImap.Base Require Import Bytes.
From GoImap.Model Require Import NumSet MatchList Utf7 Wire.
Open Scope N_scope.

(* ---------------------------------------------------------------------------------------- *)
(* writers                                                                                    *)

Definition wr := option bytes.
Definition wcat (a b : wr) : wr :=
  match a, b with Some x, Some y => Some (x ++ y) | _, _ => None end.
Infix "+++" := wcat (at level 60, right associativity).
Definition ws (s : string) : wr := Some (s2b s).
Definition wb (b : bytes) : wr := Some b.

(* the server's encoder: ConnSideServer, QuotedUTF8 = IMAP4rev2 or UTF8=ACCEPT enabled
   (imapserver/conn.go newResponseEncoder) *)
Definition scfg (q : bool) : enc_cfg := mkCfg q false false false None.

Definition w_string (q : bool) (s : bytes) : wr := option_map flatten (enc_string (scfg q) s).
Definition w_quoted (s : bytes) : wr := Some (enc_quoted s).
(* writeNString (imapserver/fetch.go) *)
Definition w_nstring (q : bool) (s : bytes) : wr := if is_nil s then ws "NIL" else w_string q s.
Definition w_mailbox (q : bool) (s : bytes) : wr := option_map flatten (enc_mailbox (scfg q) s).
Definition w_flag (f : bytes) : wr := option_map flatten (enc_flag f).
Definition w_attr (f : bytes) : wr := option_map flatten (enc_mailbox_attr f).
Definition w_num (n : N) : wr := Some (enc_number n).
Definition w_num64 (z : Z) : wr := option_map flatten (enc_number64 z).
Definition w_numset (s : nset) : wr := option_map flatten (enc_numset s).

(* items separated by SP *)
Fixpoint w_join {A} (f : A -> wr) (l : list A) : wr :=
  match l with
  | [] => Some []
  | [x] => f x
  | x :: r => f x +++ ws " " +++ w_join f r
  end.
(* Encoder.List *)
Definition w_list {A} (f : A -> wr) (l : list A) : wr := ws "(" +++ w_join f l +++ ws ")".

Definition CRLF : bytes := [CR_; LF_].
Definition lnil {A} (l : list A) : bool := match l with [] => true | _ => false end.

(* ---------------------------------------------------------------------------------------- *)
(* readers                                                                                    *)

Definition P (A : Type) := bytes -> dres A.

Definition ex {A} (r : dres A) : dres A := match r with DNo _ => DErr | x => x end.

(* sequencing: [p >>= f]; a failed (DNo) or erroneous first step ends the sequence *)
Definition bind {A B} (r : dres A) (f : A -> bytes -> dres B) : dres B :=
  match r with DOk v rest => f v rest | DNo r => DNo r | DErr => DErr end.
Notation "'do' x , r <- e ; k" := (bind e (fun x r => k))
  (at level 200, x name, r name, e at level 100, k at level 200).

Definition NILb : bytes := s2b "NIL".

(* Decoder.ExpectNIL *)
Definition dec_nil (s : bytes) : dres unit :=
  match dec_atom s with
  | DOk a r => if bytes_eqb a NILb then DOk tt r else DErr
  | _ => DErr
  end.

(* Decoder.ExpectSpecial *)
Definition ex_special (c : byte) (s : bytes) : dres unit := ex (dec_special c s).
Definition ex_sp (s : bytes) : dres unit := ex (dec_sp s).
Definition ex_atom (s : bytes) : dres bytes := ex (dec_atom s).
Definition ex_number (s : bytes) : dres N := ex (dec_number s).
Definition ex_number64 (s : bytes) : dres N := ex (dec_number64 s).
Definition ex_string (s : bytes) : dres bytes := ex (dec_string false s).

(* the loop of Decoder.List after the first "(" when the list is not empty *)
Fixpoint list_items {A} (fuel : nat) (f : P A) (s : bytes) : dres (list A) :=
  match fuel with
  | O => DErr
  | S k =>
      match f s with
      | DOk v r =>
          match dec_special (ch ")") r with
          | DOk _ r' => DOk [v] r'
          | DErr => DErr
          | DNo _ =>
              match dec_sp r with
              | DOk _ r2 => match list_items k f r2 with DOk l r3 => DOk (v :: l) r3 | _ => DErr end
              | _ => DErr
              end
          end
      | _ => DErr
      end
  end.

(* Decoder.List: None = not a list (nothing consumed) *)
Definition dec_list {A} (f : P A) (s : bytes) : dres (option (list A)) :=
  match dec_special (ch "(") s with
  | DErr => DErr
  | DNo _ => DOk None s
  | DOk _ r =>
      match dec_special (ch ")") r with
      | DOk _ r' => DOk (Some []) r'
      | DErr => DErr
      | DNo _ => match list_items (S (length r)) f r with DOk l r' => DOk (Some l) r' | _ => DErr end
      end
  end.

(* Decoder.ExpectList *)
Definition ex_list {A} (f : P A) (s : bytes) : dres (list A) :=
  match dec_list f s with
  | DOk (Some l) r => DOk l r
  | _ => DErr
  end.

(* Decoder.ExpectNList: NIL and () both leave the caller's accumulator empty *)
Definition ex_nlist {A} (f : P A) (s : bytes) : dres (list A) :=
  match dec_atom s with
  | DOk a r => if bytes_eqb a NILb then DOk [] r else DErr
  | DErr => DErr
  | DNo _ => ex_list f s
  end.

(* internal.ExpectFlagList / ExpectMailboxAttrList *)
Definition dec_flag_list : P (list bytes) := ex_list dec_flag.
Definition dec_attr_list : P (list bytes) := ex_list dec_mailbox_attr.

(* Decoder.Text: up to CR or LF, non-empty *)
Definition dec_text (s : bytes) : dres bytes :=
  dec_func (fun c => negb (beqb c CR_ || beqb c LF_)) s.

(* ---------------------------------------------------------------------------------------- *)
(* Go runtime / library helpers                                                               *)

(* strings.EqualFold(s, k) for a constant k of ASCII letters and digits: under simple case
   folding the only non-ASCII runes equal to an ASCII letter are U+017F (to s) and U+212A
   (to k); re-validated by the harness on every run *)
Fixpoint fold_canon (s : bytes) : bytes :=
  match s with
  | [] => []
  | a :: r =>
      match r with
      | b :: r' =>
          if (b2n a =? 197) && (b2n b =? 191) then ch "S" :: fold_canon r'
          else match r' with
               | c :: r'' =>
                   if (b2n a =? 226) && (b2n b =? 132) && (b2n c =? 170) then ch "K" :: fold_canon r''
                   else to_upper_b a :: fold_canon r
               | [] => to_upper_b a :: fold_canon r
               end
      | [] => [to_upper_b a]
      end
  end.
Definition equal_fold_go (s k : bytes) : bool := bytes_eqb (fold_canon s) (ascii_upper k).

(* string(rune) and utf8.DecodeRuneInString on byte strings (Model/Utf7.v has them on N) *)
Definition rune_bytes (r : N) : bytes := map n2b (encode_rune r).

(* a time.Time as the harness projects it: Unix seconds, nanoseconds, zone offset in seconds *)
Record time := mkTime { t_sec : Z; t_nsec : N; t_off : Z }.
Definition ZERO_SEC : Z := (-62135596800)%Z.
Definition zero_time : time := mkTime ZERO_SEC 0 0.
(* Time.IsZero: January 1, year 1, 00:00:00.000000000 UTC, in any location *)
Definition time_is_zero (t : time) : bool := (t_sec t =? ZERO_SEC)%Z && (t_nsec t =? 0).
Definition time_eqb (a b : time) : bool :=
  (t_sec a =? t_sec b)%Z && (t_nsec a =? t_nsec b) && (t_off a =? t_off b)%Z.

(* imapserver wholeMinuteZone: the date syntaxes carry the zone as +hhmm; a time whose zone offset
   has seconds is written in UTC *)
Definition zone_fix (t : time) : time :=
  if (t_off t mod 60 =? 0)%Z then t else mkTime (t_sec t) (t_nsec t) 0.

(* Library functions that are used, not modelled (Go standard library mime, time, net/mail;
   go-message).  The theorems quantify over them under explicit hypotheses; the
   correspondence run instantiates them with the values observed from the real libraries. *)
Record ext := mkExt {
  x_qword : bytes -> bytes;             (* mime.QEncoding.Encode("utf-8", s) when s needs encoding *)
  x_decode_header : bytes -> bytes;     (* imapclient Options.decodeText(s) when s contains "=?" *)
  x_fmt_env_date : time -> bytes;       (* t.Format("Mon, 02 Jan 2006 15:04:05 -0700") *)
  x_parse_env_date : bytes -> time;     (* net/mail.ParseDate, zero time on error *)
  x_fmt_idate : time -> bytes;          (* t.Format("_2-Jan-2006 15:04:05 -0700") *)
  x_parse_idate : bytes -> option time; (* time.Parse of the same layout *)
  x_msgid : bytes -> bytes;             (* go-message mail.Header.MessageID, "" on error *)
  x_msgid_list : bytes -> list bytes    (* mail.Header.MsgIDList, what was parsed before an error *)
}.

(* mime.needsEncoding: ranges over runes; a byte >= 0x80 yields a rune above '~' *)
Definition needs_encoding (s : bytes) : bool :=
  existsb (fun c => let n := b2n c in ((n <? 32) || (126 <? n)) && negb (n =? 9)) s.

(* strings.Contains(s, "=?") *)
Fixpoint contains_eqq (s : bytes) : bool :=
  match s with
  | a :: r => match r with
              | b :: _ => ((b2n a =? 61) && (b2n b =? 63)) || contains_eqq r
              | [] => false
              end
  | [] => false
  end.

(* imapserver hideEncodedWords: text containing "=?" is sent as Q-encoded words of at most
   63 content bytes, split at rune boundaries *)
Definition is_alnum (n : N) : bool :=
  ((48 <=? n) && (n <=? 57)) || ((65 <=? n) && (n <=? 90)) || ((97 <=? n) && (n <=? 122)).
Definition hexdigit (n : N) : N := if n <? 10 then 48 + n else 55 + n.
Definition q_byte (n : N) : list N :=
  if is_alnum n then [n] else [61; hexdigit (n / 16); hexdigit (n mod 16)].
Definition Q_OPEN : list N := map b2n (s2b "=?utf-8?q?").
Definition Q_CLOSE : list N := map b2n (s2b "?=").

Fixpoint hide_loop (fuel : nat) (s : list N) (clen : N) : list N :=
  match fuel with
  | O => []
  | S k =>
      match s with
      | [] => Q_CLOSE
      | _ =>
          let '(_, size) := decode_rune s in
          let content := flat_map q_byte (firstn size s) in
          let cl := N.of_nat (length content) in
          if (clen =? 0) || (63 <? clen + cl)
          then (if 0 <? clen then Q_CLOSE ++ [32] else []) ++ Q_OPEN ++ content ++ hide_loop k (skipn size s) cl
          else content ++ hide_loop k (skipn size s) (clen + cl)
      end
  end.
Definition hide_words (s : bytes) : bytes :=
  if contains_eqq s then map n2b (hide_loop (S (length s)) (map b2n s) 0) else s.

(* imapserver encodeHeaderText *)
Definition header_text (x : ext) (s : bytes) : bytes :=
  if needs_encoding s then x_qword x s else hide_words s.
(* imapclient Options.decodeText: DecodeHeader returns its input when it has no "=?" *)
Definition decode_text (x : ext) (s : bytes) : bytes :=
  if contains_eqq s then x_decode_header x s else s.

(* ---------------------------------------------------------------------------------------- *)
(* mailbox delimiter (LIST, NAMESPACE)                                                        *)

(* server: NIL for 0, otherwise enc.Quoted(string(delim)) *)
Definition w_delim (d : N) : wr := if d =? 0 then ws "NIL" else w_quoted (rune_bytes d).

(* imapclient readDelim *)
Definition read_delim (s : bytes) : dres N :=
  match dec_quoted s with
  | DOk q r =>
      let '(rn, size) := decode_rune (map b2n q) in
      if (rn =? REPL) || negb (Nat.eqb size (length q)) then DErr else DOk rn r
  | DErr => DErr
  | DNo _ => match dec_nil s with DOk _ r => DOk 0 r | _ => DErr end
  end.

(* ---------------------------------------------------------------------------------------- *)
(* STATUS                                                                                     *)

Record status_opts := mkSO {
  so_messages : bool; so_uidnext : bool; so_uidvalidity : bool; so_unseen : bool;
  so_deleted : bool; so_size : bool; so_appendlimit : bool; so_deleted_storage : bool;
  so_recent : bool                       (* the client asked for the obsolete RECENT item *)
}.

Record status_data := mkSD {
  sd_mailbox : bytes;
  sd_messages : option N; sd_uidnext : N; sd_uidvalidity : N; sd_unseen : option N;
  sd_deleted : option N; sd_size : option Z; sd_appendlimit : option N;
  sd_deleted_storage : option Z
}.

(* an item the backend left unset (nil pointer) is not written *)
Definition w_opt_num (name : string) (v : option N) : list wr :=
  match v with Some n => [ws name +++ ws " " +++ w_num n] | None => [] end.
Definition w_opt_num64 (name : string) (v : option Z) : list wr :=
  match v with Some n => [ws name +++ ws " " +++ w_num64 n] | None => [] end.

(* imapserver Conn.writeStatus *)
Definition w_status (q : bool) (o : status_opts) (d : status_data) : wr :=
  let items :=
    (if so_messages o then w_opt_num "MESSAGES" (sd_messages d) else []) ++
    (if so_uidnext o then [ws "UIDNEXT " +++ w_num (sd_uidnext d)] else []) ++
    (if so_uidvalidity o then [ws "UIDVALIDITY " +++ w_num (sd_uidvalidity d)] else []) ++
    (if so_unseen o then w_opt_num "UNSEEN" (sd_unseen d) else []) ++
    (if so_deleted o then w_opt_num "DELETED" (sd_deleted d) else []) ++
    (if so_size o then w_opt_num64 "SIZE" (sd_size d) else []) ++
    (if so_appendlimit o then
       [ws "APPENDLIMIT " +++ match sd_appendlimit d with Some n => w_num n | None => ws "NIL" end] else []) ++
    (if so_deleted_storage o then w_opt_num64 "DELETED-STORAGE" (sd_deleted_storage d) else []) ++
    (if so_recent o then [ws "RECENT 0"] else []) in
  ws "* STATUS " +++ w_mailbox q (sd_mailbox d) +++ ws " " +++ w_list (fun x => x) items +++ wb CRLF.

(* imapclient readStatusAttVal: the fields it can set *)
Inductive status_item :=
| SIMessages (n : N) | SIUidNext (n : N) | SIUidValidity (n : N) | SIUnseen (n : N)
| SIDeleted (n : N) | SISize (n : N) | SIAppendLimit (n : N) | SIDeletedStorage (n : N)
| SIModSeq (n : N) | SIOther.

Definition read_status_att (s : bytes) : dres status_item :=
  do name, r <- ex_atom s;
  do _, r <- ex_sp r;
  let name := ascii_upper name in
  if bytes_eqb name (s2b "MESSAGES") then do n, r <- ex_number r; DOk (SIMessages n) r
  else if bytes_eqb name (s2b "UIDNEXT") then do n, r <- ex_number r; DOk (SIUidNext n) r
  else if bytes_eqb name (s2b "UIDVALIDITY") then do n, r <- ex_number r; DOk (SIUidValidity n) r
  else if bytes_eqb name (s2b "UNSEEN") then do n, r <- ex_number r; DOk (SIUnseen n) r
  else if bytes_eqb name (s2b "DELETED") then do n, r <- ex_number r; DOk (SIDeleted n) r
  else if bytes_eqb name (s2b "SIZE") then do n, r <- ex_number64 r; DOk (SISize n) r
  else if bytes_eqb name (s2b "APPENDLIMIT") then
    match dec_number r with
    | DOk n r' => DOk (SIAppendLimit n) r'
    | DErr => DErr
    | DNo r' => do _, r'' <- dec_nil r'; DOk (SIAppendLimit 4294967295) r''
    end
  else if bytes_eqb name (s2b "DELETED-STORAGE") then do n, r <- ex_number64 r; DOk (SIDeletedStorage n) r
  else if bytes_eqb name (s2b "HIGHESTMODSEQ") then do n, r <- ex (dec_modseq r); DOk (SIModSeq n) r
  else do _, r <- discard_value (S (length r)) false 0 r; DOk SIOther r.

Definition empty_status (mbox : bytes) : status_data := mkSD mbox None 0 0 None None None None None.

Definition apply_status_item (d : status_data) (i : status_item) : status_data :=
  match i with
  | SIMessages n => mkSD (sd_mailbox d) (Some n) (sd_uidnext d) (sd_uidvalidity d) (sd_unseen d) (sd_deleted d) (sd_size d) (sd_appendlimit d) (sd_deleted_storage d)
  | SIUidNext n => mkSD (sd_mailbox d) (sd_messages d) n (sd_uidvalidity d) (sd_unseen d) (sd_deleted d) (sd_size d) (sd_appendlimit d) (sd_deleted_storage d)
  | SIUidValidity n => mkSD (sd_mailbox d) (sd_messages d) (sd_uidnext d) n (sd_unseen d) (sd_deleted d) (sd_size d) (sd_appendlimit d) (sd_deleted_storage d)
  | SIUnseen n => mkSD (sd_mailbox d) (sd_messages d) (sd_uidnext d) (sd_uidvalidity d) (Some n) (sd_deleted d) (sd_size d) (sd_appendlimit d) (sd_deleted_storage d)
  | SIDeleted n => mkSD (sd_mailbox d) (sd_messages d) (sd_uidnext d) (sd_uidvalidity d) (sd_unseen d) (Some n) (sd_size d) (sd_appendlimit d) (sd_deleted_storage d)
  | SISize n => mkSD (sd_mailbox d) (sd_messages d) (sd_uidnext d) (sd_uidvalidity d) (sd_unseen d) (sd_deleted d) (Some (Z.of_N n)) (sd_appendlimit d) (sd_deleted_storage d)
  | SIAppendLimit n => mkSD (sd_mailbox d) (sd_messages d) (sd_uidnext d) (sd_uidvalidity d) (sd_unseen d) (sd_deleted d) (sd_size d) (Some n) (sd_deleted_storage d)
  | SIDeletedStorage n => mkSD (sd_mailbox d) (sd_messages d) (sd_uidnext d) (sd_uidvalidity d) (sd_unseen d) (sd_deleted d) (sd_size d) (sd_appendlimit d) (Some (Z.of_N n))
  | SIModSeq _ => d
  | SIOther => d
  end.

(* imapclient readStatus (after "* STATUS ") *)
Definition read_status (s : bytes) : dres status_data :=
  do mbox, r <- dec_mailbox false s;
  do _, r <- ex_sp r;
  do items, r <- ex_list read_status_att r;
  DOk (fold_left apply_status_item items (empty_status mbox)) r.

(* ---------------------------------------------------------------------------------------- *)
(* LIST                                                                                       *)

Record list_data := mkLD {
  ld_attrs : list bytes;
  ld_delim : N;                       (* rune; 0 = no hierarchy *)
  ld_mailbox : bytes;
  ld_childinfo : option bool;         (* ChildInfo: Subscribed *)
  ld_oldname : bytes;
  ld_status : option status_data
}.

(* imapserver Conn.writeList *)
Definition w_list_line (q : bool) (d : list_data) : wr :=
  let ext_items :=
    (match ld_childinfo d with
     | Some sub => [ws "CHILDINFO (" +++ (if sub then w_quoted (s2b "SUBSCRIBED") else Some []) +++ ws ")"]
     | None => [] end) ++
    (if is_nil (ld_oldname d) then [] else [ws "OLDNAME (" +++ w_mailbox q (ld_oldname d) +++ ws ")"]) in
  ws "* LIST " +++ w_list w_attr (ld_attrs d) +++ ws " " +++ w_delim (ld_delim d) +++ ws " " +++
  w_mailbox q (ld_mailbox d) +++
  (match ext_items with [] => Some [] | _ => ws " " +++ w_list (fun x => x) ext_items end) +++ wb CRLF.

(* ListWriter.WriteList: LIST line, then a STATUS line when RETURN (STATUS ...) was requested
   and the backend supplied status data *)
Definition w_list_resp (q : bool) (ret_status : option status_opts) (d : list_data) : wr :=
  w_list_line q d +++
  match ret_status, ld_status d with
  | Some o, Some sd => w_status q o sd
  | _, _ => Some []
  end.

Inductive list_ext := LEChildInfo (sub : bool) | LEOldName (n : bytes) | LEOther.

Definition read_list_ext (s : bytes) : dres list_ext :=
  do tag, r <- dec_astring false s;
  do _, r <- ex_sp r;
  let tag := ascii_upper tag in
  if bytes_eqb tag (s2b "CHILDINFO") then
    do opts, r <- ex_list (dec_astring false) r;
    DOk (LEChildInfo (existsb (fun o => bytes_eqb (ascii_upper o) (s2b "SUBSCRIBED")) opts)) r
  else if bytes_eqb tag (s2b "OLDNAME") then
    do _, r <- ex_special (ch "(") r;
    do n, r <- dec_mailbox false r;
    do _, r <- ex_special (ch ")") r;
    DOk (LEOldName n) r
  else do _, r <- discard_value (S (length r)) false 0 r; DOk LEOther r.

Definition apply_list_ext (d : list_data) (e : list_ext) : list_data :=
  match e with
  | LEChildInfo sub => mkLD (ld_attrs d) (ld_delim d) (ld_mailbox d) (Some sub) (ld_oldname d) (ld_status d)
  | LEOldName n => mkLD (ld_attrs d) (ld_delim d) (ld_mailbox d) (ld_childinfo d) n (ld_status d)
  | LEOther => d
  end.

(* imapclient readList (after "* LIST ") *)
Definition read_list (s : bytes) : dres list_data :=
  do attrs, r <- dec_attr_list s;
  do _, r <- ex_sp r;
  do delim, r <- read_delim r;
  do _, r <- ex_sp r;
  do mbox, r <- dec_mailbox false r;
  let d := mkLD attrs delim mbox None [] None in
  match dec_sp r with
  | DOk _ r' => do exts, r'' <- ex_list read_list_ext r'; DOk (fold_left apply_list_ext exts d) r''
  | DErr => DErr
  | DNo r' => DOk d r'
  end.

(* ---------------------------------------------------------------------------------------- *)
(* NAMESPACE                                                                                  *)

Definition ns_descr := (bytes * N)%type.        (* Prefix, Delim *)
Record ns_data := mkNS { ns_personal : option (list ns_descr); ns_other : option (list ns_descr);
                         ns_shared : option (list ns_descr) }.

(* imapserver writeNamespace: nil slice = NIL *)
Definition w_namespace (q : bool) (l : option (list ns_descr)) : wr :=
  match l with
  | None => ws "NIL"
  | Some l => w_list (fun d => ws "(" +++ w_string q (fst d) +++ ws " " +++ w_delim (snd d) +++ ws ")") l
  end.
Definition w_namespace_line (q : bool) (d : ns_data) : wr :=
  ws "* NAMESPACE " +++ w_namespace q (ns_personal d) +++ ws " " +++ w_namespace q (ns_other d) +++ ws " " +++
  w_namespace q (ns_shared d) +++ wb CRLF.

(* skip loop "for dec.SP() { DiscardValue }" *)
Fixpoint skip_values (fuel : nat) (s : bytes) : dres unit :=
  match fuel with
  | O => DErr
  | S k =>
      match dec_sp s with
      | DOk _ r => match discard_value (S (length r)) false 0 r with DOk _ r' => skip_values k r' | _ => DErr end
      | DErr => DErr
      | DNo r => DOk tt r
      end
  end.

Definition read_ns_descr (s : bytes) : dres ns_descr :=
  do _, r <- ex_special (ch "(") s;
  do p, r <- ex_string r;
  do _, r <- ex_sp r;
  do d, r <- read_delim r;
  do _, r <- skip_values (S (length r)) r;
  do _, r <- ex_special (ch ")") r;
  DOk (p, d) r.

(* the client's slices stay nil when nothing is appended *)
Definition nil_if_empty {A} (l : list A) : option (list A) := match l with [] => None | _ => Some l end.

(* imapclient readNamespaceResponse (after "* NAMESPACE ") *)
Definition read_namespace (s : bytes) : dres ns_data :=
  do p, r <- ex_nlist read_ns_descr s;
  do _, r <- ex_sp r;
  do o, r <- ex_nlist read_ns_descr r;
  do _, r <- ex_sp r;
  do sh, r <- ex_nlist read_ns_descr r;
  DOk (mkNS (nil_if_empty p) (nil_if_empty o) (nil_if_empty sh)) r.

(* ---------------------------------------------------------------------------------------- *)
(* CAPABILITY                                                                                 *)

(* imapserver handleCapability: atoms written verbatim *)
Definition w_capability_line (caps : list bytes) : wr :=
  ws "* CAPABILITY" +++ fold_right (fun c acc => ws " " +++ wb c +++ acc) (Some []) caps +++ wb CRLF.

(* imapclient readCapabilities: for dec.SP() { ExpectAtom } *)
Fixpoint read_caps (fuel : nat) (s : bytes) : dres (list bytes) :=
  match fuel with
  | O => DErr
  | S k =>
      match dec_sp s with
      | DOk _ r => do a, r' <- ex_atom r; do l, r'' <- read_caps k r'; DOk (a :: l) r''
      | DErr => DErr
      | DNo r => DOk [] r
      end
  end.
Definition read_capability (s : bytes) : dres (list bytes) := read_caps (S (length s)) s.

(* ---------------------------------------------------------------------------------------- *)
(* SEARCH / ESEARCH                                                                           *)

Record search_opts := mkSeO { se_min : bool; se_max : bool; se_all : bool; se_count : bool }.
Record search_data := mkSeD { sr_all : option nset;   (* None: nil interface *)
                              sr_uid : bool; sr_min : N; sr_max : N; sr_count : N }.

(* imapserver writeESearch *)
Definition w_esearch (tag : bytes) (o : search_opts) (d : search_data) : wr :=
  match sr_all d with
  | None => None                                  (* isNumSetEmpty(nil) panics *)
  | Some all =>
      ws "* ESEARCH" +++
      (if is_nil tag then Some [] else ws " (TAG " +++ wb tag +++ ws ")") +++
      (if sr_uid d then ws " UID" else Some []) +++
      (if se_all o && negb (lnil all) then ws " ALL " +++ w_numset all else Some []) +++
      (if se_min o && (0 <? sr_min d) then ws " MIN " +++ w_num (sr_min d) else Some []) +++
      (if se_max o && (0 <? sr_max d) then ws " MAX " +++ w_num (sr_max d) else Some []) +++
      (if se_count o then ws " COUNT " +++ w_num (sr_count d) else Some []) +++ wb CRLF
  end.

(* imapserver writeSearch: every number of the set *)
Definition w_search (all : option nset) : wr :=
  match all with
  | None => None                                  (* neither SeqSet nor UIDSet: ok stays false *)
  | Some s =>
      match nums s with
      | NumsOk l => ws "* SEARCH" +++ fold_right (fun n acc => ws " " +++ w_num n +++ acc) (Some []) l +++ wb CRLF
      | NumsNotStatic => None
      end
  end.

(* handleSearch's choice *)
Definition w_search_resp (rev2 extended : bool) (tag : bytes) (o : search_opts) (d : search_data) : wr :=
  if rev2 || extended then w_esearch tag o d else w_search (sr_all d).

(* imapclient handleSearch (after "* SEARCH"): the numbers, which the caller adds one by one
   to the pending command's set; (MODSEQ n) ends the loop *)
Fixpoint read_search_nums (fuel : nat) (s : bytes) : dres (list N) :=
  match fuel with
  | O => DErr
  | S k =>
      match dec_sp s with
      | DOk _ r =>
          match dec_special (ch "(") r with
          | DOk _ r1 =>
              do name, r2 <- ex_atom r1;
              do _, r3 <- ex_sp r2;
              if bytes_eqb (ascii_upper name) (s2b "MODSEQ") then
                do _, r4 <- ex (dec_modseq r3); do _, r5 <- ex_special (ch ")") r4; DOk [] r5
              else DErr
          | DErr => DErr
          | DNo _ =>
              do n, r1 <- ex_number r;
              if n =? 0 then DErr else
              do l, r2 <- read_search_nums k r1;
              DOk (n :: l) r2
          end
      | DErr => DErr
      | DNo r => DOk [] r
      end
  end.
Definition read_search (s : bytes) : dres (list N) := read_search_nums (S (length s)) s.

(* imapclient readESearchResponse (after "* ESEARCH"; handleESearch first expects SP) *)
Record esearch_resp := mkES { es_tag : bytes; es_data : search_data }.

Definition set_es (d : search_data) (name : bytes) (all : option nset) (n : N) : search_data :=
  if bytes_eqb name (s2b "MIN") then mkSeD (sr_all d) (sr_uid d) n (sr_max d) (sr_count d)
  else if bytes_eqb name (s2b "MAX") then mkSeD (sr_all d) (sr_uid d) (sr_min d) n (sr_count d)
  else if bytes_eqb name (s2b "COUNT") then mkSeD (sr_all d) (sr_uid d) (sr_min d) (sr_max d) n
  else if bytes_eqb name (s2b "ALL") then mkSeD all (sr_uid d) (sr_min d) (sr_max d) (sr_count d)
  else d.

Fixpoint read_es_items (fuel : nat) (d : search_data) (name : bytes) (s : bytes) : dres search_data :=
  match fuel with
  | O => DErr
  | S k =>
      do _, r <- ex_sp s;
      let uname := ascii_upper name in
      let after (d' : search_data) (r' : bytes) : dres search_data :=
        match dec_sp r' with
        | DOk _ r2 => do name', r3 <- ex_atom r2; read_es_items k d' name' r3
        | DErr => DErr
        | DNo r2 => DOk d' r2
        end in
      if bytes_eqb uname (s2b "MIN") || bytes_eqb uname (s2b "MAX") then
        do n, r1 <- ex_number r; if n =? 0 then DErr else after (set_es d uname None n) r1
      else if bytes_eqb uname (s2b "COUNT") then
        do n, r1 <- ex_number r; after (set_es d uname None n) r1
      else if bytes_eqb uname (s2b "ALL") then
        match dec_numset r with
        | DOk (Some set) r1 => if dynamic set then DErr else after (set_es d uname (Some set) 0) r1
        | DOk None r1 => DErr       (* "$": SearchRes().Dynamic() *)
        | _ => DErr
        end
      else if bytes_eqb uname (s2b "MODSEQ") then
        do _, r1 <- ex (dec_modseq r); after d r1
      else do _, r1 <- discard_value (S (length r)) false 0 r; after d r1
  end.

Definition read_esearch (s : bytes) : dres esearch_resp :=
  do _, r <- ex_sp s;
  let d0 := mkSeD None false 0 0 0 in
  let with_tag (tag : bytes) (r : bytes) : dres esearch_resp :=
    match dec_sp r with
    | DErr => DErr
    | DNo r1 => DOk (mkES tag d0) r1
    | DOk _ r1 =>
        do name, r2 <- ex_atom r1;
        if bytes_eqb name (s2b "UID") then
          let d1 := mkSeD None true 0 0 0 in
          match dec_sp r2 with
          | DErr => DErr
          | DNo r3 => DOk (mkES tag d1) r3
          | DOk _ r3 =>
              do name', r4 <- ex_atom r3;
              do d, r5 <- read_es_items (S (length r4)) d1 name' r4; DOk (mkES tag d) r5
          end
        else do d, r5 <- read_es_items (S (length r2)) d0 name r2; DOk (mkES tag d) r5
    end in
  match dec_special (ch "(") r with
  | DErr => DErr
  | DNo _ => with_tag [] r
  | DOk _ r1 =>
      do corr, r2 <- ex_atom r1;
      do _, r3 <- ex_sp r2;
      do tag, r4 <- dec_astring false r3;
      do _, r5 <- ex_special (ch ")") r4;
      if bytes_eqb corr (s2b "TAG") then with_tag tag r5 else DErr
  end.

(* ---------------------------------------------------------------------------------------- *)
(* status responses with the codes that carry data                                           *)

Inductive resp_code :=
| CNone
| CAppendUID (uidvalidity uid : N)
| CCopyUID (uidvalidity : N) (src dst : nset)
| CUidNext (n : N)
| CUidValidity (n : N)
| CPermanentFlags (fl : list bytes)
| COther (name : bytes).               (* READ-WRITE, READ-ONLY, CLOSED, ...: an atom, no argument *)

Definition w_code (c : resp_code) : wr :=
  match c with
  | CNone => Some []
  | CAppendUID v u => ws "[APPENDUID " +++ w_num v +++ ws " " +++ w_num u +++ ws "] "
  | CCopyUID v s d => ws "[COPYUID " +++ w_num v +++ ws " " +++ w_numset s +++ ws " " +++ w_numset d +++ ws "] "
  | CUidNext n => ws "[UIDNEXT " +++ w_num n +++ ws "] "
  | CUidValidity n => ws "[UIDVALIDITY " +++ w_num n +++ ws "] "
  | CPermanentFlags fl => ws "[PERMANENTFLAGS " +++ w_list w_flag fl +++ ws "] "
  | COther name => ws "[" +++ wb name +++ ws "] "
  end.

(* tag "" is written as "*" *)
Definition w_status_resp (tag typ : bytes) (c : resp_code) (text : bytes) : wr :=
  wb (if is_nil tag then s2b "*" else tag) +++ ws " " +++ wb typ +++ ws " " +++ w_code c +++ wb text +++ wb CRLF.

Record append_data := mkAD { ad_uid : N; ad_uidvalidity : N }.
Record copy_data := mkCD { cd_uidvalidity : N; cd_src : nset; cd_dst : nset }.

(* imapserver writeAppendOK / writeCopyOK / MoveWriter.WriteCopyData *)
Definition w_append_ok (tag : bytes) (d : option append_data) : wr :=
  w_status_resp tag (s2b "OK")
    (match d with Some a => CAppendUID (ad_uidvalidity a) (ad_uid a) | None => CNone end) (s2b "APPEND completed").
Definition copy_code (d : option copy_data) : resp_code :=
  match d with
  | Some c => if negb (lnil (cd_src c)) && negb (lnil (cd_dst c))
              then CCopyUID (cd_uidvalidity c) (cd_src c) (cd_dst c) else CNone
  | None => CNone
  end.
Definition w_copy_ok (tag : bytes) (d : option copy_data) : wr :=
  w_status_resp tag (s2b "OK") (copy_code d) (s2b "COPY completed").
Definition w_move_copy (d : option copy_data) : wr :=
  match copy_code d with CNone => Some [] | c => w_status_resp [] (s2b "OK") c (s2b "COPY completed") end.

(* imapclient readRespCodeCopyUID *)
Definition read_copyuid (s : bytes) : dres resp_code :=
  do v, r <- ex_number s;
  do _, r <- ex_sp r;
  match dec_numset r with
  | DOk (Some src) r1 =>
      do _, r2 <- ex_sp r1;
      match dec_numset r2 with
      | DOk (Some dst) r3 => if dynamic src || dynamic dst then DErr else DOk (CCopyUID v src dst) r3
      | _ => DErr
      end
  | _ => DErr
  end.

(* Decoder.DiscardUntilByte *)
Fixpoint discard_until (c : byte) (s : bytes) : bytes :=
  match s with
  | [] => []
  | x :: r => if beqb x c then s else discard_until c r
  end.

(* the resp-text part of readResponseTagged (tagged = true) and of readResponseData's status
   cases, from after the status atom up to, not including, CRLF: (code, text).  CAPABILITY,
   HIGHESTMODSEQ and NOMODSEQ codes are not written by the modelled server functions and are
   not modelled (they would be read as COther here). *)
Definition read_resp_text (tagged : bool) (s : bytes) : dres (resp_code * bytes) :=
  let text_after (has_sp : bool) (c : resp_code) (r : bytes) : dres (resp_code * bytes) :=
    if has_sp then do t, r' <- ex (dec_text r); DOk (c, t) r' else DOk (c, []) r in
  match dec_sp s with
  | DErr => DErr
  | DNo r => DOk (CNone, []) r
  | DOk _ r =>
      match dec_special (ch "[") r with
      | DErr => DErr
      | DNo _ => text_after true CNone r
      | DOk _ r1 =>
          do code, r2 <- ex_atom r1;
          do c, r3 <-
            (if tagged && bytes_eqb code (s2b "APPENDUID") then
               do _, a <- ex_sp r2; do v, a <- ex_number a; do _, a <- ex_sp a; do u, a <- ex_number a;
               if u =? 0 then DErr else DOk (CAppendUID v u) a
             else if bytes_eqb code (s2b "COPYUID") then do _, a <- ex_sp r2; read_copyuid a
             else if negb tagged && bytes_eqb code (s2b "UIDNEXT") then do _, a <- ex_sp r2; do n, a <- ex_number a; DOk (CUidNext n) a
             else if negb tagged && bytes_eqb code (s2b "UIDVALIDITY") then do _, a <- ex_sp r2; do n, a <- ex_number a; DOk (CUidValidity n) a
             else if negb tagged && bytes_eqb code (s2b "PERMANENTFLAGS") then do _, a <- ex_sp r2; do fl, a <- dec_flag_list a; DOk (CPermanentFlags fl) a
             else match dec_sp r2 with
                  | DOk _ a => DOk (COther code) (discard_until (ch "]") a)
                  | DErr => DErr
                  | DNo a => DOk (COther code) a
                  end);
          do _, r4 <- ex_special (ch "]") r3;
          match dec_sp r4 with
          | DErr => DErr
          | DNo r5 => text_after false c r5
          | DOk _ r5 => text_after true c r5
          end
      end
  end.

(* ---------------------------------------------------------------------------------------- *)
(* simple numeric data and FLAGS                                                             *)

Definition w_num_line (n : N) (name : string) : wr := ws "* " +++ w_num n +++ ws " " +++ ws name +++ wb CRLF.
Definition w_flags_line (fl : list bytes) : wr := ws "* FLAGS " +++ w_list w_flag fl +++ wb CRLF.
