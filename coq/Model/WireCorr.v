(* Model/WireCorr.v — C01 correspondence: encoder outputs and decoder outcomes. *)
From GoImap.Base Require Import Bytes.
From GoImap.Model Require Import NumSet NumSetCorr MatchList Utf7 Wire.
Open Scope N_scope.

Inductive enc_in :=
| EString (s : bytes) | EQuoted (s : bytes) | EMailbox (s : bytes) | ENumSet (rs : nset)
| EFlag (f : bytes) | EAttr (a : bytes) | ENumber (n : N) | ENumber64 (z : Z) | EVal (v : wval).

Definition run_enc (cfg : enc_cfg) (i : enc_in) : eres :=
  match i with
  | EString s => enc_string cfg s
  | EQuoted s => Some [SBytes (enc_quoted s)]
  | EMailbox s => enc_mailbox cfg s
  | ENumSet rs => enc_numset rs
  | EFlag f => enc_flag f
  | EAttr a => enc_mailbox_attr a
  | ENumber n => Some [SBytes (enc_number n)]
  | ENumber64 z => enc_number64 z
  | EVal v => enc_val cfg v
  end.

(* (cfg, input, Some bytes written | None = encoder reported an error) *)
Definition wenc_case := (enc_cfg * enc_in * option bytes)%type.
Definition wenc_ok (c : wenc_case) : bool :=
  let '(cfg, i, expected) := c in
  option_eqb bytes_eqb (option_map flatten (run_enc cfg i)) expected.
Definition wenc_mismatches (cs : list wenc_case) : list N := idx_filter wenc_ok 0 cs.

(* decoder: kind, server side?, input; outcome class 0 ok / 1 no match / 2 error, value
   rendered as bytes, number of unread bytes (not compared on error) *)
Definition render {A} (f : A -> bytes) (r : dres A) : N * bytes * N :=
  match r with
  | DOk v rest => (0, f v, N.of_nat (length rest))
  | DNo rest => (1, [], N.of_nat (length rest))
  | DErr => (2, [], 0)
  end.
Definition unit_b (_ : unit) : bytes := [].
Definition numset_b (o : option nset) : bytes := match o with None => s2b "$" | Some s => to_string s end.

Definition run_dec (kind : N) (server : bool) (s : bytes) : N * bytes * N :=
  match kind with
  | 1 => render id (dec_quoted s)
  | 2 => render id (dec_literal server s)
  | 3 => render id (dec_string server s)
  | 4 => render id (dec_astring server s)
  | 5 => render id (dec_nstring server s)
  | 6 => render id (dec_mailbox server s)
  | 7 => render numset_b (dec_numset s)
  | 8 => render id (dec_flag s)
  | 9 => render id (dec_mailbox_attr s)
  | 10 => render dec_of_N (dec_number s)
  | 11 => render dec_of_N (dec_number64 s)
  | 12 => render dec_of_N (dec_modseq s)
  | 13 => render id (dec_atom s)
  | 14 => render unit_b (dec_sp s)
  | 15 => render unit_b (dec_crlf s)
  | 16 => render unit_b (discard_value (S (length s)) server 0 s)
  | _ => (9, [], 0)
  end.

Definition wdec_case := (N * bool * bytes * (N * bytes * N))%type.
Definition wdec_ok (c : wdec_case) : bool :=
  let '(kind, server, s, (cls, v, rem)) := c in
  let '(mc, mv, mr) := run_dec kind server s in
  (mc =? cls) && ((cls =? 2) || (bytes_eqb mv v && (mr =? rem))).
Definition wdec_mismatches (cs : list wdec_case) : list N := idx_filter wdec_ok 0 cs.
