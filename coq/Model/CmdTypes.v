(* Model/CmdTypes.v — argument types of the client API calls (methods of imapclient.Client) and of the
   backend calls they become (methods of imapserver.Session), as far as C02 compares them.
   One type per Go struct; field names follow the Go names.                                   *)
From GoImap.Base Require Import Bytes.
From GoImap.Model Require Import NumSet NumSetCorr MatchList Utf7 Wire Search ClientWrite CmdDate.
From GoImap.Model Require SearchCorr.
Open Scope N_scope.

Definition nilb {A} (l : list A) : bool := match l with [] => true | _ => false end.

(* imap.NumSet argument: the SearchRes() marker ("$") or a set of ranges *)
Inductive numarg := NRes | NSet (s : nset).

(* imap.SectionPartial *)
Definition partial := option (Z * Z).

(* imap.FetchItemBodySection *)
Record fsec := mkSec {
  fs_spec : bytes;              (* Specifier, "" = PartSpecifierNone *)
  fs_part : list Z;             (* []int *)
  fs_fields : list bytes;       (* HeaderFields *)
  fs_fields_not : list bytes;   (* HeaderFieldsNot *)
  fs_partial : partial;
  fs_peek : bool
}.
(* imap.FetchItemBinarySection *)
Record fbin := mkBin { fb_part : list Z; fb_partial : partial; fb_peek : bool }.

(* imap.FetchOptions *)
Record fetch_opts := mkFetch {
  fo_bodystructure : option bool;      (* Some extended *)
  fo_envelope : bool;
  fo_flags : bool;
  fo_internaldate : bool;
  fo_rfc822size : bool;
  fo_uid : bool;
  fo_sections : list fsec;
  fo_binary : list fbin;
  fo_binsize : list (list Z);
  fo_modseq : bool;                    (* requires CONDSTORE: not in the server's feature set *)
  fo_changedsince : N                  (* requires CONDSTORE *)
}.
Definition fetch_empty : fetch_opts := mkFetch None false false false false false [] [] [] false 0.

(* imap.StatusOptions *)
Record status_opts := mkSt {
  st_messages : bool; st_uidnext : bool; st_uidvalidity : bool; st_unseen : bool;
  st_deleted : bool; st_size : bool; st_appendlimit : bool; st_deletedstorage : bool;
  st_highestmodseq : bool              (* requires CONDSTORE *)
}.
Definition status_empty : status_opts := mkSt false false false false false false false false false.

(* imap.ListOptions *)
Record list_opts := mkLO {
  lo_sel_subscribed : bool; lo_sel_remote : bool; lo_sel_recursive : bool;
  lo_sel_specialuse : bool;            (* requires SPECIAL-USE: not in the server's feature set *)
  lo_ret_subscribed : bool; lo_ret_children : bool;
  lo_ret_status : option status_opts;
  lo_ret_specialuse : bool             (* requires SPECIAL-USE *)
}.
Definition list_empty : list_opts := mkLO false false false false false false None false.

(* imap.SearchOptions *)
Record search_opts := mkSO { so_min : bool; so_max : bool; so_all : bool; so_count : bool; so_save : bool }.

(* imap.SearchCriteria on the caller's side: the four dates are time.Time values *)
Inductive ccrit :=
  CC (seqs : list nset) (uids : list numarg)
     (since before sentsince sentbefore : ctime)
     (hdr : list (bytes * bytes)) (body text : list bytes)
     (flag notflag : list bytes)
     (larger smaller : Z)
     (modseq : option (N * bytes * bytes))   (* requires CONDSTORE: (ModSeq, MetadataName, MetadataType) *)
     (nots : list ccrit) (ors : list (ccrit * ccrit)).

(* what the caller asks of imapclient.Client *)
Inductive creq :=
| QLogin (user pass : bytes)
| QSelect (mbox : bytes) (readonly condstore : bool)
| QCreate (mbox : bytes) (special_use : list bytes)
| QDelete (mbox : bytes)
| QRename (mbox newname : bytes)
| QSubscribe (mbox : bytes)
| QUnsubscribe (mbox : bytes)
| QList (ref pattern : bytes) (o : list_opts)
| QStatus (mbox : bytes) (o : status_opts)
| QAppend (mbox : bytes) (flags : list bytes) (t : ctime) (payload : bytes)
| QExpunge
| QUIDExpunge (s : numarg)
| QSearch (uid : bool) (c : ccrit) (o : search_opts)
| QFetch (uid : bool) (s : numarg) (o : fetch_opts)
| QStore (uid : bool) (s : numarg) (op : N) (silent : bool) (flags : list bytes) (unchangedsince : N)
| QCopy (uid : bool) (s : numarg) (dest : bytes)
| QMove (uid : bool) (s : numarg) (dest : bytes)
| QUnselect
| QClose.

(* what reaches imapserver.Session.  The number kind of FETCH/STORE/COPY/MOVE is carried by the
   dynamic type of the imap.NumSet argument (SeqSet / UIDSet); SEARCH gets it explicitly. *)
Inductive bcall :=
| BLogin (user pass : bytes)
| BSelect (mbox : bytes) (readonly : bool)
| BCreate (mbox : bytes) (special_use : list bytes)
| BDelete (mbox : bytes)
| BRename (mbox newname : bytes)
| BSubscribe (mbox : bytes)
| BUnsubscribe (mbox : bytes)
| BList (ref : bytes) (patterns : list bytes) (o : list_opts)
| BStatus (mbox : bytes) (o : status_opts)
| BAppend (mbox : bytes) (flags : list bytes) (t : ctime) (payload : bytes)
| BExpunge (uids : option numarg)
| BSearch (uid : bool) (c : criteria) (o : search_opts)
| BFetch (uid : bool) (s : numarg) (o : fetch_opts)
| BStore (uid : bool) (s : numarg) (op : N) (silent : bool) (flags : list bytes)
| BCopy (uid : bool) (s : numarg) (dest : bytes)
| BMove (uid : bool) (s : numarg) (dest : bytes)
| BUnselect.

(* ---- structural equality (used by the correspondence evaluator) -------------------------- *)
Definition nset_eqb := SearchCorr.nset_eqb.
Definition numarg_eqb (a b : numarg) : bool :=
  match a, b with NRes, NRes => true | NSet x, NSet y => nset_eqb x y | _, _ => false end.
Definition zlist_eqb (a b : list Z) : bool := list_eqb Z.eqb a b.
Definition blist_eqb (a b : list bytes) : bool := list_eqb bytes_eqb a b.
Definition partial_eqb (a b : partial) : bool :=
  option_eqb (fun x y => Z.eqb (fst x) (fst y) && Z.eqb (snd x) (snd y)) a b.
Definition fsec_eqb (a b : fsec) : bool :=
  bytes_eqb (fs_spec a) (fs_spec b) && zlist_eqb (fs_part a) (fs_part b) &&
  blist_eqb (fs_fields a) (fs_fields b) && blist_eqb (fs_fields_not a) (fs_fields_not b) &&
  partial_eqb (fs_partial a) (fs_partial b) && Bool.eqb (fs_peek a) (fs_peek b).
Definition fbin_eqb (a b : fbin) : bool :=
  zlist_eqb (fb_part a) (fb_part b) && partial_eqb (fb_partial a) (fb_partial b) && Bool.eqb (fb_peek a) (fb_peek b).
Definition fetch_eqb (a b : fetch_opts) : bool :=
  option_eqb Bool.eqb (fo_bodystructure a) (fo_bodystructure b) &&
  Bool.eqb (fo_envelope a) (fo_envelope b) && Bool.eqb (fo_flags a) (fo_flags b) &&
  Bool.eqb (fo_internaldate a) (fo_internaldate b) && Bool.eqb (fo_rfc822size a) (fo_rfc822size b) &&
  Bool.eqb (fo_uid a) (fo_uid b) &&
  list_eqb fsec_eqb (fo_sections a) (fo_sections b) && list_eqb fbin_eqb (fo_binary a) (fo_binary b) &&
  list_eqb zlist_eqb (fo_binsize a) (fo_binsize b) &&
  Bool.eqb (fo_modseq a) (fo_modseq b) && (fo_changedsince a =? fo_changedsince b).
Definition status_eqb (a b : status_opts) : bool :=
  Bool.eqb (st_messages a) (st_messages b) && Bool.eqb (st_uidnext a) (st_uidnext b) &&
  Bool.eqb (st_uidvalidity a) (st_uidvalidity b) && Bool.eqb (st_unseen a) (st_unseen b) &&
  Bool.eqb (st_deleted a) (st_deleted b) && Bool.eqb (st_size a) (st_size b) &&
  Bool.eqb (st_appendlimit a) (st_appendlimit b) && Bool.eqb (st_deletedstorage a) (st_deletedstorage b) &&
  Bool.eqb (st_highestmodseq a) (st_highestmodseq b).
Definition lopts_eqb (a b : list_opts) : bool :=
  Bool.eqb (lo_sel_subscribed a) (lo_sel_subscribed b) && Bool.eqb (lo_sel_remote a) (lo_sel_remote b) &&
  Bool.eqb (lo_sel_recursive a) (lo_sel_recursive b) && Bool.eqb (lo_sel_specialuse a) (lo_sel_specialuse b) &&
  Bool.eqb (lo_ret_subscribed a) (lo_ret_subscribed b) && Bool.eqb (lo_ret_children a) (lo_ret_children b) &&
  option_eqb status_eqb (lo_ret_status a) (lo_ret_status b) &&
  Bool.eqb (lo_ret_specialuse a) (lo_ret_specialuse b).
Definition sopts_eqb (a b : search_opts) : bool :=
  Bool.eqb (so_min a) (so_min b) && Bool.eqb (so_max a) (so_max b) && Bool.eqb (so_all a) (so_all b) &&
  Bool.eqb (so_count a) (so_count b) && Bool.eqb (so_save a) (so_save b).

Definition bcall_eqb (a b : bcall) : bool :=
  match a, b with
  | BLogin u p, BLogin u' p' => bytes_eqb u u' && bytes_eqb p p'
  | BSelect m r, BSelect m' r' => bytes_eqb m m' && Bool.eqb r r'
  | BCreate m u, BCreate m' u' => bytes_eqb m m' && blist_eqb u u'
  | BDelete m, BDelete m' => bytes_eqb m m'
  | BRename m n, BRename m' n' => bytes_eqb m m' && bytes_eqb n n'
  | BSubscribe m, BSubscribe m' => bytes_eqb m m'
  | BUnsubscribe m, BUnsubscribe m' => bytes_eqb m m'
  | BList r p o, BList r' p' o' => bytes_eqb r r' && blist_eqb p p' && lopts_eqb o o'
  | BStatus m o, BStatus m' o' => bytes_eqb m m' && status_eqb o o'
  | BAppend m f t p, BAppend m' f' t' p' => bytes_eqb m m' && blist_eqb f f' && t_eqb t t' && bytes_eqb p p'
  | BExpunge u, BExpunge u' => option_eqb numarg_eqb u u'
  | BSearch k c o, BSearch k' c' o' => Bool.eqb k k' && SearchCorr.criteria_eqb c c' && sopts_eqb o o'
  | BFetch k s o, BFetch k' s' o' => Bool.eqb k k' && numarg_eqb s s' && fetch_eqb o o'
  | BStore k s op si f, BStore k' s' op' si' f' =>
      Bool.eqb k k' && numarg_eqb s s' && (op =? op') && Bool.eqb si si' && blist_eqb f f'
  | BCopy k s d, BCopy k' s' d' => Bool.eqb k k' && numarg_eqb s s' && bytes_eqb d d'
  | BMove k s d, BMove k' s' d' => Bool.eqb k k' && numarg_eqb s s' && bytes_eqb d d'
  | BUnselect, BUnselect => true
  | _, _ => false
  end.
