(* Model/Search.v — executable model of imap.SearchCriteria.And (search.go), of the key
   switch of imapserver.readSearchKeyWithAtom (imapserver/search.go) over an abstract key
   syntax, and of the reference matcher message.search (imapmemserver/message.go).           *)
From GoImap.Base Require Import Bytes.
From GoImap.Model Require Import NumSet.
Open Scope Z_scope.

(* times are Z with 0 = the zero time.Time (IsZero); sizes are int64 with 0 = unset *)
Inductive criteria :=
  Crit (seqs uids : list nset)
       (since before sentsince sentbefore : Z)
       (hdr : list (bytes * bytes)) (body text : list bytes)
       (flag notflag : list bytes)
       (larger smaller : Z)
       (nots : list criteria) (ors : list (criteria * criteria)).

Definition empty_crit : criteria := Crit [] [] 0 0 0 0 [] [] [] [] [] 0 0 [] [].

Definition intersect_since (t1 t2 : Z) : Z :=
  if t1 =? 0 then t2 else if t2 =? 0 then t1 else if t2 <? t1 then t1 else t2.
Definition intersect_before (t1 t2 : Z) : Z :=
  if t1 =? 0 then t2 else if t2 =? 0 then t1 else if t1 <? t2 then t1 else t2.

(* SearchCriteria.And *)
Definition and_ (c o : criteria) : criteria :=
  match c, o with
  | Crit s1 u1 si1 be1 ss1 sb1 h1 b1 t1 f1 nf1 la1 sm1 n1 o1,
    Crit s2 u2 si2 be2 ss2 sb2 h2 b2 t2 f2 nf2 la2 sm2 n2 o2 =>
      Crit (s1 ++ s2) (u1 ++ u2)
           (intersect_since si1 si2) (intersect_before be1 be2)
           (intersect_since ss1 ss2) (intersect_before sb1 sb2)
           (h1 ++ h2) (b1 ++ b2) (t1 ++ t2) (f1 ++ f2) (nf1 ++ nf2)
           (if (la1 =? 0) || (la1 <? la2) then la2 else la1)
           (if negb (sm2 =? 0) && ((sm1 =? 0) || (sm2 <? sm1)) then sm2 else sm1)
           (n1 ++ n2) (o1 ++ o2)
  end.

(* ---- the message side, as message.search sees it ---- *)
Record msg := {
  m_seq : N;                       (* client-side sequence number, 0 = not visible *)
  m_uid : N;
  m_date : Z;                      (* internal date truncated to the day *)
  m_sent : option Z;               (* Date header truncated to the day, None = unparsable *)
  m_flag : bytes -> bool;          (* flag lookup (after canonicalisation) *)
  m_size : Z;
  m_text : bytes -> bool;          (* case-insensitive substring of the whole message *)
  m_body : bytes -> bool;          (* ... of the body *)
  m_hdr : bytes -> bytes -> bool   (* header present and (value empty or substring) *)
}.

Definition set_has (s : nset) (q : N) : bool :=
  match contains s q with Some b => b | None => false end.

Definition match_date (t since before : Z) : bool :=
  negb (negb (since =? 0) && (t <? since)) && negb (negb (before =? 0) && negb (t <? before)).

Fixpoint matches (m : msg) (c : criteria) : bool :=
  match c with
  | Crit seqs uids since before sentsince sentbefore hdr body text flag notflag larger smaller nots ors =>
      forallb (fun s => negb (N.eqb (m_seq m) 0) && set_has s (m_seq m)) seqs &&
      forallb (fun s => set_has s (m_uid m)) uids &&
      match_date (m_date m) since before &&
      forallb (m_flag m) flag &&
      forallb (fun f => negb (m_flag m f)) notflag &&
      negb (negb (larger =? 0) && (m_size m <=? larger)) &&
      negb (negb (smaller =? 0) && (smaller <=? m_size m)) &&
      forallb (m_text m) text &&
      forallb (fun kv => m_hdr m (fst kv) (snd kv)) hdr &&
      (if negb (sentsince =? 0) || negb (sentbefore =? 0) then
         match m_sent m with None => false | Some t => match_date t sentsince sentbefore end
       else true) &&
      forallb (m_body m) body &&
      forallb (fun n => negb (matches m n)) nots &&
      forallb (fun p => matches m (fst p) || matches m (snd p)) ors
  end.

(* ---- SEARCH keys and the parser's fold ---- *)
Inductive skey :=
| KAll | KSeq (s : nset) | KUid (s : nset)
| KFlag (f : bytes) | KNotFlag (f : bytes)           (* ANSWERED.. / UN.. / KEYWORD / UNKEYWORD *)
| KNew | KOld
| KHeader (k v : bytes)
| KSince (d : Z) | KBefore (d : Z) | KOn (d : Z)
| KSentSince (d : Z) | KSentBefore (d : Z) | KSentOn (d : Z)
| KBody (s : bytes) | KText (s : bytes)
| KLarger (n : Z) | KSmaller (n : Z)
| KNot (k : skey) | KOr (k1 k2 : skey)
| KList (ks : list skey).

Definition RECENT : bytes := s2b "\Recent".
Definition SEEN : bytes := s2b "\Seen".
Definition DAY : Z := 86400.

Definition date_crit (si be ss sb : Z) : criteria := Crit [] [] si be ss sb [] [] [] [] [] 0 0 [] [].
Definition size_crit (la sm : Z) : criteria := Crit [] [] 0 0 0 0 [] [] [] [] [] la sm [] [].

(* readSearchKeyWithAtom / readSearchKey: update [c] with one key *)
Fixpoint apply_key (c : criteria) (k : skey) : criteria :=
  match c with
  | Crit seqs uids si be ss sb hdr body text flag notflag la sm nots ors =>
      match k with
      | KAll => c
      | KSeq s => Crit (seqs ++ [s]) uids si be ss sb hdr body text flag notflag la sm nots ors
      | KUid s => Crit seqs (uids ++ [s]) si be ss sb hdr body text flag notflag la sm nots ors
      | KFlag f => Crit seqs uids si be ss sb hdr body text (flag ++ [f]) notflag la sm nots ors
      | KNotFlag f => Crit seqs uids si be ss sb hdr body text flag (notflag ++ [f]) la sm nots ors
      | KNew => Crit seqs uids si be ss sb hdr body text (flag ++ [RECENT]) (notflag ++ [SEEN]) la sm nots ors
      | KOld => Crit seqs uids si be ss sb hdr body text flag (notflag ++ [RECENT]) la sm nots ors
      | KHeader hk hv => Crit seqs uids si be ss sb (hdr ++ [(hk, hv)]) body text flag notflag la sm nots ors
      | KSince d => and_ c (date_crit d 0 0 0)
      | KBefore d => and_ c (date_crit 0 d 0 0)
      | KOn d => and_ c (date_crit d (d + DAY) 0 0)
      | KSentSince d => and_ c (date_crit 0 0 d 0)
      | KSentBefore d => and_ c (date_crit 0 0 0 d)
      | KSentOn d => and_ c (date_crit 0 0 d (d + DAY))
      | KBody s => Crit seqs uids si be ss sb hdr (body ++ [s]) text flag notflag la sm nots ors
      | KText s => Crit seqs uids si be ss sb hdr body (text ++ [s]) flag notflag la sm nots ors
      | KLarger n => and_ c (size_crit n 0)
      | KSmaller n => and_ c (size_crit 0 n)
      | KNot k' => Crit seqs uids si be ss sb hdr body text flag notflag la sm
                        (nots ++ [apply_key empty_crit k']) ors
      | KOr k1 k2 => Crit seqs uids si be ss sb hdr body text flag notflag la sm nots
                          (ors ++ [(apply_key empty_crit k1, apply_key empty_crit k2)])
      | KList ks => fold_left apply_key ks c
      end
  end.

Definition parse_keys (ks : list skey) : criteria := fold_left apply_key ks empty_crit.
