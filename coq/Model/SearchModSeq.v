(* Model/SearchModSeq.v — imap.SearchCriteria with its ModSeq field (CONDSTORE), at every level of
   NOT/OR nesting, and SearchCriteria.And (search.go) on it. [Search.criteria] / [Search.and_] are
   the ModSeq-free fragment the server parser produces (imapserver/search.go has no MODSEQ key);
   [embed] injects it and Proofs/SearchModSeqProofs.v shows that [xand] restricted to it is [and_].
   Dates are calendar dates (the date of the time.Time in its own zone, as seconds of that date's
   UTC midnight; 0 = IsZero): intersectSince/intersectBefore compare calendar dates only.        *)
From GoImap.Base Require Import Bytes.
From GoImap.Model Require Import NumSet NumSetCorr MatchList Search SearchCorr.
Open Scope Z_scope.

(* SearchCriteriaModSeq: (ModSeq, MetadataName, MetadataType) *)
Definition modseq := (N * bytes * bytes)%type.

Inductive xcrit :=
  XCrit (seqs uids : list nset)
        (since before sentsince sentbefore : Z)
        (hdr : list (bytes * bytes)) (body text : list bytes)
        (flag notflag : list bytes)
        (larger smaller : Z)
        (mseq : option modseq)
        (nots : list xcrit) (ors : list (xcrit * xcrit)).

Definition xempty : xcrit := XCrit [] [] 0 0 0 0 [] [] [] [] [] 0 0 None [] [].
(* SearchCriteria{Not: []SearchCriteria{{ModSeq: &q}}}: matches when MODSEQ q does not; And appends
   it to the receiver's Not list, i.e. NOT (NOT MODSEQ q) *)
Definition xnot_modseq (q : modseq) : xcrit :=
  XCrit [] [] 0 0 0 0 [] [] [] [] [] 0 0 None
        [XCrit [] [] 0 0 0 0 [] [] [] [] [] 0 0 (Some q) [] []] [].

Definition same_entry (q1 q2 : modseq) : bool :=
  bytes_eqb (snd (fst q1)) (snd (fst q2)) && bytes_eqb (snd q1) (snd q2).

(* SearchCriteria.And *)
Definition xand (c o : xcrit) : xcrit :=
  match c, o with
  | XCrit s1 u1 si1 be1 ss1 sb1 h1 b1 t1 f1 nf1 la1 sm1 q1 n1 o1,
    XCrit s2 u2 si2 be2 ss2 sb2 h2 b2 t2 f2 nf2 la2 sm2 q2 n2 o2 =>
      let '(q, extra) :=
        match q2 with
        | None => (q1, [])
        | Some m2 =>
            match q1 with
            | None => (Some m2, [])
            | Some m1 =>
                if same_entry m1 m2
                then ((if (fst (fst m1) <? fst (fst m2))%N then Some m2 else Some m1), [])
                else (Some m1, [xnot_modseq m2])
            end
        end in
      XCrit (s1 ++ s2) (u1 ++ u2)
            (intersect_since si1 si2) (intersect_before be1 be2)
            (intersect_since ss1 ss2) (intersect_before sb1 sb2)
            (h1 ++ h2) (b1 ++ b2) (t1 ++ t2) (f1 ++ f2) (nf1 ++ nf2)
            (if (la1 =? 0) || (la1 <? la2) then la2 else la1)
            (if negb (sm2 =? 0) && ((sm1 =? 0) || (sm2 <? sm1)) then sm2 else sm1)
            q
            ((n1 ++ n2) ++ extra) (o1 ++ o2)
  end.

(* the mod-sequence of a message's metadata entry (name, type); RFC 7162: MODSEQ matches when it
   is >= the key's value *)
Definition modseq_ok (mq : bytes -> bytes -> N) (q : option modseq) : bool :=
  match q with
  | None => true
  | Some (v, n, t) => (v <=? mq n t)%N
  end.

Fixpoint xmatches (mq : bytes -> bytes -> N) (m : msg) (c : xcrit) : bool :=
  match c with
  | XCrit seqs uids since before sentsince sentbefore hdr body text flag notflag larger smaller q nots ors =>
      forallb (fun s => negb (N.eqb (m_seq m) 0) && set_has s (m_seq m)) seqs &&
      forallb (fun s => set_has s (m_uid m)) uids &&
      match_date (m_date m) since before &&
      forallb (m_flag m) flag &&
      forallb (fun f => negb (m_flag m f)) notflag &&
      negb (negb (larger =? 0) && (m_size m <=? larger)) &&
      negb (negb (smaller =? 0) && (smaller <=? m_size m)) &&
      forallb (m_text m) text &&
      forallb (fun kv => m_hdr m (fst kv) (snd kv)) hdr &&
      (if negb (sentsince =? 0) || negb (sentbefore =? 0) then
         match m_sent m with None => false | Some t => match_date t sentsince sentbefore end
       else true) &&
      forallb (m_body m) body &&
      modseq_ok mq q &&
      forallb (fun n => negb (xmatches mq m n)) nots &&
      forallb (fun p => xmatches mq m (fst p) || xmatches mq m (snd p)) ors
  end.

(* the ModSeq-free fragment *)
Fixpoint embed (c : criteria) : xcrit :=
  match c with
  | Crit s u si be ss sb h b t f nf la sm n o =>
      XCrit s u si be ss sb h b t f nf la sm None
            (map embed n) (map (fun p => (embed (fst p), embed (snd p))) o)
  end.

(* ---- correspondence: (a, b, what a.And(&b) left in a) ---- *)
Definition modseq_eqb (a b : modseq) : bool :=
  N.eqb (fst (fst a)) (fst (fst b)) && same_entry a b.
Definition omodseq_eqb (a b : option modseq) : bool :=
  match a, b with
  | None, None => true
  | Some x, Some y => modseq_eqb x y
  | _, _ => false
  end.

Fixpoint xcrit_eqb (a b : xcrit) {struct a} : bool :=
  match a, b with
  | XCrit s1 u1 si1 be1 ss1 sb1 h1 b1 t1 f1 nf1 la1 sm1 q1 n1 o1,
    XCrit s2 u2 si2 be2 ss2 sb2 h2 b2 t2 f2 nf2 la2 sm2 q2 n2 o2 =>
      list_eqb nset_eqb s1 s2 && list_eqb nset_eqb u1 u2 &&
      (si1 =? si2) && (be1 =? be2) && (ss1 =? ss2) && (sb1 =? sb2) &&
      list_eqb pair_bytes_eqb h1 h2 && list_eqb bytes_eqb b1 b2 && list_eqb bytes_eqb t1 t2 &&
      list_eqb bytes_eqb f1 f2 && list_eqb bytes_eqb nf1 nf2 &&
      (la1 =? la2) && (sm1 =? sm2) && omodseq_eqb q1 q2 &&
      (fix go (x y : list xcrit) : bool :=
         match x, y with
         | [], [] => true
         | c :: x', d :: y' => xcrit_eqb c d && go x' y'
         | _, _ => false
         end) n1 n2 &&
      (fix go (x y : list (xcrit * xcrit)) : bool :=
         match x, y with
         | [], [] => true
         | (c1, c2) :: x', (d1, d2) :: y' => xcrit_eqb c1 d1 && xcrit_eqb c2 d2 && go x' y'
         | _, _ => false
         end) o1 o2
  end.

Definition xand_case := (xcrit * xcrit * xcrit)%type.
Definition xand_ok (c : xand_case) : bool := let '(a, b, r) := c in xcrit_eqb (xand a b) r.
Definition xand_mismatches (cs : list xand_case) : list N := idx_filter xand_ok 0%N cs.
