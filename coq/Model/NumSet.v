(* Model/NumSet.v — executable model of internal/imapnum/numset.go (Range, Set) and of the
   public wrappers in numset.go.  Function-for-function transcription; uint32 arithmetic
   is written with its wrap wherever the Go code can wrap.                                *)
From GoImap.Base Require Import Bytes.
Open Scope N_scope.

Definition M32 : N := 4294967296.
Definition MAX32 : N := 4294967295.

(* Range{Start, Stop}; 0 stands for "*" *)
Definition range := (N * N)%type.
Definition nset := list range.

Definition range_eqb (s t : range) : bool := (fst s =? fst t) && (snd s =? snd t).

(* Range.Contains *)
Definition rcontains (s : range) (q : N) : bool :=
  let '(a, b) := s in
  if q =? 0 then b =? 0
  else negb (a =? 0) && (a <=? q) && ((q <=? b) || (b =? 0)).

(* Range.Less *)
Definition rless (s : range) (q : N) : bool :=
  let '(_, b) := s in ((b <? q) || (q =? 0)) && negb (b =? 0).

(* Range.Merge *)
Definition rmerge (s t : range) : range * bool :=
  if range_eqb s t then (s, true)
  else
    let '(sa, sb) := s in
    let '(ta, tb) := t in
    if negb (sa =? 0) && negb (ta =? 0) then
      let '(s', t') := if ta <? sa then (t, s) else (s, t) in
      let '(sa', sb') := s' in
      let '(ta', tb') := t' in
      if ((tb' <=? sb') && negb (tb' =? 0)) || (sb' =? 0) then (s', true)
      else if (ta' <=? (sb' + 1) mod M32) || (sb' =? MAX32) then ((sa', tb'), true)
      else (s, false)
    else if sa =? 0 then
      (if tb =? 0 then (t, true) else (s, false))
    else if sb =? 0 then (s, true)
    else (s, false).

(* Set.search: the bisection loop, fuel = len(s) (each iteration halves max-min) *)
Fixpoint bisect (fuel : nat) (s : nset) (q : N) (lo hi : nat) : option nat :=
  if Nat.ltb lo hi then
    match fuel with
    | O => None
    | S f =>
        let mid := Nat.div2 (lo + hi) in
        match nth_error s mid with
        | None => None                      (* index out of range: Go would panic *)
        | Some r => if rless r q then bisect f s q (S mid) hi else bisect f s q lo mid
        end
    end
  else Some lo.

(* result: None = crash (unreachable, see Proofs), Some (i, ok) *)
Definition search (s : nset) (q : N) : option (nat * bool) :=
  match s with
  | [] => Some (O, false)                   (* max < 0 *)
  | _ =>
      match bisect (S (length s)) s q O (length s - 1) with
      | None => None
      | Some lo =>
          match nth_error s lo with
          | None => None
          | Some r => if rless r q then Some (length s, false) else Some (lo, rcontains r q)
          end
      end
  end.

(* the trailing loop of Set.insert: keep merging s[i] with its successors *)
Fixpoint absorb (acc : range) (rest : nset) : nset :=
  match rest with
  | [] => [acc]
  | r :: rest' =>
      let '(u, ok) := rmerge acc r in
      if ok then absorb u rest' else acc :: rest
  end.

(* Set.insert (with insertAt inlined as list surgery) *)
Definition insert (s : nset) (v : range) : option nset :=
  match search s (fst v) with
  | None => None
  | Some (i, _) =>
      (* if i > 0 { s[i-1], merged = s[i-1].Merge(v) } *)
      let '(s1, merged) :=
        match i with
        | O => (s, false)
        | S k =>
            match nth_error s k with
            | None => (s, false)
            | Some p => let '(u, ok) := rmerge p v in (firstn k s ++ u :: skipn (S k) s, ok)
            end
        end in
      if Nat.eqb i (length s) then
        Some (if merged then s1 else s1 ++ [v])
      else if merged then
        (* i--; continue merging s[i] with the entries after it *)
        let k := Nat.pred i in
        match nth_error s1 k with
        | None => None
        | Some p => Some (firstn k s1 ++ absorb p (skipn (S k) s1))
        end
      else
        match nth_error s1 i with
        | None => None
        | Some p =>
            let '(u, ok) := rmerge p v in
            if ok then Some (firstn i s1 ++ absorb u (skipn (S i) s1))
            else Some (firstn i s1 ++ v :: skipn i s1)
        end
  end.

(* AddRange's endpoint normalisation *)
Definition norm_range (start stop : N) : range :=
  if ((stop <? start) && negb (stop =? 0)) || (start =? 0) then (stop, start) else (start, stop).

Definition add_range (s : nset) (start stop : N) : option nset := insert s (norm_range start stop).
Definition add_num (s : nset) (q : N) : option nset := insert s (q, q).
Fixpoint add_set (s : nset) (t : nset) : option nset :=
  match t with
  | [] => Some s
  | v :: t' => match insert s v with None => None | Some s' => add_set s' t' end
  end.

Definition dynamic (s : nset) : bool :=
  match rev s with
  | [] => false
  | (_, b) :: _ => b =? 0
  end.

Definition contains (s : nset) (q : N) : option bool :=
  match search s q with
  | None => None
  | Some (_, ok) => Some (ok && negb (q =? 0))
  end.

(* Range.append / Set.Nums.  [nums_range a b] enumerates a..b (a <= b). *)
(* (offsets are counted from a so that evaluation never builds a unary number of size a) *)
Definition nums_range (a b : N) : list N :=
  map (fun i => a + N.of_nat i) (seq 0 (N.to_nat (b + 1 - a))).

Inductive nums_result := NumsOk (l : list N) | NumsNotStatic.

Fixpoint nums (s : nset) : nums_result :=
  match s with
  | [] => NumsOk []
  | (a, b) :: s' =>
      if (a =? 0) || (b =? 0) then NumsNotStatic
      else match nums s' with
           | NumsOk l => NumsOk (nums_range a b ++ l)
           | NumsNotStatic => NumsNotStatic
           end
  end.

(* Range/Set.String *)
Definition range_to_string (r : range) : bytes :=
  let '(a, b) := r in
  if a =? 0 then s2b "*"
  else if a =? b then dec_of_N a
  else if b =? 0 then dec_of_N a ++ s2b ":*"
  else dec_of_N a ++ s2b ":" ++ dec_of_N b.

Definition to_string (s : nset) : bytes := join_with (s2b ",") (map range_to_string s).

(* parseNum: ParseUint(v,10,32) ok and v[0] != '0'; or "*" *)
Definition parse_num (v : bytes) : option N :=
  match parse_uint M32 v, v with
  | Some n, c :: _ => if beqb c (ch "0") then (if bytes_eqb v (s2b "*") then Some 0 else None) else Some n
  | _, _ => if bytes_eqb v (s2b "*") then Some 0 else None
  end.

(* parseNumRange *)
Definition parse_range (v : bytes) : option range :=
  match index_of (ch ":") v with
  | None => match parse_num v with Some n => Some (n, n) | None => None end
  | Some sep =>
      match parse_num (firstn sep v), parse_num (skipn (S sep) v) with
      | Some a, Some b => Some (norm_range a b)
      | _, _ => None
      end
  end.

(* ParseSet; the outer option is the parse error, the inner the (unreachable) crash *)
Fixpoint parse_fields (s : nset) (fs : list bytes) : option (option nset) :=
  match fs with
  | [] => Some (Some s)
  | f :: fs' =>
      match parse_range f with
      | None => None
      | Some (a, b) =>
          match add_range s a b with
          | None => Some None
          | Some s' => parse_fields s' fs'
          end
      end
  end.
Definition parse_set (t : bytes) : option (option nset) := parse_fields [] (split_byte (ch ",") t).

(* ---- operation language used by the correspondence run and by the history theorems ---- *)
Inductive op := AddNum (q : N) | AddRange (a b : N) | AddSet (t : nset).

Definition apply_op (s : option nset) (o : op) : option nset :=
  match s with
  | None => None
  | Some s =>
      match o with
      | AddNum q => add_num s q
      | AddRange a b => add_range s a b
      | AddSet t => add_set s t
      end
  end.

Definition run_ops (ops : list op) : option nset := fold_left apply_op ops (Some []).

(* ---- specification side: denotation and canonical form ---- *)
(* membership of a probe q in 0..2^32-1 where 0 is the probe "*" *)
Definition rden (r : range) (q : N) : bool := rcontains r q.
Definition den (s : nset) (q : N) : bool := existsb (fun r => rden r q) s.

Definition wf_range (r : range) : bool :=
  let '(a, b) := r in
  (a <? M32) && (b <? M32) &&
  ((negb (a =? 0) && ((a <=? b) || (b =? 0))) || ((a =? 0) && (b =? 0))).

(* sorted, pairwise disjoint and non-adjacent; a dynamic range can only be last, and a
   lone "*" may follow anything static *)
Fixpoint canon (s : nset) : bool :=
  match s with
  | [] => true
  | r :: s' =>
      wf_range r &&
      match s' with
      | [] => true
      | r' :: _ =>
          let '(_, b) := r in
          let '(a', b') := r' in
          negb (b =? 0) &&
          (if a' =? 0 then true else (b + 1 <? a'))
      end && canon s'
  end.
