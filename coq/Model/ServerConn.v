(* Model/ServerConn.v — semantic layer of imapserver.Conn: which backend calls a well-formed
   command makes, in which connection state, with which tagged outcome and next state.
   Transcribes readCommand's dispatch (conn.go), checkState / canAuth / canStartTLS, and the
   state assignments of handleLogin, handleAuthenticate, handleUnauthenticate, handleSelect,
   handleUnselect, handleLogout, handleStartTLS, plus Conn.poll.                              *)
From GoImap.Base Require Import Bytes.
Open Scope N_scope.

Inductive cstate := SNotAuth | SAuth | SSelected | SLogout.

Record scfg := mkScfg {
  c_tlsconfig : bool;      (* Options.TLSConfig != nil *)
  c_insecure : bool;       (* Options.InsecureAuth *)
  c_preauth : bool;        (* GreetingData.PreAuth *)
  c_unauth : bool          (* session implements SessionUnauthenticate *)
}.

(* connection: protocol state + whether the transport is TLS *)
Record conn := mkConn { st : cstate; tls : bool }.

Inductive cmd :=
| CCapability | CNoop | CLogout | CStartTLS | CLogin | CAuthPlain | CUnauthenticate | CEnable
| CSelect | CExamine | CCreate | CDelete | CRename | CSubscribe | CUnsubscribe
| CList | CLsub | CStatus | CAppend | CNamespace | CIdle
| CClose | CUnselect | CExpunge | CUidExpunge
| CFetch (uid : bool) | CStore (uid : bool) | CSearch (uid : bool) | CCopy (uid : bool) | CMove (uid : bool)
| CUnknown.

Inductive call :=
| KLogin | KUnauth | KSelect | KUnselect | KCreate | KDelete | KRename | KSubscribe | KUnsubscribe
| KList | KStatus | KAppend | KNamespace | KIdle | KExpunge | KFetch | KStore | KSearch | KCopy | KMove
| KPoll (allow : bool).

Inductive rclass := ROk | RNo | RBad.

(* result of one command *)
Record result := mkRes {
  r_calls : list (call * cstate);   (* backend calls, each with the connection state it saw *)
  r_class : rclass;                 (* class of the tagged completion *)
  r_bye : bool;                     (* an untagged BYE was sent (connection ends) *)
  r_conn : conn
}.

Definition can_auth (cfg : scfg) (c : conn) : bool :=
  match st c with SNotAuth => tls c || c_insecure cfg | _ => false end.
Definition can_starttls (cfg : scfg) (c : conn) : bool :=
  c_tlsconfig cfg && match st c with SNotAuth => negb (tls c) | _ => false end.

(* checkState *)
Definition check_state (want : cstate) (c : conn) : bool :=
  match want, st c with
  | SAuth, SSelected => true
  | SNotAuth, SNotAuth | SAuth, SAuth | SSelected, SSelected | SLogout, SLogout => true
  | _, _ => false
  end.

(* Conn.poll after a command that completed without error *)
Definition poll_calls (allow : bool) (c : conn) : list (call * cstate) :=
  match st c with
  | SAuth | SSelected => [(KPoll allow, st c)]
  | _ => []
  end.

Definition next_ok (outs : list bool) : bool * list bool :=
  match outs with [] => (true, []) | o :: r => (o, r) end.

(* a command that checks the state, makes one backend call, and is followed by a poll *)
Definition simple (want : cstate) (k : call) (allow : bool) (c : conn) (outs : list bool) : result :=
  if negb (check_state want c) then mkRes [] RBad false c
  else
    let '(ok, _) := next_ok outs in
    if ok then mkRes ((k, st c) :: poll_calls allow c) ROk false c
    else mkRes [(k, st c)] RNo false c.

Definition with_st (c : conn) (s : cstate) : conn := mkConn s (tls c).

(* outs: outcomes of the backend calls of this command, in call order (true = success;
   missing = success); Poll never fails in this model *)
Definition handle (cfg : scfg) (c : conn) (m : cmd) (outs : list bool) : result :=
  match m with
  | CCapability | CNoop => mkRes (poll_calls true c) ROk false c
  | CLogout => mkRes [] ROk true (with_st c SLogout)
  | CStartTLS =>
      if negb (c_tlsconfig cfg) then mkRes [] RNo false c
      else if negb (can_starttls cfg c) then mkRes [] RBad false c
      else mkRes [] ROk false (mkConn (st c) true)
  | CLogin | CAuthPlain =>
      if negb (check_state SNotAuth c) then mkRes [] RBad false c
      else if negb (can_auth cfg c) then mkRes [] RNo false c
      else
        let '(ok, _) := next_ok outs in
        if ok then mkRes [(KLogin, st c)] ROk false (with_st c SAuth)
        else mkRes [(KLogin, st c)] RNo false c
  | CUnauthenticate =>
      if negb (check_state SAuth c) then mkRes [] RBad false c
      else if negb (c_unauth cfg) then mkRes [] RBad false c
      else
        let '(ok, _) := next_ok outs in
        if ok then mkRes [(KUnauth, st c)] ROk false (with_st c SNotAuth)   (* poll: not authenticated -> none *)
        else mkRes [(KUnauth, st c)] RNo false c
  | CEnable =>
      if negb (check_state SAuth c) then mkRes [] RBad false c
      else mkRes (poll_calls true c) ROk false c
  | CSelect | CExamine =>
      if negb (check_state SAuth c) then mkRes [] RBad false c
      else
        match st c with
        | SSelected =>
            let '(ok1, outs1) := next_ok outs in
            if negb ok1 then mkRes [(KUnselect, SSelected)] RNo false c
            else
              let '(ok2, _) := next_ok outs1 in
              if ok2 then mkRes [(KUnselect, SSelected); (KSelect, SAuth)] ROk false (with_st c SSelected)
              else mkRes [(KUnselect, SSelected); (KSelect, SAuth)] RNo false (with_st c SAuth)
        | _ =>
            let '(ok, _) := next_ok outs in
            if ok then mkRes [(KSelect, st c)] ROk false (with_st c SSelected)
            else mkRes [(KSelect, st c)] RNo false c
        end
  | CCreate => simple SAuth KCreate true c outs
  | CDelete => simple SAuth KDelete true c outs
  | CRename => simple SAuth KRename true c outs
  | CSubscribe => simple SAuth KSubscribe true c outs
  | CUnsubscribe => simple SAuth KUnsubscribe true c outs
  | CList | CLsub => simple SAuth KList true c outs
  | CStatus => simple SAuth KStatus true c outs
  | CAppend => simple SAuth KAppend true c outs
  | CNamespace => simple SAuth KNamespace true c outs
  | CIdle => simple SAuth KIdle true c outs
  | CClose =>
      if negb (check_state SSelected c) then mkRes [] RBad false c
      else
        let '(ok1, outs1) := next_ok outs in
        if negb ok1 then mkRes [(KExpunge, SSelected)] RNo false c
        else
          let '(ok2, _) := next_ok outs1 in
          if ok2 then mkRes [(KExpunge, SSelected); (KUnselect, SSelected); (KPoll true, SAuth)] ROk false (with_st c SAuth)
          else mkRes [(KExpunge, SSelected); (KUnselect, SSelected)] RNo false c
  | CUnselect =>
      if negb (check_state SSelected c) then mkRes [] RBad false c
      else
        let '(ok, _) := next_ok outs in
        if ok then mkRes [(KUnselect, SSelected); (KPoll true, SAuth)] ROk false (with_st c SAuth)
        else mkRes [(KUnselect, SSelected)] RNo false c
  | CExpunge | CUidExpunge => simple SSelected KExpunge true c outs
  | CFetch uid => simple SSelected KFetch uid c outs
  | CStore uid => simple SSelected KStore uid c outs
  | CSearch uid => simple SSelected KSearch uid c outs
  | CCopy _ => simple SSelected KCopy true c outs
  | CMove _ => simple SSelected KMove true c outs
  | CUnknown =>
      match st c with
      | SNotAuth => mkRes [] RBad true (with_st c SLogout)
      | _ => mkRes [] RBad false c
      end
  end.

Definition init_conn (cfg : scfg) (tls0 : bool) : conn :=
  mkConn (if c_preauth cfg then SAuth else SNotAuth) tls0.

(* the serve loop: stops processing once the state is logout *)
Fixpoint serve (cfg : scfg) (c : conn) (cmds : list (cmd * list bool)) : list result :=
  match cmds with
  | [] => []
  | (m, outs) :: rest =>
      match st c with
      | SLogout => []
      | _ => let r := handle cfg c m outs in r :: serve cfg (r_conn r) rest
      end
  end.

(* capability bits visible in greeting / CAPABILITY / LOGIN responses *)
Definition adv_starttls (cfg : scfg) (c : conn) : bool := can_starttls cfg c.
Definition adv_auth (cfg : scfg) (c : conn) : bool := can_auth cfg c.
Definition adv_logindisabled (cfg : scfg) (c : conn) : bool :=
  negb (can_auth cfg c) && match st c with SNotAuth => true | _ => false end.
