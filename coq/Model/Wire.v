(* Model/Wire.v — executable model of internal/imapwire (Encoder, Decoder) and of
   internal.ExpectFlag / canonicalFlag, on byte strings. One function per Go method.        *)
From GoImap.Base Require Import Bytes.
From GoImap.Model Require Import NumSet MatchList Utf7.
Open Scope N_scope.

(* ---------------------------------------------------------------------------------------- *)
(* character classes                                                                          *)

Definition SP_ : byte := ch " ".
Definition CR_ : byte := n2b 13.
Definition LF_ : byte := n2b 10.
Definition DQ_ : byte := n2b 34.
Definition BSL_ : byte := n2b 92.

(* unicode.IsControl(rune(ch)) for a byte: 0x00-0x1F, 0x7F-0x9F *)
Definition is_control (c : byte) : bool :=
  let n := b2n c in (n <? 32) || ((127 <=? n) && (n <=? 159)).

(* imapwire.IsAtomChar *)
Definition is_atom_char (c : byte) : bool :=
  let n := b2n c in
  if (n =? 40) || (n =? 41) || (n =? 123) || (n =? 32) || (n =? 37) || (n =? 42) || (n =? 34)
     || (n =? 92) || (n =? 93)
  then false else negb (is_control c).

Definition is_numset_char (c : byte) : bool := (b2n c =? 42) || is_atom_char c.

(* ---------------------------------------------------------------------------------------- *)
(* Encoder                                                                                    *)

Record enc_cfg := mkCfg {
  quoted_utf8 : bool;
  literal_minus : bool;
  literal_plus : bool;
  client_side : bool;          (* ConnSideClient *)
  cont_granted : option bool   (* None: no NewContinuationRequest; Some true: "+" arrives;
                                  Some false: the request is cancelled *)
}.

(* output: bytes interleaved with points where the client waits for a continuation request *)
Inductive seg := SBytes (b : bytes) | SWait.
Definition flatten (l : list seg) : bytes :=
  flat_map (fun s => match s with SBytes b => b | SWait => [] end) l.

Definition eres := option (list seg).      (* None = encoder error *)

(* Encoder.Quoted *)
Fixpoint escape_quoted (s : bytes) : bytes :=
  match s with
  | [] => []
  | c :: r => if beqb c DQ_ || beqb c BSL_ then BSL_ :: c :: escape_quoted r else c :: escape_quoted r
  end.
Definition enc_quoted (s : bytes) : bytes := DQ_ :: escape_quoted s ++ [DQ_].

(* Encoder.validQuoted *)
Definition valid_quoted (cfg : enc_cfg) (s : bytes) : bool :=
  (N.of_nat (length s) <=? 4096) &&
  forallb (fun c => let n := b2n c in
             negb ((n =? 0) || (n =? 13) || (n =? 10)) && (quoted_utf8 cfg || (n <=? 127))) s.

(* Encoder.stringLiteral / Encoder.Literal for a fully supplied payload *)
Definition enc_literal (cfg : enc_cfg) (s : bytes) : eres :=
  let n := N.of_nat (length s) in
  let need_sync := client_side cfg && (negb (literal_minus cfg) || (4096 <? n)) && negb (literal_plus cfg) in
  if need_sync then
    match cont_granted cfg with
    | None => None                                     (* cannot send synchronizing literal *)
    | Some false => None                               (* header written, request cancelled *)
    | Some true =>
        Some [SBytes (s2b "{" ++ dec_of_N n ++ s2b "}" ++ [CR_; LF_]); SWait; SBytes s]
    end
  else
    Some [SBytes (s2b "{" ++ dec_of_N n ++ (if client_side cfg then s2b "+" else []) ++ s2b "}" ++ [CR_; LF_] ++ s)].

(* Encoder.String *)
Definition enc_string (cfg : enc_cfg) (s : bytes) : eres :=
  if valid_quoted cfg s then Some [SBytes (enc_quoted s)] else enc_literal cfg s.

Definition INBOX : bytes := s2b "INBOX".

(* Encoder.Mailbox *)
Definition enc_mailbox (cfg : enc_cfg) (name : bytes) : eres :=
  if equal_fold_ascii name INBOX then Some [SBytes INBOX]
  else enc_string cfg (utf7_encode name).

(* Encoder.NumSet (on the raw range list; $ marker handled by the caller) *)
Definition enc_numset (s : nset) : eres :=
  match to_string s with [] => None | t => Some [SBytes t] end.

(* isValidFlag *)
Fixpoint valid_flag_chars (first : bool) (s : bytes) : bool :=
  match s with
  | [] => true
  | c :: r => (if beqb c BSL_ then first else is_atom_char c) && valid_flag_chars false r
  end.
Definition is_valid_flag (s : bytes) : bool :=
  valid_flag_chars true s && negb (is_nil s) && negb (bytes_eqb s [BSL_]).

(* Encoder.Flag / Encoder.MailboxAttr *)
Definition enc_flag (f : bytes) : eres :=
  if bytes_eqb f (s2b "\*") || is_valid_flag f then Some [SBytes f] else None.
Definition enc_mailbox_attr (a : bytes) : eres :=
  if has_prefix [BSL_] a && is_valid_flag a then Some [SBytes a] else None.

(* Encoder.Number (uint32), Number64 (int64, negative refused), ModSeq (uint64) *)
Definition enc_number (n : N) : bytes := dec_of_N n.
Definition enc_number64 (z : Z) : eres :=
  if (z <? 0)%Z then None else Some [SBytes (dec_of_N (Z.to_N z))].

(* generic values for the nesting theorem: atoms are written verbatim, strings by
   Encoder.String, lists by Encoder.List / BeginList *)
Inductive wval := WAtom (a : bytes) | WStr (s : bytes) | WNum (n : N) | WList (l : list wval).

Fixpoint enc_val (cfg : enc_cfg) (v : wval) : eres :=
  match v with
  | WAtom a => Some [SBytes a]
  | WStr s => enc_string cfg s
  | WNum n => Some [SBytes (enc_number n)]
  | WList l =>
      let items :=
        (fix items (first : bool) (l : list wval) : eres :=
           match l with
           | [] => Some [SBytes (s2b ")")]
           | x :: r =>
               match enc_val cfg x, items false r with
               | Some a, Some b => Some ((if first then [] else [SBytes [SP_]]) ++ a ++ b)
               | _, _ => None
               end
           end) true l in
      match items with
      | Some segs => Some (SBytes (s2b "(") :: segs)
      | None => None
      end
  end.

(* ---------------------------------------------------------------------------------------- *)
(* Decoder                                                                                    *)

(* DOk v rest: matched; DNo rest: not matched, no decoder error (rest may have advanced);
   DErr: decoder error set (syntax error, EOF) *)
Inductive dres (A : Type) := DOk (v : A) (rest : bytes) | DNo (rest : bytes) | DErr.
Arguments DOk {A}. Arguments DNo {A}. Arguments DErr {A}.

(* Decoder.Special / acceptByte *)
Definition dec_special (c : byte) (s : bytes) : dres unit :=
  match s with
  | [] => DErr
  | x :: r => if beqb x c then DOk tt r else DNo s
  end.

(* Decoder.SP *)
Definition dec_sp (s : bytes) : dres unit :=
  match s with
  | [] => DErr
  | x :: r =>
      if beqb x SP_ then
        match r with
        | [] => DErr
        | y :: _ => if beqb y CR_ || beqb y LF_ then DNo r else DOk tt r
        end
      else if b2n x =? 40 then DOk tt s else DNo s
  end.

(* Decoder.CRLF: optional SP, optional CR, then LF *)
Definition dec_crlf (s : bytes) : dres unit :=
  let s1 := match s with x :: r => if beqb x SP_ then r else s | [] => s end in
  let s2 := match s1 with x :: r => if beqb x CR_ then r else s1 | [] => s1 end in
  match s2 with
  | [] => DErr
  | x :: r => if beqb x LF_ then DOk tt r else DNo s2
  end.

(* the read loop of Decoder.Func / numberStr / Text: None = EOF reached (decoder error) *)
Fixpoint take_while (valid : byte -> bool) (s : bytes) : option (bytes * bytes) :=
  match s with
  | [] => None
  | c :: r =>
      if valid c then
        match take_while valid r with
        | None => None
        | Some (a, rest) => Some (c :: a, rest)
        end
      else Some ([], s)
  end.

Definition dec_func (valid : byte -> bool) (s : bytes) : dres bytes :=
  match take_while valid s with
  | None => DErr
  | Some ([], _) => DNo s
  | Some (a, rest) => DOk a rest
  end.

Definition dec_atom := dec_func is_atom_char.

(* Decoder.Number: digits, then strconv.ParseUint(s, 10, 32) *)
Definition dec_uint (bound : N) (s : bytes) : dres N :=
  match dec_func is_digit s with
  | DErr => DErr
  | DNo r => DNo r
  | DOk d rest => match parse_uint bound d with Some v => DOk v rest | None => DNo rest end
  end.
Definition dec_number := dec_uint 4294967296.
Definition dec_number64 := dec_uint 9223372036854775808.      (* ParseInt(s, 10, 64) on digits *)
Definition dec_modseq := dec_uint 18446744073709551616.

(* Decoder.Quoted *)
Fixpoint quoted_body (s : bytes) : option (bytes * bytes) :=
  match s with
  | [] => None
  | c :: r =>
      if beqb c DQ_ then Some ([], r)
      else if beqb c BSL_ then
        match r with
        | [] => None
        | e :: r' => match quoted_body r' with Some (a, rest) => Some (e :: a, rest) | None => None end
        end
      else match quoted_body r with Some (a, rest) => Some (c :: a, rest) | None => None end
  end.
Definition dec_quoted (s : bytes) : dres bytes :=
  match dec_special DQ_ s with
  | DErr => DErr
  | DNo r => DNo r
  | DOk _ r => match quoted_body r with Some (a, rest) => DOk a rest | None => DErr end
  end.

(* first n / all but the first n elements, for a binary count (no unary number of the size of
   an announced literal is ever built) *)
Fixpoint take_n (l : bytes) (n : N) : bytes :=
  match l with
  | [] => []
  | x :: r => if n =? 0 then [] else x :: take_n r (n - 1)
  end.
Fixpoint drop_n (l : bytes) (n : N) : bytes :=
  match l with
  | [] => []
  | x :: r => if n =? 0 then l else drop_n r (n - 1)
  end.

(* Decoder.LiteralReader + Literal (no CheckBufferedLiteralFunc): server side accepts "+".
   A stream that ends inside the payload yields the shorter string (io.Copy sees EOF). *)
Definition dec_literal (server_side : bool) (s : bytes) : dres bytes :=
  match dec_special (ch "{") s with
  | DErr => DErr
  | DNo r => DNo r
  | DOk _ r =>
      match dec_number64 r with
      | DOk n r1 =>
          let r2 := if server_side then match r1 with x :: t => if b2n x =? 43 then t else r1 | [] => r1 end else r1 in
          match dec_special (ch "}") r2 with
          | DOk _ r3 =>
              match dec_crlf r3 with
              | DOk _ r4 => DOk (take_n r4 n) (drop_n r4 n)
              | _ => DErr
              end
          | _ => DErr
          end
      | _ => DErr
      end
  end.

(* Decoder.String = Quoted || Literal *)
Definition dec_string (server_side : bool) (s : bytes) : dres bytes :=
  match dec_quoted s with
  | DOk v r => DOk v r
  | DErr => DErr
  | DNo _ => dec_literal server_side s
  end.

(* Decoder.ExpectAString *)
Definition dec_astring (server_side : bool) (s : bytes) : dres bytes :=
  match dec_string server_side s with
  | DOk v r => DOk v r
  | DErr => DErr
  | DNo _ => match dec_atom s with DOk a r => DOk a r | _ => DErr end
  end.

(* Decoder.ExpectNString: Some "" for NIL *)
Definition dec_nstring (server_side : bool) (s : bytes) : dres bytes :=
  match dec_atom s with
  | DOk a r => if bytes_eqb a (s2b "NIL") then DOk [] r else DErr
  | DErr => DErr
  | DNo _ => match dec_string server_side s with DOk v r => DOk v r | _ => DErr end
  end.

(* Decoder.ExpectMailbox *)
Definition dec_mailbox (server_side : bool) (s : bytes) : dres bytes :=
  match dec_astring server_side s with
  | DOk name r =>
      if equal_fold_ascii name INBOX then DOk INBOX r
      else match utf7_decode name with Some n => DOk n r | None => DErr end
  | _ => DErr
  end.

(* Decoder.ExpectNumSet: Some None = the "$" marker *)
Definition dec_numset (s : bytes) : dres (option nset) :=
  match dec_special (ch "$") s with
  | DErr => DErr
  | DOk _ r => DOk None r
  | DNo _ =>
      match dec_func is_numset_char s with
      | DOk t r =>
          match parse_set t with
          | Some (Some set) => DOk (Some set) r
          | _ => DErr
          end
      | _ => DErr
      end
  end.

(* internal.canonicalFlag: ASCII case-insensitive match against the well-known flags *)
Definition known_flags : list bytes :=
  map s2b ["\Seen"; "\Answered"; "\Flagged"; "\Deleted"; "\Draft"; "$Forwarded"; "$MDNSent";
           "$Junk"; "$NotJunk"; "$Phishing"; "$Important"]%string.
Definition known_attrs : list bytes :=
  map s2b ["\NonExistent"; "\Noinferiors"; "\Noselect"; "\HasChildren"; "\HasNoChildren";
           "\Marked"; "\Unmarked"; "\Subscribed"; "\Remote"; "\All"; "\Archive"; "\Drafts";
           "\Flagged"; "\Junk"; "\Sent"; "\Trash"; "\Important"]%string.
(* strings.ToLower as used for the lookup key: ASCII letters are lowered; the only valid
   non-ASCII sequence that can occur inside an atom and lowers to ASCII is U+0130 (C4 B0 -> "i");
   any other byte >= 0x80 keeps the key non-ASCII, so it cannot match a well-known name *)
Fixpoint fold_key (s : bytes) : bytes :=
  match s with
  | [] => []
  | a :: r =>
      match r with
      | b :: r' => if (b2n a =? 196) && (b2n b =? 176) then ch "i" :: fold_key r'
                   else to_lower_b a :: fold_key r
      | [] => [to_lower_b a]
      end
  end.
Fixpoint canon_in (known : list bytes) (s : bytes) : bytes :=
  match known with
  | [] => s
  | k :: r => if bytes_eqb (fold_key s) (ascii_lower k) then k else canon_in r s
  end.
Definition canonical_flag := canon_in known_flags.
Definition canonical_attr := canon_in known_attrs.

(* internal.ExpectFlag *)
Definition dec_flag (s : bytes) : dres bytes :=
  match dec_special BSL_ s with
  | DErr => DErr
  | DOk _ r =>
      match dec_special (ch "*") r with
      | DOk _ r' => DOk (s2b "\*") r'
      | DErr => DErr
      | DNo _ => match dec_atom r with DOk a r' => DOk (canonical_flag (BSL_ :: a)) r' | _ => DErr end
      end
  | DNo _ => match dec_atom s with DOk a r' => DOk (canonical_flag a) r' | _ => DErr end
  end.
Definition dec_mailbox_attr (s : bytes) : dres bytes :=
  match dec_flag s with DOk f r => DOk (canonical_attr f) r | DNo r => DNo r | DErr => DErr end.

(* Decoder.DiscardValue with Decoder.List's depth counter; fuel bounds the recursion
   (every level consumes at least "("); outcome DNo is not used: value expected *)
Definition MAX_DEPTH : nat := 1000.

Fixpoint discard_value (fuel : nat) (server_side : bool) (depth : nat) (s : bytes) : dres unit :=
  match fuel with
  | O => DErr
  | S f =>
      match dec_string server_side s with
      | DOk _ r => DOk tt r
      | DErr => DErr
      | DNo _ =>
          match dec_special (ch "(") s with
          | DErr => DErr
          | DOk _ r =>
              match dec_special (ch ")") r with
              | DOk _ r' => DOk tt r'
              | DErr => DErr
              | DNo _ =>
                  if Nat.leb MAX_DEPTH (S depth) then DErr       (* exceeded max depth *)
                  else
                    (fix items (k : nat) (r : bytes) : dres unit :=
                       match k with
                       | O => DErr
                       | S k' =>
                           match discard_value f server_side (S depth) r with
                           | DOk _ r1 =>
                               match dec_special (ch ")") r1 with
                               | DOk _ r2 => DOk tt r2
                               | DErr => DErr
                               | DNo _ =>
                                   match dec_sp r1 with
                                   | DOk _ r2 => items k' r2
                                   | _ => DErr
                                   end
                               end
                           | _ => DErr
                           end
                       end) (S (length r)) r
              end
          | DNo _ =>
              match dec_atom s with
              | DOk _ r => DOk tt r
              | _ => DErr
              end
          end
      end
  end.
