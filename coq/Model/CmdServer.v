(* Model/CmdServer.v — how imapserver reads one command line and which backend call(s) it makes
   with which arguments: Conn.readCommand's dispatch (conn.go) and one parser per handler
   (login.go, select.go, create.go, list.go, status.go, append.go, expunge.go, search.go, fetch.go,
   store.go, copy.go, move.go), built from the Decoder primitives of Model/Wire.v.
   A parser is a function from the remaining input to [Some (value, rest)], or [None] when the
   handler returns an error (nothing is delivered to the session).  Connection-state checks
   (checkState) are not modelled here (C05); literals go through Conn.checkBufferedLiteral
   (4096 bytes) except APPEND's payload.                                                       *)
From GoImap.Base Require Import Bytes.
From GoImap.Model Require Import NumSet NumSetCorr MatchList Utf7 Wire Search ClientWrite CmdDate CmdTypes.
Open Scope N_scope.

Definition P (A : Type) := bytes -> option (A * bytes).
Definition ret {A} (a : A) : P A := fun s => Some (a, s).
Definition reject {A} : P A := fun _ => None.
Definition bind {A B} (p : P A) (f : A -> P B) : P B :=
  fun s => match p s with Some (a, r) => f a r | None => None end.
Notation "'do' x <- p ; q" := (bind p (fun x => q)) (at level 200, x pattern, p at level 100, q at level 200, right associativity).
Notation "p ;; q" := (bind p (fun _ => q)) (at level 199, right associativity).

(* an Expect* call: anything but a match is an error *)
Definition expect {A} (d : bytes -> dres A) : P A :=
  fun s => match d s with DOk v r => Some (v, r) | _ => None end.
(* an optional element (dec.SP(), dec.Special(c), dec.Atom(..)): "not there" is not an error,
   a decoder error (end of input) is *)
Definition maybe {A} (d : bytes -> dres A) : P (option A) :=
  fun s => match d s with DOk v r => Some (Some v, r) | DNo r => Some (None, r) | DErr => None end.
Definition present {A} (d : bytes -> dres A) : P bool :=
  do o <- maybe d; ret (match o with Some _ => true | None => false end).

Definition x_sp : P unit := expect dec_sp.
Definition m_sp : P bool := present dec_sp.
Definition x_special (c : string) : P unit := expect (dec_special (ch c)).
Definition m_special (c : string) : P bool := present (dec_special (ch c)).
Definition x_atom : P bytes := expect dec_atom.
Definition x_crlf : P unit := expect dec_crlf.
Definition x_number : P N := expect dec_number.
Definition x_number64 : P Z := do n <- expect dec_number64; ret (Z.of_N n).
Definition guard (b : bool) : P unit := if b then ret tt else reject.

(* ---- strings: Decoder.Literal with Conn.checkBufferedLiteral ------------------------------- *)
Definition LIT_MAX : N := 4096.

(* Decoder.LiteralReader on the server side: (size, nonSync), rest after the header's CRLF *)
Definition lit_header (s : bytes) : dres (N * bool) :=
  match dec_special (ch "{") s with
  | DErr => DErr
  | DNo r => DNo r
  | DOk _ r =>
      match dec_number64 r with
      | DOk n r1 =>
          let '(nonsync, r2) :=
            match r1 with x :: t => if b2n x =? 43 then (true, t) else (false, r1) | [] => (false, r1) end in
          match dec_special (ch "}") r2 with
          | DOk _ r3 => match dec_crlf r3 with DOk _ r4 => DOk (n, nonsync) r4 | _ => DErr end
          | _ => DErr
          end
      | _ => DErr
      end
  end.

(* Decoder.Literal: refused above 4096 bytes; the payload must be complete *)
Definition s_literal (s : bytes) : dres bytes :=
  match lit_header s with
  | DErr => DErr
  | DNo r => DNo r
  | DOk (n, _) r =>
      if LIT_MAX <? n then DErr
      else if N.of_nat (length r) <? n then DErr
      else DOk (firstn (N.to_nat n) r) (skipn (N.to_nat n) r)
  end.

Definition s_string (s : bytes) : dres bytes :=
  match dec_quoted s with
  | DOk v r => DOk v r
  | DErr => DErr
  | DNo _ => s_literal s
  end.

(* Decoder.ExpectAString *)
Definition s_astring (s : bytes) : dres bytes :=
  match s_string s with
  | DOk v r => DOk v r
  | DErr => DErr
  | DNo _ => match dec_atom s with DOk a r => DOk a r | _ => DErr end
  end.
Definition x_astring : P bytes := expect s_astring.

(* Decoder.ExpectMailbox *)
Definition x_mailbox : P bytes :=
  do name <- x_astring;
  if equal_fold_ascii name INBOX then ret INBOX
  else match utf7_decode name with Some n => ret n | None => reject end.

(* Decoder.ExpectNumSet / ExpectUIDSet *)
Definition x_numset : P numarg :=
  do o <- expect dec_numset;
  ret (match o with None => NRes | Some s => NSet s end).

Definition x_flag : P bytes := expect dec_flag.
Definition x_attr : P bytes := expect dec_mailbox_attr.

(* ---- Decoder.List: the callback updates a state --------------------------------------------- *)
Fixpoint items_fold {T} (fuel : nat) (item : T -> P T) (st : T) (s : bytes) : option (T * bytes) :=
  match fuel with
  | O => None
  | S f =>
      match item st s with
      | None => None
      | Some (st', r) =>
          match dec_special (ch ")") r with
          | DOk _ r' => Some (st', r')
          | DErr => None
          | DNo _ => match dec_sp r with DOk _ r2 => items_fold f item st' r2 | _ => None end
          end
      end
  end.

(* dec.List(f): (isList, state) *)
Definition m_list {T} (item : T -> P T) (st : T) : P (bool * T) :=
  fun s =>
    match dec_special (ch "(") s with
    | DErr => None
    | DNo _ => Some ((false, st), s)
    | DOk _ r =>
        match dec_special (ch ")") r with
        | DOk _ r' => Some ((true, st), r')
        | DErr => None
        | DNo _ =>
            match items_fold (S (length r)) item st r with
            | Some (st', r') => Some ((true, st'), r')
            | None => None
            end
        end
    end.
(* dec.ExpectList(f) *)
Definition x_list {T} (item : T -> P T) (st : T) : P T :=
  do r <- m_list item st; if fst r then ret (snd r) else reject.

Definition upper := ascii_upper.       (* strings.ToUpper on a 7-bit name *)
Definition is (a : bytes) (k : string) : bool := bytes_eqb a (s2b k).

(* ---- simple handlers ------------------------------------------------------------------------ *)
Definition h_login : P (list bcall) :=
  x_sp;; do u <- x_astring; x_sp;; do p <- x_astring; x_crlf;; ret [BLogin u p].

Definition h_select (readonly : bool) : P (list bcall) :=
  x_sp;; do m <- x_mailbox; x_crlf;; ret [BSelect m readonly].

Definition h_create : P (list bcall) :=
  x_sp;; do m <- x_mailbox;
  do more <- m_sp;
  do use <- (if more then
               x_special "(";; do name <- x_atom; x_sp;;
               if is (upper name) "USE" then
                 do l <- x_list (fun acc => do a <- x_attr; ret (acc ++ [a])) []; x_special ")";; ret l
               else reject
             else ret []);
  x_crlf;; ret [BCreate m use].

Definition h_mailbox1 (k : bytes -> bcall) : P (list bcall) :=
  x_sp;; do m <- x_mailbox; x_crlf;; ret [k m].

Definition h_rename : P (list bcall) :=
  x_sp;; do a <- x_mailbox; x_sp;; do b <- x_mailbox; x_crlf;; ret [BRename a b].

(* ---- STATUS / LIST (status.go, list.go) ----------------------------------------------------- *)
(* readStatusItem *)
Definition status_item (o : status_opts) : P status_opts :=
  do name <- x_atom;
  let n := upper name in
  let '(mkSt a b c d e f g h i) := o in
  if is n "MESSAGES" then ret (mkSt true b c d e f g h i)
  else if is n "UIDNEXT" then ret (mkSt a true c d e f g h i)
  else if is n "UIDVALIDITY" then ret (mkSt a b true d e f g h i)
  else if is n "UNSEEN" then ret (mkSt a b c true e f g h i)
  else if is n "DELETED" then ret (mkSt a b c d true f g h i)
  else if is n "SIZE" then ret (mkSt a b c d e true g h i)
  else if is n "APPENDLIMIT" then ret (mkSt a b c d e f true h i)
  else if is n "DELETED-STORAGE" then ret (mkSt a b c d e f g true i)
  else if is n "RECENT" then ret o
  else reject.

Definition h_status : P (list bcall) :=
  x_sp;; do m <- x_mailbox; x_sp;; do o <- x_list status_item status_empty; x_crlf;; ret [BStatus m o].

(* readListMailbox *)
Definition is_list_char (c : byte) : bool :=
  (b2n c =? 37) || (b2n c =? 42) || (b2n c =? 93) || is_atom_char c.
Definition list_mailbox : P bytes :=
  fun s =>
    match s_string s with
    | DErr => None
    | DOk v r => match utf7_decode v with Some p => Some (p, r) | None => None end
    | DNo _ =>
        match dec_func is_list_char s with
        | DOk v r => match utf7_decode v with Some p => Some (p, r) | None => None end
        | _ => None
        end
    end.

Definition set_sel (o : list_opts) (k : N) : list_opts :=
  let '(mkLO a b c d e f g h) := o in
  if k =? 0 then mkLO true b c d e f g h else if k =? 1 then mkLO a true c d e f g h else mkLO a b true d e f g h.

Definition list_select_item (o : list_opts) : P list_opts :=
  do name <- x_astring;
  let n := upper name in
  if is n "SUBSCRIBED" then ret (set_sel o 0)
  else if is n "REMOTE" then ret (set_sel o 1)
  else if is n "RECURSIVEMATCH" then ret (set_sel o 2)
  else reject.

(* readReturnOption *)
Definition list_return_item (o : list_opts) : P list_opts :=
  do name <- x_atom;
  let n := upper name in
  let '(mkLO a b c d e f g h) := o in
  if is n "SUBSCRIBED" then ret (mkLO a b c d true f g h)
  else if is n "CHILDREN" then ret (mkLO a b c d e true g h)
  else if is n "STATUS" then
    x_sp;; do st <- x_list status_item status_empty; ret (mkLO a b c d e f (Some st) h)
  else reject.

Definition add_pattern (acc : list bytes) (p : bytes) : list bytes :=
  match p with [] => acc | _ => acc ++ [p] end.

(* readListCmd + handleList *)
Definition h_list : P (list bcall) :=
  x_sp;;
  do sel <- m_list list_select_item list_empty;
  (if fst sel then x_sp else ret tt);;
  do ref <- x_mailbox; x_sp;;
  do pl <- m_list (fun acc => do p <- list_mailbox; ret (add_pattern acc p)) [];
  do pats <- (if fst pl then (match snd pl with [] => reject | l => ret l end)
              else do p <- list_mailbox; ret (add_pattern [] p));
  do more <- m_sp;
  do o <- (if more then
             do a <- x_atom; guard (equal_fold_ascii a (s2b "RETURN"));; x_sp;;
             x_list list_return_item (snd sel)
           else ret (snd sel));
  x_crlf;;
  guard (negb (lo_sel_recursive o && negb (lo_sel_subscribed o)));;
  ret [BList ref pats o].

(* ---- APPEND (append.go) --------------------------------------------------------------------- *)
Definition APPEND_LIMIT : N := 104857600.

Definition take_payload (n : N) : P bytes :=
  fun s => if N.of_nat (length s) <? n then None
           else Some (firstn (N.to_nat n) s, skipn (N.to_nat n) s).

Definition h_append (literal_plus : bool) : P (list bcall) :=
  x_sp;; do m <- x_mailbox; x_sp;;
  do fl <- m_list (fun acc => do f <- x_flag; ret (acc ++ [f])) [];
  (if fst fl then x_sp else ret tt);;
  (* internal.DecodeDateTime: only a quoted string is a date-time *)
  do q <- maybe dec_quoted;
  do t <- (match q with
           | None => ret tzero
           | Some txt => match parse_datetime txt with Some t => ret t | None => reject end
           end);
  (if t_is_zero t then ret tt else x_sp);;
  do ext <- maybe dec_atom;
  do utf8 <- (match ext with
              | Some e => if is (upper e) "UTF8" then x_sp;; x_special "(";; x_special "~";; ret true else reject
              | None => do _ <- m_special "~"; ret false
              end);
  do hd <- expect lit_header;
  guard (fst hd <=? APPEND_LIMIT);;
  guard (negb (snd hd && (4096 <? fst hd) && negb literal_plus));;
  do payload <- take_payload (fst hd);
  (if utf8 then x_special ")" else ret tt);;
  x_crlf;;
  ret [BAppend m (snd fl) t payload].

(* ---- EXPUNGE / COPY / MOVE / STORE ---------------------------------------------------------- *)
Definition h_expunge : P (list bcall) := x_crlf;; ret [BExpunge None].
Definition h_uid_expunge : P (list bcall) :=
  x_sp;; do s <- x_numset; x_crlf;; ret [BExpunge (Some s)].

(* the imap.NumSet handed to the session is a UIDSet for UID commands and for "$" *)
Definition set_kind (uid : bool) (s : numarg) : bool :=
  match s with NRes => true | NSet _ => uid end.

(* readCopy *)
Definition h_copy (move uid : bool) : P (list bcall) :=
  x_sp;; do s <- x_numset; x_sp;; do d <- x_mailbox; x_crlf;;
  ret [if move then BMove (set_kind uid s) s d else BCopy (set_kind uid s) s d].

Fixpoint flags_loop (fuel : nat) (acc : list bytes) (s : bytes) : option (list bytes * bytes) :=
  match fuel with
  | O => None
  | S f =>
      match dec_flag s with
      | DOk fl r =>
          match dec_sp r with
          | DOk _ r2 => flags_loop f (acc ++ [fl]) r2
          | DNo r2 => Some (acc ++ [fl], r2)
          | DErr => None
          end
      | _ => None
      end
  end.

Definition trim_suffix (p s : bytes) : bytes :=
  if has_suffix p s then firstn (length s - length p) s else s.

(* handleStore *)
Definition h_store (uid : bool) : P (list bcall) :=
  x_sp;; do s <- x_numset; x_sp;; do item <- x_atom; x_sp;;
  do fl <- m_list (fun acc => do f <- x_flag; ret (acc ++ [f])) [];
  do flags <- (if fst fl then ret (snd fl) else fun s => flags_loop (S (length s)) [] s);
  x_crlf;;
  let it := upper item in
  let silent := has_suffix (s2b ".SILENT") it in
  let it1 := trim_suffix (s2b ".SILENT") it in
  let '(op, it2) :=
    if has_prefix (s2b "+") it1 then (1, trim_prefix (s2b "+") it1)
    else if has_prefix (s2b "-") it1 then (2, trim_prefix (s2b "-") it1)
    else (0, it1) in
  guard (is it2 "FLAGS");;
  ret [BStore (set_kind uid s) s op silent flags].

(* ---- FETCH (fetch.go) ----------------------------------------------------------------------- *)
Definition is_att_name_char (c : byte) : bool := negb (b2n c =? 91) && is_atom_char c.
(* readFetchAttName *)
Definition att_name : P bytes := do n <- expect (dec_func is_att_name_char); ret (upper n).

(* handleFetchBodyStructure *)
Definition set_bs (o : fetch_opts) (extended : bool) : fetch_opts :=
  let '(mkFetch bs en fl idt sz uid secs bins bsz ms cs) := o in
  mkFetch (match bs with None => Some extended | Some _ => if extended then Some true else bs end)
          en fl idt sz uid secs bins bsz ms cs.
Definition add_section (o : fetch_opts) (x : fsec) : fetch_opts :=
  let '(mkFetch bs en fl idt sz uid secs bins bsz ms cs) := o in
  mkFetch bs en fl idt sz uid (secs ++ [x]) bins bsz ms cs.
Definition add_binary (o : fetch_opts) (x : fbin) : fetch_opts :=
  let '(mkFetch bs en fl idt sz uid secs bins bsz ms cs) := o in
  mkFetch bs en fl idt sz uid secs (bins ++ [x]) bsz ms cs.
Definition add_binsize (o : fetch_opts) (x : list Z) : fetch_opts :=
  let '(mkFetch bs en fl idt sz uid secs bins bsz ms cs) := o in
  mkFetch bs en fl idt sz uid secs bins (bsz ++ [x]) ms cs.
(* k: 0 ENVELOPE 1 FLAGS 2 INTERNALDATE 3 RFC822.SIZE 4 UID *)
Definition set_flag (o : fetch_opts) (k : N) : fetch_opts :=
  let '(mkFetch bs en fl idt sz uid secs bins bsz ms cs) := o in
  if k =? 0 then mkFetch bs true fl idt sz uid secs bins bsz ms cs
  else if k =? 1 then mkFetch bs en true idt sz uid secs bins bsz ms cs
  else if k =? 2 then mkFetch bs en fl true sz uid secs bins bsz ms cs
  else if k =? 3 then mkFetch bs en fl idt true uid secs bins bsz ms cs
  else mkFetch bs en fl idt sz true secs bins bsz ms cs.

(* readSectionPart: (part, dot) *)
Fixpoint section_part (fuel : nat) (part : list Z) (s : bytes) : option ((list Z * bool) * bytes) :=
  match fuel with
  | O => None
  | S f =>
      let dot := negb (nilb part) in
      let after_dot :=
        if dot then
          match dec_special (ch ".") s with
          | DOk _ r => Some (Some r)
          | DNo _ => Some None
          | DErr => None
          end
        else Some (Some s) in
      match after_dot with
      | None => None
      | Some None => Some ((part, false), s)
      | Some (Some r) =>
          (* the digits, then strconv.ParseUint(s, 10, 32): out of range is an error *)
          match dec_func is_digit r with
          | DOk d r' =>
              match parse_uint 4294967296 d with
              | Some n => section_part f (part ++ [Z.of_N n]) r'
              | None => None
              end
          | DNo _ => Some ((part, dot), r)
          | DErr => None
          end
      end
  end.

(* readHeaderList *)
Definition header_list : P (list bytes) :=
  x_list (fun acc => do h <- x_astring; ret (acc ++ [h])) [].

(* readSection *)
Definition read_section (peek : bool) : P fsec :=
  do close <- m_special "]";
  if close then ret (mkSec [] [] [] [] None peek)
  else
    do pd <- (fun s => section_part (S (length s)) [] s);
    let '(part, dot) := pd in
    do sec <- (if dot || nilb part then
                 do spec <- (if dot then x_atom
                             else do a <- maybe dec_atom; ret (match a with Some x => x | None => [] end));
                 let sp := upper spec in
                 if nilb sp || is sp "HEADER" || is sp "MIME" || is sp "TEXT" then ret (mkSec sp part [] [] None peek)
                 else if is sp "HEADER.FIELDS" then
                   x_sp;; do l <- header_list; ret (mkSec (s2b "HEADER") part l [] None peek)
                 else if is sp "HEADER.FIELDS.NOT" then
                   x_sp;; do l <- header_list; ret (mkSec (s2b "HEADER") part [] l None peek)
                 else reject
               else ret (mkSec [] part [] [] None peek));
    x_special "]";; ret sec.

(* readSectionBinary *)
Fixpoint binary_nums (fuel : nat) (acc : list Z) (s : bytes) : option (list Z * bytes) :=
  match fuel with
  | O => None
  | S f =>
      match dec_number s with
      | DOk n r =>
          match dec_special (ch ".") r with
          | DOk _ r' => binary_nums f (acc ++ [Z.of_N n]) r'
          | DNo _ => Some (acc ++ [Z.of_N n], r)
          | DErr => None
          end
      | _ => None
      end
  end.
Definition section_binary : P (list Z) :=
  x_special "[";;
  do close <- m_special "]";
  if close then ret []
  else do l <- (fun s => binary_nums (S (length s)) [] s); x_special "]";; ret l.

(* maybeReadPartial *)
Definition maybe_partial : P partial :=
  do lt <- m_special "<";
  if lt then
    do o <- x_number64; x_special ".";; do n <- x_number64; x_special ">";; ret (Some (o, n))
  else ret None.

Definition set_sec_partial (x : fsec) (p : partial) : fsec :=
  mkSec (fs_spec x) (fs_part x) (fs_fields x) (fs_fields_not x) p (fs_peek x).

(* handleFetchAtt *)
Definition fetch_att (name : bytes) (o : fetch_opts) : P fetch_opts :=
  if is name "BODYSTRUCTURE" then ret (set_bs o true)
  else if is name "ENVELOPE" then ret (set_flag o 0)
  else if is name "FLAGS" then ret (set_flag o 1)
  else if is name "INTERNALDATE" then ret (set_flag o 2)
  else if is name "RFC822.SIZE" then ret (set_flag o 3)
  else if is name "UID" then ret (set_flag o 4)
  else if is name "RFC822" then ret (add_section o (mkSec [] [] [] [] None false))
  else if is name "RFC822.HEADER" then ret (add_section o (mkSec (s2b "HEADER") [] [] [] None true))
  else if is name "RFC822.TEXT" then ret (add_section o (mkSec (s2b "TEXT") [] [] [] None false))
  else if is name "BINARY" || is name "BINARY.PEEK" then
    do part <- section_binary; do p <- maybe_partial;
    ret (add_binary o (mkBin part p (is name "BINARY.PEEK")))
  else if is name "BINARY.SIZE" then
    do part <- section_binary; ret (add_binsize o part)
  else if is name "BODY" then
    do br <- m_special "[";
    if br then do sec <- read_section false; do p <- maybe_partial; ret (add_section o (set_sec_partial sec p))
    else ret (set_bs o false)
  else if is name "BODY.PEEK" then
    x_special "[";; do sec <- read_section true; do p <- maybe_partial; ret (add_section o (set_sec_partial sec p))
  else reject.

Definition is_macro (name : bytes) : bool := is name "ALL" || is name "FAST" || is name "FULL".

(* handleFetch *)
Definition h_fetch (uid : bool) : P (list bcall) :=
  x_sp;; do s <- x_numset; x_sp;;
  do l <- m_list (fun o => do name <- att_name; if is_macro name then reject else fetch_att name o) fetch_empty;
  do o <- (if fst l then ret (snd l)
           else
             do name <- att_name;
             if is name "ALL" then ret (set_flag (set_flag (set_flag (set_flag fetch_empty 1) 2) 3) 0)
             else if is name "FAST" then ret (set_flag (set_flag (set_flag fetch_empty 1) 2) 3)
             else if is name "FULL" then ret (set_bs (set_flag (set_flag (set_flag (set_flag fetch_empty 1) 2) 3) 0) false)
             else fetch_att name fetch_empty);
  x_crlf;;
  ret [BFetch (set_kind uid s) s (if uid then set_flag o 4 else o)].

(* ---- SEARCH (search.go) --------------------------------------------------------------------- *)
(* readSearchReturnOpts' callback *)
Definition search_return_item (o : search_opts) : P search_opts :=
  do name <- x_atom;
  let n := upper name in
  let '(mkSO a b c d e) := o in
  if is n "MIN" then ret (mkSO true b c d e)
  else if is n "MAX" then ret (mkSO a true c d e)
  else if is n "ALL" then ret (mkSO a b true d e)
  else if is n "COUNT" then ret (mkSO a b c true e)
  else if is n "SAVE" then ret (mkSO a b c d true)
  else reject.

(* maybeReadSearchKeyAtom *)
Definition key_atom : bytes -> dres bytes := dec_func is_numset_char.

(* searchKeyFlag: "\" + Title(lower(key)) *)
Definition title (k : bytes) : bytes :=
  match ascii_lower k with c :: r => to_upper_b c :: r | [] => [] end.
Definition search_key_flag (k : bytes) : bytes := BSL_ :: title k.

Definition flag_keys : list bytes := map s2b ["ANSWERED"; "DELETED"; "DRAFT"; "FLAGGED"; "RECENT"; "SEEN"]%string.
Definition unflag_keys : list bytes := map s2b ["UNANSWERED"; "UNDELETED"; "UNDRAFT"; "UNFLAGGED"; "UNSEEN"]%string.
Definition hdr_keys : list bytes := map s2b ["BCC"; "CC"; "FROM"; "SUBJECT"; "TO"]%string.
Definition inl (k : bytes) (l : list bytes) : bool := existsb (bytes_eqb k) l.

(* internal.ExpectDate: the parsed midnight as seconds since the zero time *)
Definition x_date : P Z :=
  do txt <- x_astring;
  match parse_date txt with Some d => ret (d * DAYSEC)%Z | None => reject end.

(* readSearchKeyWithAtom; [rk] = readSearchKey for the operands of NOT / OR *)
Definition read_key_atom (rk : P skey) (key0 : bytes) : P skey :=
  let key := upper key0 in
  if is key "ALL" then ret KAll
  else if is key "UID" then
    x_sp;; do s <- x_numset; ret (KUid (match s with NRes => [] | NSet x => x end))
  else if inl key flag_keys then ret (KFlag (search_key_flag key))
  else if inl key unflag_keys then ret (KNotFlag (search_key_flag (trim_prefix (s2b "UN") key)))
  else if is key "NEW" then ret KNew
  else if is key "OLD" then ret KOld
  else if is key "KEYWORD" then x_sp;; do f <- x_flag; ret (KFlag f)
  else if is key "UNKEYWORD" then x_sp;; do f <- x_flag; ret (KNotFlag f)
  else if inl key hdr_keys then x_sp;; do v <- x_astring; ret (KHeader (title key) v)
  else if is key "HEADER" then x_sp;; do k <- x_astring; x_sp;; do v <- x_astring; ret (KHeader k v)
  else if is key "SINCE" then x_sp;; do d <- x_date; ret (KSince d)
  else if is key "BEFORE" then x_sp;; do d <- x_date; ret (KBefore d)
  else if is key "ON" then x_sp;; do d <- x_date; ret (KOn d)
  else if is key "SENTSINCE" then x_sp;; do d <- x_date; ret (KSentSince d)
  else if is key "SENTBEFORE" then x_sp;; do d <- x_date; ret (KSentBefore d)
  else if is key "SENTON" then x_sp;; do d <- x_date; ret (KSentOn d)
  else if is key "BODY" then x_sp;; do v <- x_astring; ret (KBody v)
  else if is key "TEXT" then x_sp;; do v <- x_astring; ret (KText v)
  else if is key "LARGER" then x_sp;; do n <- x_number64; ret (KLarger n)
  else if is key "SMALLER" then x_sp;; do n <- x_number64; ret (KSmaller n)
  else if is key "NOT" then x_sp;; do k <- rk; ret (KNot k)
  else if is key "OR" then x_sp;; do a <- rk; x_sp;; do b <- rk; ret (KOr a b)
  else if is key "$" then ret (KUid [])
  else match parse_set key with
       | Some (Some s) => ret (KSeq s)
       | _ => reject
       end.

(* readSearchKey: an atom-led key, or a parenthesised list of keys (Decoder.List counts the
   nesting depth and refuses at maxListDepth). [kd] is readSearchKey's own depth argument: the
   number of NOT / OR keys the key is an operand of; at maxSearchKeyDepth (the same bound) the
   key is refused before anything is read. A list passes [kd] on unchanged. *)
Fixpoint read_key (fuel depth kd : nat) (s : bytes) : option (skey * bytes) :=
  match fuel with
  | O => None
  | S f =>
      if Nat.leb MAX_DEPTH kd then None else
      match key_atom s with
      | DOk a r => read_key_atom (read_key f depth (S kd)) a r
      | DErr => None
      | DNo _ =>
          match dec_special (ch "(") s with
          | DOk _ r =>
              match dec_special (ch ")") r with
              | DOk _ r' => Some (KList [], r')
              | DErr => None
              | DNo _ =>
                  if Nat.leb MAX_DEPTH (S depth) then None
                  else
                    match items_fold (S (length r))
                            (fun acc => do k <- read_key f (S depth) kd; ret (acc ++ [k])) [] r with
                    | Some (ks, r') => Some (KList ks, r')
                    | None => None
                    end
              end
          | _ => None
          end
      end
  end.

(* the key loop of handleSearch: keys separated by SP until something else follows *)
Fixpoint keys_loop (fuel : nat) (acc : list skey) (s : bytes) : option (list skey * bytes) :=
  match fuel with
  | O => None
  | S f =>
      match dec_sp s with
      | DOk _ r =>
          match read_key (S (length r)) 0 0 r with
          | Some (k, r') => keys_loop f (acc ++ [k]) r'
          | None => None
          end
      | DNo r => Some (acc, r)
      | DErr => None
      end
  end.

Definition opt_bytes (o : option bytes) : bytes := match o with Some a => a | None => [] end.

(* handleSearch *)
Definition h_search (uid : bool) : P (list bcall) :=
  x_sp;;
  do a0 <- maybe key_atom;
  do ro <- (if equal_fold_ascii (opt_bytes a0) (s2b "RETURN") then
              x_sp;; do o <- x_list search_return_item (mkSO false false false false false);
              x_sp;; do a <- maybe key_atom; ret (o, opt_bytes a)
            else ret (mkSO false false false false false, opt_bytes a0));
  let '(o, a1) := ro in
  do a2 <- (if equal_fold_ascii a1 (s2b "CHARSET") then
              x_sp;; do cs <- x_astring; x_sp;;
              guard (is (upper cs) "US-ASCII" || is (upper cs) "UTF-8");;
              do a <- maybe key_atom; ret (opt_bytes a)
            else ret a1);
  do k0 <- (fun s => match a2 with
                     | [] => read_key (S (length s)) 0 0 s
                     | _ => read_key_atom (read_key (S (length s)) 0 1) a2 s
                     end);
  do ks <- (fun s => keys_loop (S (length s)) [k0] s);
  x_crlf;;
  let o' := if so_min o || so_max o || so_all o || so_count o || so_save o then o
            else mkSO false false true false false in
  ret [BSearch uid (parse_keys ks) o'].

(* ---- Conn.readCommand: tag SP name [SP subname for UID] and the dispatch --------------------- *)
Definition read_command (literal_plus : bool) : P (list bcall) :=
  do tag <- x_atom; x_sp;; do name0 <- x_atom;
  let name := upper name0 in
  if is name "UID" then
    x_sp;; do sub0 <- x_atom;
    let sub := upper sub0 in
    if is sub "FETCH" then h_fetch true
    else if is sub "STORE" then h_store true
    else if is sub "SEARCH" then h_search true
    else if is sub "COPY" then h_copy false true
    else if is sub "MOVE" then h_copy true true
    else if is sub "EXPUNGE" then h_uid_expunge
    else reject
  else if is name "LOGIN" then h_login
  else if is name "SELECT" then h_select false
  else if is name "EXAMINE" then h_select true
  else if is name "CREATE" then h_create
  else if is name "DELETE" then h_mailbox1 BDelete
  else if is name "RENAME" then h_rename
  else if is name "SUBSCRIBE" then h_mailbox1 BSubscribe
  else if is name "UNSUBSCRIBE" then h_mailbox1 BUnsubscribe
  else if is name "STATUS" then h_status
  else if is name "LIST" then h_list
  else if is name "APPEND" then h_append literal_plus
  else if is name "FETCH" then h_fetch false
  else if is name "STORE" then h_store false
  else if is name "SEARCH" then h_search false
  else if is name "COPY" then h_copy false false
  else if is name "MOVE" then h_copy true false
  else if is name "EXPUNGE" then h_expunge
  else if is name "CLOSE" then x_crlf;; ret [BExpunge None; BUnselect]
  else if is name "UNSELECT" then x_crlf;; ret [BUnselect]
  else reject.

(* one command line (with its literals) from the start of the input; the rest must be empty *)
Definition serve_line (literal_plus : bool) (s : bytes) : option (list bcall) :=
  match read_command literal_plus s with
  | Some (calls, []) => Some calls
  | _ => None
  end.
