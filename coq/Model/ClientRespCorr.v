(* Model/ClientRespCorr.v — C11 correspondence: a real imapclient.Client with one pending
   command (tag T1) is fed a complete server byte stream; what the command's Wait/Collect
   returns, what the unilateral data handlers saw, every FETCH message handed out, the final
   capability set and the error class of Wait and Close must equal what the model derives
   from the event log of [read_stream].  The routing of data to the pending command follows
   the handle* functions of imapclient (findPendingCmdByType / findPendingCmdFunc).        *)
From GoImap.Base Require Import Bytes.
From GoImap.Model Require Import NumSet NumSetCorr MatchList Wire ClientResp.
Open Scope N_scope.

(* universal observation term *)
Inductive ov := ON (n : N) | OB (b : bytes) | OL (l : list ov).

Fixpoint ov_eqb (a b : ov) : bool :=
  match a, b with
  | ON x, ON y => x =? y
  | OB x, OB y => bytes_eqb x y
  | OL x, OL y =>
      (fix go (x y : list ov) : bool :=
         match x, y with
         | [], [] => true
         | p :: x', q :: y' => ov_eqb p q && go x' y'
         | _, _ => false
         end) x y
  | _, _ => false
  end.

(* multiset equality (FETCH messages reach the harness through goroutines) *)
Fixpoint remove_one (a : ov) (l : list ov) : option (list ov) :=
  match l with
  | [] => None
  | x :: r => if ov_eqb a x then Some r
              else match remove_one a r with Some r' => Some (x :: r') | None => None end
  end.
Fixpoint multiset_eqb (a b : list ov) : bool :=
  match a with
  | [] => nilb b
  | x :: a' => match remove_one x b with Some b' => multiset_eqb a' b' | None => false end
  end.

Definition obool (b : bool) : ov := ON (if b then 1 else 0).
Definition oopt {A} (f : A -> ov) (o : option A) : ov := match o with Some v => OL [f v] | None => OL [] end.
Definition onum_default (o : option N) : ov := ON (match o with Some v => v | None => 0 end).
Definition oblist (l : list bytes) : ov := OL (map OB l).
Definition onlist (l : list N) : ov := OL (map ON l).

(* ---- sorted maps / sets of byte-string keys (Go maps are compared sorted by key) ---- *)
Fixpoint bytes_ltb (a b : bytes) : bool :=
  match a, b with
  | [], [] => false
  | [], _ => true
  | _, [] => false
  | x :: a', y :: b' => if b2n x <? b2n y then true else if b2n y <? b2n x then false else bytes_ltb a' b'
  end.
(* insert with "last assignment wins" *)
Fixpoint map_put {V} (k : bytes) (v : V) (m : list (bytes * V)) : list (bytes * V) :=
  match m with
  | [] => [(k, v)]
  | (k', v') :: r =>
      if bytes_eqb k k' then (k, v) :: r
      else if bytes_ltb k k' then (k, v) :: m
      else (k', v') :: map_put k v r
  end.
Definition map_of {V} (l : list (bytes * V)) : list (bytes * V) :=
  fold_left (fun m kv => map_put (fst kv) (snd kv) m) l [].
Definition set_of (l : list bytes) : list bytes := map fst (map_of (map (fun k => (k, tt)) l)).

(* ---- encodings of delivered data ---- *)
(* deep structures are compared by (depth, number of nodes) only: a 1000-level term is slow to read *)
Definition DEEP : N := 40.
Fixpoint bstruct_depth (b : bstruct) : N :=
  match b with
  | BS1 _ _ _ _ msg => match msg with Some m => 1 + bstruct_depth m | None => 1 end
  | BSM children _ => 1 + fold_left (fun acc c => N.max acc (bstruct_depth c)) children 0
  end.
Fixpoint bstruct_size (b : bstruct) : N :=
  match b with
  | BS1 _ _ _ _ msg => match msg with Some m => 1 + bstruct_size m | None => 1 end
  | BSM children _ => 1 + fold_left (fun acc c => acc + bstruct_size c) children 0
  end.
Fixpoint bstruct_full (b : bstruct) : ov :=
  match b with
  | BS1 typ sub size lines msg =>
      OL [ON 1; OB typ; OB sub; ON size; oopt ON lines;
          match msg with Some m => OL [bstruct_full m] | None => OL [] end]
  | BSM children sub => OL [ON 2; OL (map bstruct_full children); OB sub]
  end.
Definition bstruct_ov (b : bstruct) : ov :=
  if DEEP <? bstruct_depth b then OL [ON 3; ON (bstruct_depth b); ON (bstruct_size b)] else bstruct_full b.

Fixpoint thread_depth (t : thread) : N :=
  match t with Thread _ subs => 1 + fold_left (fun acc c => N.max acc (thread_depth c)) subs 0 end.
Fixpoint thread_size (t : thread) : N :=
  match t with Thread chain subs => 1 + N.of_nat (length chain) + fold_left (fun acc c => acc + thread_size c) subs 0 end.
Fixpoint thread_full (t : thread) : ov :=
  match t with Thread chain subs => OL [onlist chain; OL (map thread_full subs)] end.
Definition thread_ov (t : thread) : ov :=
  if DEEP <? thread_depth t then OL [ON 3; ON (thread_depth t); ON (thread_size t)] else thread_full t.

Definition all_ascii (s : bytes) : bool := forallb (fun c => b2n c <? 128) s.
Definition section_ov (s : section) : ov :=
  OL [onlist (sec_part s); OB (if all_ascii (sec_spec s) then sec_spec s else [ch "?"]);
      oblist (sec_fields s); obool (sec_not s && negb (nilb (sec_fields s))); oopt ON (sec_origin s)].

Definition fitem_ov (it : fitem) : ov :=
  match it with
  | FFlags fl => OL [ON 1; oblist fl]
  | FEnvelope a => OL [ON 2; OL (map (fun l => OL (map (fun mh => OL [OB (fst mh); OB (snd mh)]) l)) a)]
  | FInternalDate => OL [ON 3]
  | FSize n => OL [ON 4; ON n]
  | FUid u => OL [ON 5; ON u]
  | FBodySection bin sec c => OL [ON 6; obool bin; section_ov sec; oopt OB c]
  | FBodyStructure ext b => OL [ON 7; obool ext; bstruct_ov b]
  | FBinarySize part n => OL [ON 8; onlist part; ON n]
  | FModSeq m => OL [ON 9; ON m]
  end.

(* accessor results: a list, or "not called: too large" (2), or panic (3) *)
Definition ACC_LIMIT : N := 2000.
Definition set_size (s : nset) : N :=
  fold_left (fun acc r => if snd r =? 0 then acc + ACC_LIMIT + 1 else acc + (snd r - fst r + 1)) s 0.
Definition acc_ov (want : bool) (s : option nset) : ov :=
  match s with
  | None => OL [ON 1; OL []]
  | Some set =>
      if negb want then OL [ON 1; OL []]
      else if dynamic set then OL [ON 3]
      else if ACC_LIMIT <? set_size set then OL [ON 2]
      else match nums set with NumsOk l => OL [ON 1; onlist l] | NumsNotStatic => OL [ON 3] end
  end.

(* ---- the pending command ---- *)
Inductive ckind :=
| KNoop | KFetch | KSearch (uid : bool) | KSort | KThread | KExpunge
| KStatus (mbox : bytes) | KList | KSelect (mbox : bytes)
| KCopy | KMove | KAppend
| KGetQuota (root : bytes) | KGetQuotaRoot (mbox : bytes) | KGetMetadata (mbox : bytes)
| KNamespace | KCapability | KEnable.

(* sameMailbox (status.go) *)
Definition same_mailbox (requested received : bytes) : bool :=
  bytes_eqb requested received || (equal_fold_ascii requested INBOX && equal_fold_ascii received INBOX).

(* what the harness reads from the command after the stream *)
Record dstate := mkD {
  d_pending : bool;                    (* T1 not completed yet *)
  d_wait : N;                          (* 0 OK 1 NO 2 BAD 3 connection error *)
  d_uni : list ov;                     (* unilateral handler calls, newest first *)
  d_fetch : list ov;                   (* FETCH messages, newest first; the head is still open *)
  d_caps : list bytes;
  d_nums : list N;                     (* SORT / EXPUNGE numbers, newest first *)
  d_all : option (bool * option nset); (* SearchData.All: None = nil interface; (uid, set) *)
  d_sd : esearch;                      (* the scalar fields of SearchData *)
  d_threads : list thread;
  d_status : option (bytes * list (N * N));
  d_lists : list ov;
  d_sel_num : N; d_sel_flags : list bytes; d_sel_perm : list bytes;
  d_sel_uidnext : N; d_sel_uidvalidity : N; d_sel_modseq : N; d_sel_list : option bytes;
  d_copy : option (N * nset * nset);
  d_append : option (N * N);
  d_quota : list (bytes * list (bytes * N * N));   (* QUOTA data kept by the command, newest first *)
  d_roots : list bytes;
  d_meta : option (bytes * list (bytes * option bytes));
  d_ns : option (list (list (bytes * N)));
  d_cmdcaps : option (list bytes)
}.

Definition es0 : esearch := mkES [] false None None None None None.
Definition d_init (k : ckind) (greeting_caps : list bytes) : dstate :=
  mkD true 3 [] [] greeting_caps []
      (match k with KSearch uid => Some (uid, Some []) | _ => None end) es0
      [] None [] 0 [] [] 0 0 0 None None None [] [] None None None.

(* record update helpers (one per field that changes) *)
Definition upd_uni (d : dstate) (e : ov) : dstate :=
  mkD (d_pending d) (d_wait d) (e :: d_uni d) (d_fetch d) (d_caps d) (d_nums d) (d_all d) (d_sd d) (d_threads d)
      (d_status d) (d_lists d) (d_sel_num d) (d_sel_flags d) (d_sel_perm d) (d_sel_uidnext d) (d_sel_uidvalidity d)
      (d_sel_modseq d) (d_sel_list d) (d_copy d) (d_append d) (d_quota d) (d_roots d) (d_meta d) (d_ns d) (d_cmdcaps d).
Definition upd_fetch (d : dstate) (f : list ov) : dstate :=
  mkD (d_pending d) (d_wait d) (d_uni d) f (d_caps d) (d_nums d) (d_all d) (d_sd d) (d_threads d)
      (d_status d) (d_lists d) (d_sel_num d) (d_sel_flags d) (d_sel_perm d) (d_sel_uidnext d) (d_sel_uidvalidity d)
      (d_sel_modseq d) (d_sel_list d) (d_copy d) (d_append d) (d_quota d) (d_roots d) (d_meta d) (d_ns d) (d_cmdcaps d).
Definition upd_caps (d : dstate) (c : list bytes) : dstate :=
  mkD (d_pending d) (d_wait d) (d_uni d) (d_fetch d) c (d_nums d) (d_all d) (d_sd d) (d_threads d)
      (d_status d) (d_lists d) (d_sel_num d) (d_sel_flags d) (d_sel_perm d) (d_sel_uidnext d) (d_sel_uidvalidity d)
      (d_sel_modseq d) (d_sel_list d) (d_copy d) (d_append d) (d_quota d) (d_roots d) (d_meta d) (d_ns d) (d_cmdcaps d).
Definition upd_nums (d : dstate) (n : N) : dstate :=
  mkD (d_pending d) (d_wait d) (d_uni d) (d_fetch d) (d_caps d) (n :: d_nums d) (d_all d) (d_sd d) (d_threads d)
      (d_status d) (d_lists d) (d_sel_num d) (d_sel_flags d) (d_sel_perm d) (d_sel_uidnext d) (d_sel_uidvalidity d)
      (d_sel_modseq d) (d_sel_list d) (d_copy d) (d_append d) (d_quota d) (d_roots d) (d_meta d) (d_ns d) (d_cmdcaps d).
Definition upd_search (d : dstate) (a : option (bool * option nset)) (sd : esearch) : dstate :=
  mkD (d_pending d) (d_wait d) (d_uni d) (d_fetch d) (d_caps d) (d_nums d) a sd (d_threads d)
      (d_status d) (d_lists d) (d_sel_num d) (d_sel_flags d) (d_sel_perm d) (d_sel_uidnext d) (d_sel_uidvalidity d)
      (d_sel_modseq d) (d_sel_list d) (d_copy d) (d_append d) (d_quota d) (d_roots d) (d_meta d) (d_ns d) (d_cmdcaps d).
Definition upd_threads (d : dstate) (t : thread) : dstate :=
  mkD (d_pending d) (d_wait d) (d_uni d) (d_fetch d) (d_caps d) (d_nums d) (d_all d) (d_sd d) (t :: d_threads d)
      (d_status d) (d_lists d) (d_sel_num d) (d_sel_flags d) (d_sel_perm d) (d_sel_uidnext d) (d_sel_uidvalidity d)
      (d_sel_modseq d) (d_sel_list d) (d_copy d) (d_append d) (d_quota d) (d_roots d) (d_meta d) (d_ns d) (d_cmdcaps d).
Definition upd_status (d : dstate) (s : bytes * list (N * N)) : dstate :=
  mkD (d_pending d) (d_wait d) (d_uni d) (d_fetch d) (d_caps d) (d_nums d) (d_all d) (d_sd d) (d_threads d)
      (Some s) (d_lists d) (d_sel_num d) (d_sel_flags d) (d_sel_perm d) (d_sel_uidnext d) (d_sel_uidvalidity d)
      (d_sel_modseq d) (d_sel_list d) (d_copy d) (d_append d) (d_quota d) (d_roots d) (d_meta d) (d_ns d) (d_cmdcaps d).
Definition upd_lists (d : dstate) (l : ov) : dstate :=
  mkD (d_pending d) (d_wait d) (d_uni d) (d_fetch d) (d_caps d) (d_nums d) (d_all d) (d_sd d) (d_threads d)
      (d_status d) (l :: d_lists d) (d_sel_num d) (d_sel_flags d) (d_sel_perm d) (d_sel_uidnext d) (d_sel_uidvalidity d)
      (d_sel_modseq d) (d_sel_list d) (d_copy d) (d_append d) (d_quota d) (d_roots d) (d_meta d) (d_ns d) (d_cmdcaps d).
Definition upd_sel (d : dstate) (num : N) (fl perm : list bytes) (un uv ms : N) (l : option bytes) : dstate :=
  mkD (d_pending d) (d_wait d) (d_uni d) (d_fetch d) (d_caps d) (d_nums d) (d_all d) (d_sd d) (d_threads d)
      (d_status d) (d_lists d) num fl perm un uv ms l (d_copy d) (d_append d) (d_quota d) (d_roots d) (d_meta d) (d_ns d) (d_cmdcaps d).
Definition upd_copy (d : dstate) (c : N * nset * nset) : dstate :=
  mkD (d_pending d) (d_wait d) (d_uni d) (d_fetch d) (d_caps d) (d_nums d) (d_all d) (d_sd d) (d_threads d)
      (d_status d) (d_lists d) (d_sel_num d) (d_sel_flags d) (d_sel_perm d) (d_sel_uidnext d) (d_sel_uidvalidity d)
      (d_sel_modseq d) (d_sel_list d) (Some c) (d_append d) (d_quota d) (d_roots d) (d_meta d) (d_ns d) (d_cmdcaps d).
Definition upd_append (d : dstate) (a : N * N) : dstate :=
  mkD (d_pending d) (d_wait d) (d_uni d) (d_fetch d) (d_caps d) (d_nums d) (d_all d) (d_sd d) (d_threads d)
      (d_status d) (d_lists d) (d_sel_num d) (d_sel_flags d) (d_sel_perm d) (d_sel_uidnext d) (d_sel_uidvalidity d)
      (d_sel_modseq d) (d_sel_list d) (d_copy d) (Some a) (d_quota d) (d_roots d) (d_meta d) (d_ns d) (d_cmdcaps d).
Definition upd_quota (d : dstate) (q : list (bytes * list (bytes * N * N))) (roots : list bytes) : dstate :=
  mkD (d_pending d) (d_wait d) (d_uni d) (d_fetch d) (d_caps d) (d_nums d) (d_all d) (d_sd d) (d_threads d)
      (d_status d) (d_lists d) (d_sel_num d) (d_sel_flags d) (d_sel_perm d) (d_sel_uidnext d) (d_sel_uidvalidity d)
      (d_sel_modseq d) (d_sel_list d) (d_copy d) (d_append d) q roots (d_meta d) (d_ns d) (d_cmdcaps d).
Definition upd_meta (d : dstate) (m : bytes * list (bytes * option bytes)) : dstate :=
  mkD (d_pending d) (d_wait d) (d_uni d) (d_fetch d) (d_caps d) (d_nums d) (d_all d) (d_sd d) (d_threads d)
      (d_status d) (d_lists d) (d_sel_num d) (d_sel_flags d) (d_sel_perm d) (d_sel_uidnext d) (d_sel_uidvalidity d)
      (d_sel_modseq d) (d_sel_list d) (d_copy d) (d_append d) (d_quota d) (d_roots d) (Some m) (d_ns d) (d_cmdcaps d).
Definition upd_ns (d : dstate) (n : list (list (bytes * N))) : dstate :=
  mkD (d_pending d) (d_wait d) (d_uni d) (d_fetch d) (d_caps d) (d_nums d) (d_all d) (d_sd d) (d_threads d)
      (d_status d) (d_lists d) (d_sel_num d) (d_sel_flags d) (d_sel_perm d) (d_sel_uidnext d) (d_sel_uidvalidity d)
      (d_sel_modseq d) (d_sel_list d) (d_copy d) (d_append d) (d_quota d) (d_roots d) (d_meta d) (Some n) (d_cmdcaps d).
Definition upd_cmdcaps (d : dstate) (c : list bytes) : dstate :=
  mkD (d_pending d) (d_wait d) (d_uni d) (d_fetch d) (d_caps d) (d_nums d) (d_all d) (d_sd d) (d_threads d)
      (d_status d) (d_lists d) (d_sel_num d) (d_sel_flags d) (d_sel_perm d) (d_sel_uidnext d) (d_sel_uidvalidity d)
      (d_sel_modseq d) (d_sel_list d) (d_copy d) (d_append d) (d_quota d) (d_roots d) (d_meta d) (d_ns d) (Some c).
Definition upd_done (d : dstate) (st : N) : dstate :=
  mkD false st (d_uni d) (d_fetch d) (d_caps d) (d_nums d) (d_all d) (d_sd d) (d_threads d)
      (d_status d) (d_lists d) (d_sel_num d) (d_sel_flags d) (d_sel_perm d) (d_sel_uidnext d) (d_sel_uidvalidity d)
      (d_sel_modseq d) (d_sel_list d) (d_copy d) (d_append d) (d_quota d) (d_roots d) (d_meta d) (d_ns d) (d_cmdcaps d).

Definition is_select (k : ckind) : bool := match k with KSelect _ => true | _ => false end.

(* the data of a response code: of an untagged status response (readResponseData), or of the
   tagged response of T1 (readResponseTagged; no other tag is ever pending) *)
Definition apply_code (k : ckind) (d : dstate) (tagged : bool) (c : rcode) : dstate :=
  let sel := d_pending d && is_select k in
  if tagged then
    match c with
    | CCaps l => upd_caps d l
    | CAppendUid v u => match k with KAppend => upd_append d (v, u) | _ => d end
    | CCopyUid v s t => match k with KCopy => upd_copy d (v, s, t) | _ => d end
    | _ => d
    end
  else
  match c with
  | CCaps l => upd_caps d l
  | CPermFlags fl =>
      if sel then upd_sel d (d_sel_num d) (d_sel_flags d) fl (d_sel_uidnext d) (d_sel_uidvalidity d) (d_sel_modseq d) (d_sel_list d)
      (* the handler gets a nil slice for "()": the harness cannot tell Flags from PermanentFlags then *)
      else upd_uni d (OL [ON (if nilb fl then 3 else 4); oblist fl])
  | CUidNext n =>
      if sel then upd_sel d (d_sel_num d) (d_sel_flags d) (d_sel_perm d) n (d_sel_uidvalidity d) (d_sel_modseq d) (d_sel_list d) else d
  | CUidValidity n =>
      if sel then upd_sel d (d_sel_num d) (d_sel_flags d) (d_sel_perm d) (d_sel_uidnext d) n (d_sel_modseq d) (d_sel_list d) else d
  | CHighestModSeq n =>
      if sel then upd_sel d (d_sel_num d) (d_sel_flags d) (d_sel_perm d) (d_sel_uidnext d) (d_sel_uidvalidity d) n (d_sel_list d) else d
  | CCopyUid v s t =>
      if d_pending d && match k with KMove => true | _ => false end then upd_copy d (v, s, t) else d
  | _ => d
  end.

(* one event of the reader, routed like the handle* functions do *)
Definition route (k : ckind) (d : dstate) (e : ev) : dstate :=
  let p := d_pending d in
  match e with
  | EvCode tagged c => apply_code k d tagged c
  | EvStatusResp _ _ => d
  | EvTagged _ st => upd_done d st
  | EvCaps l =>
      let d1 := upd_caps d l in
      if p && match k with KCapability => true | _ => false end then upd_cmdcaps d1 l else d1
  | EvEnabled l =>
      if p && match k with KEnable => true | _ => false end then upd_cmdcaps d l else d
  | EvExists n =>
      if p && is_select k then upd_sel d n (d_sel_flags d) (d_sel_perm d) (d_sel_uidnext d) (d_sel_uidvalidity d) (d_sel_modseq d) (d_sel_list d)
      else upd_uni d (OL [ON 2; ON n])
  | EvExpunge n =>
      if p && match k with KExpunge => true | _ => false end then upd_nums d n
      else upd_uni d (OL [ON 1; ON n])
  | EvFlags fl =>
      if p && is_select k then upd_sel d (d_sel_num d) fl (d_sel_perm d) (d_sel_uidnext d) (d_sel_uidvalidity d) (d_sel_modseq d) (d_sel_list d)
      else upd_uni d (OL [ON 3; oblist fl])
  | EvFetchBegin seq => upd_fetch d (OL [ON seq; OL []] :: d_fetch d)
  | EvFetchItem it =>
      match d_fetch d with
      | OL [s; OL items] :: r => upd_fetch d (OL [s; OL (items ++ [fitem_ov it])] :: r)
      | _ => d
      end
  | EvSearchNum n =>
      if p then
        match d_all d with
        | Some (uid, Some set) =>
            match add_num set n with
            | Some set' => upd_search d (Some (uid, Some set')) (d_sd d)
            | None => d
            end
        | _ => d
        end
      else d
  | EvSearchModSeq m =>
      if p && match k with KSearch _ => true | _ => false end then
        let s := d_sd d in
        upd_search d (d_all d) (mkES (es_tag s) (es_uid s) (es_all s) (es_min s) (es_max s) (es_count s) (Some m))
      else d
  | EvESearch s =>
      if p && match k with KSearch _ => true | _ => false end
         && (nilb (es_tag s) || bytes_eqb (es_tag s) (s2b "T1")) then
        upd_search d (match es_all s with Some set => Some (es_uid s, Some set) | None => None end) s
      else d
  | EvSortNum n => if p && match k with KSort => true | _ => false end then upd_nums d n else d
  | EvThread t => if p && match k with KThread => true | _ => false end then upd_threads d t else d
  | EvList attrs delim mbox ci old =>
      if p then
        match k with
        | KList => upd_lists d (OL [oblist attrs; ON delim; OB mbox; oopt obool ci;
                                    OB (match old with Some o => o | None => [] end)])
        | KSelect m =>
            if same_mailbox m mbox && match d_sel_list d with None => true | Some _ => false end
            then upd_sel d (d_sel_num d) (d_sel_flags d) (d_sel_perm d) (d_sel_uidnext d) (d_sel_uidvalidity d) (d_sel_modseq d) (Some mbox)
            else d
        | _ => d
        end
      else d
  | EvStatus mbox items =>
      if p then match k with KStatus m => if same_mailbox m mbox then upd_status d (mbox, items) else d | _ => d end
      else d
  | EvNamespace ns => if p && match k with KNamespace => true | _ => false end then upd_ns d ns else d
  | EvQuota root res =>
      if p then
        match k with
        | KGetQuota r => if bytes_eqb r root then upd_quota d [(root, res)] (d_roots d) else d
        | KGetQuotaRoot _ =>
            if existsb (bytes_eqb root) (d_roots d) then upd_quota d ((root, res) :: d_quota d) (d_roots d) else d
        | _ => d
        end
      else d
  | EvQuotaRoot mbox roots =>
      if p then match k with KGetQuotaRoot m => if bytes_eqb m mbox then upd_quota d (d_quota d) roots else d | _ => d end
      else d
  | EvMetadata mbox vals entries =>
      let to_cmd := p && match k with KGetMetadata m => bytes_eqb m mbox | _ => false end && negb (nilb vals) in
      if to_cmd then
        upd_meta d (mbox, (match d_meta d with Some (_, old) => old | None => [] end) ++ vals)
      else if negb (nilb entries) then upd_uni d (OL [ON 5; OB mbox; oblist entries])
      else d
  end.

(* last value per STATUS item id *)
Definition status_item (items : list (N * N)) (id : N) : option N :=
  fold_left (fun acc kv => if fst kv =? id then Some (snd kv) else acc) items None.

Definition quota_ov (q : bytes * list (bytes * N * N)) : ov :=
  OL [OB (fst q);
      OL (map (fun kv => OL [OB (fst kv); ON (fst (snd kv)); ON (snd (snd kv))])
              (map_of (map (fun r => (fst (fst r), (snd (fst r), snd r))) (snd q))))].

Definition numset_str (s : nset) : ov := OB (to_string s).

Definition kind_data (k : ckind) (d : dstate) : ov :=
  match k with
  | KNoop | KFetch => OL []
  | KSearch _ =>
      let s := d_sd d in
      let seqset := match d_all d with Some (false, Some set) => Some set | _ => None end in
      let uidset := match d_all d with Some (true, Some set) => Some set | _ => None end in
      OL [ON (match d_all d with None => 0 | Some (false, _) => 1 | Some (true, _) => 2 end);
          OB (match d_all d with Some (_, Some set) => to_string set | _ => [] end);
          obool (es_uid s); onum_default (es_min s); onum_default (es_max s);
          onum_default (es_count s); onum_default (es_modseq s);
          acc_ov true seqset; acc_ov true uidset]
  | KSort | KExpunge => onlist (rev (d_nums d))
  | KThread => OL (map thread_ov (rev (d_threads d)))
  | KStatus _ =>
      match d_status d with
      | None => OL []
      | Some (mbox, items) =>
          OL [OB mbox; oopt ON (status_item items 0); onum_default (status_item items 1);
              onum_default (status_item items 2); oopt ON (status_item items 3);
              oopt ON (status_item items 4); oopt ON (status_item items 5);
              oopt ON (status_item items 6); oopt ON (status_item items 7);
              onum_default (status_item items 8)]
      end
  | KList => OL (rev (d_lists d))
  | KSelect _ =>
      OL [ON (d_sel_num d); oblist (d_sel_flags d); oblist (d_sel_perm d); ON (d_sel_uidnext d);
          ON (d_sel_uidvalidity d); ON (d_sel_modseq d); oopt OB (d_sel_list d)]
  | KCopy =>
      match d_copy d with
      | Some (v, s, t) => OL [ON v; numset_str s; numset_str t]
      | None => OL [ON 0; OB []; OB []]
      end
  | KMove =>
      if d_wait d =? 0 then
        match d_copy d with
        | Some (v, s, t) => OL [ON v; numset_str s; numset_str t]
        | None => OL [ON 0]
        end
      else OL []
  | KAppend => match d_append d with Some (v, u) => OL [ON v; ON u] | None => OL [ON 0; ON 0] end
  | KGetQuota _ =>
      if d_wait d =? 0 then match d_quota d with q :: _ => OL [quota_ov q] | [] => OL [] end else OL []
  | KGetQuotaRoot _ =>
      if d_wait d =? 0 then OL (map quota_ov (rev (d_quota d))) else OL []
  | KGetMetadata _ =>
      match d_meta d with
      | Some (mbox, vals) => OL [OB mbox; OL (map (fun kv => OL [OB (fst kv); oopt OB (snd kv)]) (map_of vals))]
      | None => OL []
      end
  | KNamespace =>
      (* NamespaceData cannot tell "no NAMESPACE response" from "NIL NIL NIL" *)
      OL (map (fun l => OL (map (fun pd => OL [OB (fst pd); ON (snd pd)]) l))
              (match d_ns d with Some ns => ns | None => [[]; []; []] end))
  | KCapability | KEnable => match d_cmdcaps d with Some l => OL [oblist (set_of l)] | None => OL [] end
  end.

(* observation: close class (0 clean, 1 error, 2 panic, 9 model out of fuel), wait class,
   unilateral calls, FETCH messages (a multiset), capabilities, command data *)
Record cobs := mkObs { o_close : N; o_wait : N; o_uni : ov; o_fetch : list ov; o_caps : ov; o_data : ov }.

Definition observe (k : ckind) (greeting_caps : list bytes) (r : res unit) : cobs :=
  let '(cls, log) :=
    match r with
    | Ok _ s => (0, rev (s_log s))
    | Err s => (1, rev (s_log s))
    | Fuel => (9, [])
    | Crash => (2, [])
    end in
  let d := fold_left (route k) log (d_init k greeting_caps) in
  mkObs cls (d_wait d) (OL (rev (d_uni d))) (rev (d_fetch d)) (oblist (set_of (d_caps d))) (kind_data k d).

Definition cobs_eqb (a b : cobs) : bool :=
  (o_close a =? o_close b) && (o_wait a =? o_wait b) && ov_eqb (o_uni a) (o_uni b)
  && multiset_eqb (o_fetch a) (o_fetch b) && ov_eqb (o_caps a) (o_caps b) && ov_eqb (o_data a) (o_data b).

(* a case: pending command, capabilities of the greeting, the stream, what the client did *)
Definition resp_case := (ckind * list bytes * bytes * cobs)%type.
Definition resp_ok (c : resp_case) : bool :=
  let '(k, gc, stream, o) := c in
  cobs_eqb (observe k gc (read_stream [s2b "T1"] stream)) o.
Definition resp_mismatches (cs : list resp_case) : list N := idx_filter resp_ok 0 cs.

(* for replays: the model's own observation of a case *)
Definition resp_model (c : resp_case) : cobs :=
  let '(k, gc, stream, _) := c in observe k gc (read_stream [s2b "T1"] stream).

(* ---- direct evaluation of the model's instruments on a stream (size families) ---- *)
Definition stats_case := (bytes * N * N)%type.       (* stream, tick bound, depth bound *)
Definition stats_ok (c : stats_case) : bool :=
  let '(stream, tb, db) := c in
  match read_stream [s2b "T1"] stream with
  | Ok _ s | Err s => (N.of_nat (s_ticks s) <=? tb) && (N.of_nat (s_maxd s) <=? db)
  | _ => false
  end.
Definition stats_mismatches (cs : list stats_case) : list N := idx_filter stats_ok 0 cs.
