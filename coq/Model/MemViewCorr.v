(* Model/MemViewCorr.v — C08 correspondence: a whole multi-session history run against the
   real imapmemserver, one raw connection per session; what every connection received,
   parsed by the harness's own tokenizer and projected to [ev], must be what the model
   predicts for that connection.  Sequence sets travel as the text that was sent and are
   parsed by the model of imapnum.ParseSet.                                                *)
From GoImap.Base Require Import Bytes.
From Coq Require Import Uint63.
From GoImap.Model Require Import NumSet NumSetCorr MatchList Tracker MemView.
Open Scope N_scope.

Inductive tcmd :=
| TAppend (mb : N) (del : bool)
| TSelect (mb : N) (ro : bool)                   (* ro: the line said EXAMINE *)
| TUnselect | TClose | TNoop | TIdle | TDone
| TFetch (uidk : bool) (s : bytes) (wflags seen : bool)
| TStore (uidk : bool) (s : bytes) (o : sop) (silent : bool)
| TExpunge | TUidExpunge (s : bytes)
| TCopy (uidk : bool) (s : bytes) (dest : N)
| TMove (uidk : bool) (s : bytes) (dest : N)
| TSearch (uidk : bool) (sq uq : option bytes) (dq : option bool)
| TBad.

Definition pset (t : bytes) : option nset :=
  match parse_set t with Some (Some s) => Some s | _ => None end.
(* None = absent; Some None = present but unparsable *)
Definition poset (t : option bytes) : option (option nset) :=
  match t with None => Some None | Some b => match pset b with Some s => Some (Some s) | None => None end end.

Definition cmd_of (t : tcmd) : cmd :=
  match t with
  | TAppend m d => CAppend m d
  | TSelect m ro => CSelect m ro
  | TUnselect => CUnselect | TClose => CClose | TNoop => CNoop | TIdle => CIdle | TDone => CDone
  | TFetch u s f sn => match pset s with Some x => CFetch u x f sn | None => CBad end
  | TStore u s o sl => match pset s with Some x => CStore u x o sl | None => CBad end
  | TExpunge => CExpunge
  | TUidExpunge s => match pset s with Some x => CUidExpunge x | None => CBad end
  | TCopy u s d => match pset s with Some x => CCopy u x d | None => CBad end
  | TMove u s d => match pset s with Some x => CMove u x d | None => CBad end
  | TSearch u sq uq dq =>
      match poset sq, poset uq with
      | Some a, Some b => CSearch u a b dq
      | _, _ => CBad
      end
  | TBad => CBad
  end.

Definition status_eqb (a b : status) : bool :=
  match a, b with StOK, StOK | StNO, StNO | StBAD, StBAD => true | _, _ => false end.
Definition rdata_eqb (a b : rdata) : bool :=
  match a, b with
  | DNone, DNone => true
  | DAppendUid x, DAppendUid y => x =? y
  | DCopyUid s1 d1, DCopyUid s2 d2 => list_eqb N.eqb s1 s2 && list_eqb N.eqb d1 d2
  | _, _ => false
  end.
Definition ev_eqb (a b : ev) : bool :=
  match a, b with
  | EvExists x _, EvExists y _ => x =? y            (* the ghost UID list is not on the wire *)
  | EvExpunge x, EvExpunge y => x =? y
  | EvFetch n1 u1 d1, EvFetch n2 u2 d2 => (n1 =? n2) && (u1 =? u2) && option_eqb Bool.eqb d1 d2
  | EvSearch k1 l1, EvSearch k2 l2 => Bool.eqb k1 k2 && list_eqb N.eqb l1 l2
  | EvClosed, EvClosed => true
  | EvUidNext x, EvUidNext y => x =? y
  | EvCopyUid s1 d1, EvCopyUid s2 d2 => list_eqb N.eqb s1 s2 && list_eqb N.eqb d1 d2
  | EvFlags, EvFlags => true
  | EvCont, EvCont => true
  | EvDone s1 d1, EvDone s2 d2 => status_eqb s1 s2 && rdata_eqb d1 d2
  | _, _ => false
  end.

(* case: number of mailboxes, number of connections, the history, what each connection
   (0, 1, ...) received over the whole history *)
Definition mv_case := (N * N * list (N * tcmd) * list (list ev))%type.

Definition mv_model (nmb nconn : N) (h : list (N * tcmd)) : bool * list (list ev) :=
  let '(st, l) := sys_run (sys_init nmb nconn) (map (fun x => (fst x, cmd_of (snd x))) h) in
  (s_crash st, map (fun c => stream_of c l) (map N.of_nat (seq 0 (N.to_nat nconn)))).

Definition mv_ok (c : mv_case) : bool :=
  let '(nmb, nconn, h, obs) := c in
  let '(cr, streams) := mv_model nmb nconn h in
  negb cr && list_eqb (list_eqb ev_eqb) streams obs.

Definition mv_mismatches (cs : list mv_case) : list N := idx_filter mv_ok 0 cs.

(* ---- compact case encoding ---------------------------------------------------------------
   Coq spends most of a correspondence run elaborating the case literals (a string or a list
   of N literals costs about 0.2 ms per character), so the harness writes each case as a short
   list of primitive 63-bit integers and this decoder rebuilds the mv_case.  A word carries nine
   7-bit symbols (low bits first); a symbol carries six bits of a number (low groups first) and
   bit 6 says that another group follows; the first number is how many numbers follow (the
   rest of the last word is padding).  A case that does not decode counts as a mismatch.     *)
Fixpoint unpack (k : nat) (z : N) : list N :=
  match k with
  | O => []
  | S k' => N.land z 127 :: unpack k' (N.shiftr z 7)
  end.
Definition unpack9 (w : int) : list N := unpack 9 (Z.to_N (Uint63.to_Z w)).
Fixpoint toks (l : list N) (acc shift : N) : list N :=
  match l with
  | [] => []
  | s :: r =>
      let acc' := acc + N.shiftl (s mod 64) shift in
      if s <? 64 then acc' :: toks r 0 0 else toks r acc' (shift + 6)
  end.
Definition words_toks (ws : list int) : list N :=
  match toks (flat_map unpack9 ws) 0 0 with
  | n :: r => firstn (N.to_nat n) r
  | [] => []
  end.

Definition P (A : Type) := list N -> option (A * list N).
Definition p_num : P N := fun l => match l with x :: r => Some (x, r) | [] => None end.
Definition p_bool : P bool := fun l => match l with x :: r => Some (negb (x =? 0), r) | [] => None end.
Fixpoint p_rep {A} (p : P A) (n : nat) : P (list A) :=
  fun l => match n with
           | O => Some ([], l)
           | S n' => match p l with
                     | None => None
                     | Some (x, l1) => match p_rep p n' l1 with
                                       | None => None
                                       | Some (xs, l2) => Some (x :: xs, l2)
                                       end
                     end
           end.
Definition p_list {A} (p : P A) : P (list A) :=
  fun l => match l with n :: r => p_rep p (N.to_nat n) r | [] => None end.
Definition p_map {A B} (f : A -> B) (p : P A) : P B :=
  fun l => match p l with Some (x, r) => Some (f x, r) | None => None end.
Definition p_bind {A B} (p : P A) (f : A -> P B) : P B :=
  fun l => match p l with Some (x, r) => f x r | None => None end.
Definition p_ret {A} (x : A) : P A := fun l => Some (x, l).
Local Notation "x <- p ;; q" := (p_bind p (fun x => q)) (at level 61, p at next level, right associativity).

Definition p_set : P bytes := p_map (map n2b) (p_list p_num).
Definition p_oset : P (option bytes) :=
  k <- p_num ;; if k =? 0 then p_ret None else p_map Some p_set.
Definition p_sop : P sop :=
  k <- p_num ;; p_ret (if k =? 0 then SDel else if k =? 1 then SUndel else SKeep).
Definition p_obool : P (option bool) :=
  k <- p_num ;; p_ret (if k =? 0 then None else if k =? 1 then Some false else Some true).

Definition p_cmd : P tcmd :=
  op <- p_num ;;
  match op with
  | 0 => m <- p_num ;; d <- p_bool ;; p_ret (TAppend m d)
  | 1 => m <- p_num ;; ro <- p_bool ;; p_ret (TSelect m ro)
  | 2 => p_ret TUnselect
  | 3 => p_ret TClose
  | 4 => p_ret TNoop
  | 5 => p_ret TIdle
  | 6 => p_ret TDone
  | 7 => u <- p_bool ;; f <- p_bool ;; sn <- p_bool ;; s <- p_set ;; p_ret (TFetch u s f sn)
  | 8 => u <- p_bool ;; o <- p_sop ;; sl <- p_bool ;; s <- p_set ;; p_ret (TStore u s o sl)
  | 9 => p_ret TExpunge
  | 10 => s <- p_set ;; p_ret (TUidExpunge s)
  | 11 => u <- p_bool ;; d <- p_num ;; s <- p_set ;; p_ret (TCopy u s d)
  | 12 => u <- p_bool ;; d <- p_num ;; s <- p_set ;; p_ret (TMove u s d)
  | 13 => u <- p_bool ;; dq <- p_obool ;; sq <- p_oset ;; uq <- p_oset ;; p_ret (TSearch u sq uq dq)
  | 14 => p_ret TBad
  | _ => fun _ => None
  end.

Definition p_rdata : P rdata :=
  k <- p_num ;;
  match k with
  | 0 => p_ret DNone
  | 1 => u <- p_num ;; p_ret (DAppendUid u)
  | 2 => s <- p_list p_num ;; d <- p_list p_num ;; p_ret (DCopyUid s d)
  | _ => fun _ => None
  end.
Definition p_status : P status :=
  k <- p_num ;; p_ret (if k =? 0 then StOK else if k =? 1 then StNO else StBAD).

Definition p_ev : P ev :=
  op <- p_num ;;
  match op with
  | 0 => n <- p_num ;; p_ret (EvExists n [])
  | 1 => n <- p_num ;; p_ret (EvExpunge n)
  | 2 => n <- p_num ;; u <- p_num ;; d <- p_obool ;; p_ret (EvFetch n u d)
  | 3 => u <- p_bool ;; l <- p_list p_num ;; p_ret (EvSearch u l)
  | 4 => p_ret EvClosed
  | 5 => n <- p_num ;; p_ret (EvUidNext n)
  | 6 => s <- p_list p_num ;; d <- p_list p_num ;; p_ret (EvCopyUid s d)
  | 7 => p_ret EvFlags
  | 8 => p_ret EvCont
  | 9 => s <- p_status ;; d <- p_rdata ;; p_ret (EvDone s d)
  | _ => fun _ => None
  end.

Definition p_case : P mv_case :=
  nmb <- p_num ;; nconn <- p_num ;;
  h <- p_list (c <- p_num ;; t <- p_cmd ;; p_ret (c, t)) ;;
  obs <- p_rep (p_list p_ev) (N.to_nat nconn) ;;
  p_ret (nmb, nconn, h, obs).

Definition decode_case (ws : list int) : option mv_case :=
  match p_case (words_toks ws) with
  | Some (c, []) => Some c
  | _ => None
  end.

Definition mvb_ok (ws : list int) : bool :=
  match decode_case ws with Some c => mv_ok c | None => false end.
Definition mvb_mismatches (cs : list (list int)) : list N := idx_filter mvb_ok 0 cs.
