(* Model/NumSetCorr.v — observation functions for the C15 correspondence run: the Go harness
   records what the real imapnum.Set / imap.SeqSet / imap.UIDSet returned; [ops_mismatches]
   and [parse_mismatches] recompute the same observations on the model inside the kernel. *)
From GoImap.Base Require Import Bytes.
From GoImap.Model Require Import NumSet.
Open Scope N_scope.

Fixpoint list_eqb {A} (e : A -> A -> bool) (a b : list A) : bool :=
  match a, b with
  | [], [] => true
  | x :: a', y :: b' => e x y && list_eqb e a' b'
  | _, _ => false
  end.
Definition option_eqb {A} (e : A -> A -> bool) (a b : option A) : bool :=
  match a, b with
  | None, None => true
  | Some x, Some y => e x y
  | _, _ => false
  end.

(* observation after one operation: String(), Dynamic(), Contains(probe) for each probe,
   the raw range list, and Nums() when requested (Some None = ok false) *)
Definition obs := (bytes * bool * list bool * list range * option (option (list N)))%type.

Definition obs_eqb (a b : obs) : bool :=
  let '(s1, d1, c1, r1, n1) := a in
  let '(s2, d2, c2, r2, n2) := b in
  bytes_eqb s1 s2 && Bool.eqb d1 d2 && list_eqb Bool.eqb c1 c2 && list_eqb range_eqb r1 r2 &&
  option_eqb (option_eqb (list_eqb N.eqb)) n1 n2.

Definition observe (probes : list N) (want_nums : bool) (s : nset) : option obs :=
  let cs := map (contains s) probes in
  if forallb (fun c => match c with Some _ => true | None => false end) cs then
    Some (to_string s, dynamic s,
          map (fun c => match c with Some b => b | None => false end) cs,
          s,
          if want_nums then Some (match nums s with NumsOk l => Some l | NumsNotStatic => None end)
          else None)
  else None.

(* a case: probes, then a list of (operation, want_nums, observation the real code gave) *)
Definition ops_case := (list N * list (op * bool * obs))%type.

Fixpoint run_case (probes : list N) (s : option nset) (steps : list (op * bool * obs)) : bool :=
  match steps with
  | [] => true
  | (o, wn, expected) :: rest =>
      match apply_op s o with
      | None => false
      | Some s' =>
          match observe probes wn s' with
          | None => false
          | Some got => obs_eqb got expected && run_case probes (Some s') rest
          end
      end
  end.

Fixpoint indexed_filter {A} (f : A -> bool) (i : N) (l : list A) : list N :=
  match l with
  | [] => []
  | x :: r => if f x then indexed_filter f (i + 1) r else i :: indexed_filter f (i + 1) r
  end.

Definition ops_mismatches (cs : list ops_case) : list N :=
  indexed_filter (fun c : ops_case => let '(p, st) := c in run_case p (Some []) st) 0 cs.

(* parse case: text, expected result: None = error, Some (String(), Dynamic(), ranges) *)
Definition parse_case := (bytes * option (bytes * bool * list range))%type.
Definition parse_ok (c : parse_case) : bool :=
  let '(t, expected) := c in
  match parse_set t, expected with
  | None, None => true
  | Some (Some s), Some (str, dyn, rs) =>
      bytes_eqb (to_string s) str && Bool.eqb (dynamic s) dyn && list_eqb range_eqb s rs
  | _, _ => false
  end.
Definition parse_mismatches (cs : list parse_case) : list N := indexed_filter parse_ok 0 cs.
