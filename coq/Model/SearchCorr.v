(* Model/SearchCorr.v — structural equality on criteria and the C19 correspondence checks. *)
From GoImap.Base Require Import Bytes.
From GoImap.Model Require Import NumSet NumSetCorr MatchList Search.
Open Scope Z_scope.

Definition nset_eqb (a b : nset) : bool := list_eqb range_eqb a b.
Definition pair_bytes_eqb (a b : bytes * bytes) : bool := bytes_eqb (fst a) (fst b) && bytes_eqb (snd a) (snd b).

Fixpoint criteria_eqb (a b : criteria) {struct a} : bool :=
  match a, b with
  | Crit s1 u1 si1 be1 ss1 sb1 h1 b1 t1 f1 nf1 la1 sm1 n1 o1,
    Crit s2 u2 si2 be2 ss2 sb2 h2 b2 t2 f2 nf2 la2 sm2 n2 o2 =>
      list_eqb nset_eqb s1 s2 && list_eqb nset_eqb u1 u2 &&
      (si1 =? si2) && (be1 =? be2) && (ss1 =? ss2) && (sb1 =? sb2) &&
      list_eqb pair_bytes_eqb h1 h2 && list_eqb bytes_eqb b1 b2 && list_eqb bytes_eqb t1 t2 &&
      list_eqb bytes_eqb f1 f2 && list_eqb bytes_eqb nf1 nf2 &&
      (la1 =? la2) && (sm1 =? sm2) &&
      (fix go (x y : list criteria) : bool :=
         match x, y with
         | [], [] => true
         | c :: x', d :: y' => criteria_eqb c d && go x' y'
         | _, _ => false
         end) n1 n2 &&
      (fix go (x y : list (criteria * criteria)) : bool :=
         match x, y with
         | [], [] => true
         | (c1, c2) :: x', (d1, d2) :: y' => criteria_eqb c1 d1 && criteria_eqb c2 d2 && go x' y'
         | _, _ => false
         end) o1 o2
  end.

(* And: (a, b, what a.And(&b) left in a) *)
Definition and_case := (criteria * criteria * criteria)%type.
Definition and_ok (c : and_case) : bool := let '(a, b, r) := c in criteria_eqb (and_ a b) r.
Definition and_mismatches (cs : list and_case) : list N := idx_filter and_ok 0%N cs.

(* parser: (keys written on the wire, criteria recorded by the stub session) *)
Definition keys_case := (list skey * criteria)%type.
Definition keys_ok (c : keys_case) : bool := let '(ks, r) := c in criteria_eqb (parse_keys ks) r.
Definition keys_mismatches (cs : list keys_case) : list N := idx_filter keys_ok 0%N cs.
