(* Model/Lockset.v — lock discipline for guarded fields.  The access table itself
   (Gen/FieldAccess.v) is regenerated from /repo's source on every run by
   /verif/lockgraph -fields: every read or write of a field that imapclient.Client declares
   under its mutex, with the verdict of a must-hold analysis. *)
From Coq Require Import List String Bool Arith Lia.
Import ListNotations.

(* (field, function, position, write, lock held on every path, inside the constructor) *)
Definition access := (string * string * string * bool * bool * bool)%type.
Definition access_ok (a : access) : bool :=
  let '(_, _, _, _, held, ctor) := a in held || ctor.
Definition table_ok (t : list access) : bool := forallb access_ok t.

(* threads of a running program, abstracted to what matters for the guarded fields *)
Record athread := mkAT {
  holds : bool;          (* the thread currently holds the mutex *)
  at_guarded : bool      (* its next step reads or writes a guarded field *)
}.

(* sync.Mutex: at most one holder *)
Definition mutex_ok (ts : list athread) : Prop :=
  (List.length (filter holds ts) <= 1)%nat.

(* what table_ok establishes for every thread that runs after the constructor returned *)
Definition disciplined (ts : list athread) : Prop :=
  forall t, In t ts -> at_guarded t = true -> holds t = true.
