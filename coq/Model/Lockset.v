(* Model/Lockset.v — lock discipline for guarded fields.  The access table itself
   (Gen/FieldAccess.v) is regenerated from /repo's source on every run by
   /verif/lockgraph -fields: every read or write of a field that imapclient.Client declares
   under its mutex, with the verdict of a must-hold analysis. *)
From Coq Require Import List String Bool Arith Lia.
Import ListNotations.

(* (field, function, position, write, lock held on every path, inside the constructor) *)
Definition access := (string * string * string * bool * bool * bool)%type.
Definition access_ok (a : access) : bool :=
  let '(_, _, _, _, held, ctor) := a in held || ctor.
Definition table_ok (t : list access) : bool := forallb access_ok t.

(* threads of a running program, abstracted to what matters for the guarded fields *)
Record athread := mkAT {
  holds : bool;          (* the thread currently holds the mutex *)
  at_guarded : bool      (* its next step reads or writes a guarded field *)
}.

(* sync.Mutex: at most one holder *)
Definition mutex_ok (ts : list athread) : Prop :=
  (List.length (filter holds ts) <= 1)%nat.

(* what table_ok establishes for every thread that runs after the constructor returned *)
Definition disciplined (ts : list athread) : Prop :=
  forall t, In t ts -> at_guarded t = true -> holds t = true.

(* ---- several locks: the Eraser lockset condition (server structs, C14) ----------------
   Gen/ServerFieldAccess.v lists, for every access to a guarded field of the server's
   mutex-bearing structs, the set of lock classes held on every path.  The table is accepted
   when every field has a COMMON lock: one class held at all of its (non-exempt) accesses. *)
Definition access2 := (string * string * string * bool * list string * bool)%type.
Definition a2_field (a : access2) : string := let '(f, _, _, _, _, _) := a in f.
Definition a2_held (a : access2) : list string := let '(_, _, _, _, h, _) := a in h.
Definition a2_exempt (a : access2) : bool := let '(_, _, _, _, _, e) := a in e.

Definition mem_str (s : string) (l : list string) : bool := existsb (String.eqb s) l.

(* lock class cls is held at every non-exempt access of field f *)
Definition guards (cls f : string) (t : list access2) : bool :=
  forallb (fun a => negb (String.eqb (a2_field a) f) || a2_exempt a || mem_str cls (a2_held a)) t.

Definition lockset_ok (t : list access2) : bool :=
  forallb (fun a => a2_exempt a || existsb (fun cls => guards cls (a2_field a) t) (a2_held a)) t.
