(* Model/ServerFrameCorr.v — C04/C06 correspondence: response tokens and backend calls of a
   whole client byte stream. *)
From GoImap.Base Require Import Bytes.
From GoImap.Model Require Import NumSetCorr MatchList Wire ServerConn ServerFrame.
Open Scope N_scope.

(* wire tokens compared: (0, tag, class) tagged; (1,[],0) continuation; (2,[],0) BYE *)
Definition tok := (N * bytes * N)%type.
Definition tok_of (o : sout) : option tok :=
  match o with
  | OTagged t c => Some (0, t, c)
  | OCont => Some (1, [], 0)
  | OBye => Some (2, [], 0)
  | OUntagged _ => None
  end.
Fixpoint toks (l : list sout) : list tok :=
  match l with
  | [] => []
  | o :: r => match tok_of o with Some t => t :: toks r | None => toks r end
  end.
Definition tok_eqb (a b : tok) : bool :=
  let '(k1, t1, c1) := a in let '(k2, t2, c2) := b in (k1 =? k2) && bytes_eqb t1 t2 && (c1 =? c2).

Definition scall_eqb (a b : scall) : bool :=
  match a, b with
  | SLogin u p, SLogin u' p' => bytes_eqb u u' && bytes_eqb p p'
  | SCreate m l, SCreate m' l' => bytes_eqb m m' && list_eqb bytes_eqb l l'
  | SDelete m, SDelete m' | SSubscribe m, SSubscribe m' | SUnsubscribe m, SUnsubscribe m' => bytes_eqb m m'
  | SRename a1 b1, SRename a2 b2 => bytes_eqb a1 a2 && bytes_eqb b1 b2
  | SSelect m ro, SSelect m' ro' => bytes_eqb m m' && Bool.eqb ro ro'
  | SUnselect, SUnselect | SExpunge, SExpunge | SIdle, SIdle => true
  | SAppend m f d p, SAppend m' f' d' p' =>
      bytes_eqb m m' && list_eqb bytes_eqb f f' && bytes_eqb d d' && bytes_eqb p p'
  | _, _ => false
  end.

(* (insecure, literal_plus, valid date strings, mailboxes on which the backend's Append fails,
    start state 0/1/2, stream,
    observed tokens (None = not compared: the client cut the connection), observed calls) *)
Definition sf_case := (bool * bool * list bytes * list bytes * N * bytes * option (list tok) * list scall)%type.
Definition sf_ok (c : sf_case) : bool :=
  let '(ins, lp, dates, afail, st0, s, otoks, calls) := c in
  let cfg := mkFcfg ins lp false (fun d => existsb (bytes_eqb d) dates) (fun m => existsb (bytes_eqb m) afail) in
  let f := run_stream cfg (match st0 with 0 => SNotAuth | 1 => SAuth | _ => SSelected end) s in
  match otoks with
  | Some ts => list_eqb tok_eqb (toks (rev (fs_out f))) ts
  | None => true
  end &&
  (* the Idle call runs in its own goroutine: its position among the calls is a scheduling
     matter, so it is left out of the comparison on both sides *)
  (* a backend that refuses an APPEND does so without reading the message: its payload is not
     observed, so it is blanked on the model's side *)
  list_eqb scall_eqb
    (map (fun k => match k with
                   | SAppend m fl d p => if f_append_fails cfg m then SAppend m fl d [] else k
                   | _ => k end)
         (filter (fun k => match k with SIdle => false | _ => true end) (rev (fs_calls f)))) calls.
Definition sf_mismatches (cs : list sf_case) : list N := idx_filter sf_ok 0 cs.
