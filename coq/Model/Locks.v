(* Model/Locks.v — lock-order graphs and the configurations of a multi-threaded program that
   takes nested locks.  The graph itself (classes = sync.Mutex struct fields, edge A -> B when B
   may be acquired while A is held) is regenerated from /repo's source by /verif/lockgraph on
   every run (Gen/LockGraph.v); this file is the generic theory it is checked against. *)
From Coq Require Import List NArith Bool.
Import ListNotations.
Open Scope N_scope.

Definition graph := list (N * N).

Definition edge_in (g : graph) (a b : N) : bool :=
  existsb (fun e => (fst e =? a) && (snd e =? b)) g.

(* longest-path ranks by relaxation; [fuel] rounds over the edge list *)
Definition relax (g : graph) (r : N -> N) : N -> N :=
  fold_left (fun r e => let '(a, b) := e in
               fun x => if x =? b then N.max (r x) (r a + 1) else r x) g r.
Fixpoint ranks (fuel : nat) (g : graph) (r : N -> N) : N -> N :=
  match fuel with O => r | S f => ranks f g (relax g r) end.

(* the certificate check: after |g|+1 rounds every edge must go strictly upwards — fails
   exactly when the graph has a cycle (a self-loop included) *)
Definition graph_ok (g : graph) : bool :=
  let r := ranks (S (length g)) g (fun _ => 0) in
  forallb (fun e => r (fst e) <? r (snd e)) g.

(* a lock instance: (class, identity); a thread: the locks it holds and the one it is blocked on *)
Definition lock := (N * N)%type.
Record thread := mkThread { held : list lock; waiting : option lock }.
Definition config := list thread.

(* what the static analysis guarantees of the program, in every state: a lock is requested
   while holding another only along an edge of the graph *)
Definition respects (g : graph) (cfg : config) : Prop :=
  forall t l h, In t cfg -> waiting t = Some l -> In h (held t) -> edge_in g (fst h) (fst l) = true.

(* t waits for a lock that u holds *)
Definition waits_for (cfg : config) (t u : thread) : Prop :=
  In t cfg /\ In u cfg /\ exists l, waiting t = Some l /\ In l (held u).

Inductive wf_path (cfg : config) : thread -> thread -> Prop :=
| wf_one t u : waits_for cfg t u -> wf_path cfg t u
| wf_cons t u v : waits_for cfg t u -> wf_path cfg u v -> wf_path cfg t v.

(* a deadlock: a cycle of threads each blocked on a lock the next one holds *)
Definition deadlocked (cfg : config) : Prop := exists t, wf_path cfg t t.
