(* Model/RespFetch.v — FETCH responses: imapserver FetchResponseWriter.Write*, writeEnvelope,
   writeBodyStructure (imapserver/fetch.go) and imapclient handleFetch, readEnvelope, readBody
   and their helpers (imapclient/fetch.go), on byte strings.

   Go nil versus empty: a nil slice / map / pointer is [None], a non-nil one [Some _]; the
   client never produces an empty non-nil slice or map.
   Not modelled: the obsolete RFC822, RFC822.HEADER, RFC822.TEXT item names (go-imap's client
   never requests them and cannot read them); MODSEQ is read but never written by the server. *)
From GoImap.Base Require Import Bytes.
From GoImap.Model Require Import NumSet MatchList Utf7 Wire Resp.
Open Scope N_scope.

(* ---------------------------------------------------------------------------------------- *)
(* data                                                                                       *)

Record address := mkAddr { a_name : bytes; a_mailbox : bytes; a_host : bytes }.

Record envelope := mkEnv {
  e_date : time; e_subject : bytes;
  e_from : option (list address); e_sender : option (list address); e_replyto : option (list address);
  e_to : option (list address); e_cc : option (list address); e_bcc : option (list address);
  e_inreplyto : list bytes; e_msgid : bytes
}.
Definition empty_envelope : envelope := mkEnv zero_time [] None None None None None None [] [].

Definition params := option (list (bytes * bytes)).     (* map[string]string *)
Definition dispo := option (bytes * params).            (* *BodyStructureDisposition *)
Record sp_ext := mkSPX { spx_disp : dispo; spx_lang : option (list bytes); spx_loc : bytes }.
Record mp_ext := mkMPX { mpx_params : params; mpx_disp : dispo; mpx_lang : option (list bytes); mpx_loc : bytes }.

Inductive bstruct :=
| BSingle (typ subtyp : bytes) (pr : params) (id desc enc : bytes) (size : N)
          (msg : option (option envelope * bstruct * Z))     (* MessageRFC822: Envelope, BodyStructure, NumLines *)
          (text : option Z)                                   (* Text: NumLines *)
          (ext : option sp_ext)
| BMulti (children : list bstruct) (subtyp : bytes) (ext : option mp_ext).

Record section := mkSec {
  sec_spec : bytes;                   (* PartSpecifier *)
  sec_part : list Z;                  (* []int *)
  sec_fields : list bytes; sec_notfields : list bytes;
  sec_partial : option (Z * Z);       (* Offset, Size *)
  sec_peek : bool
}.

(* what a backend writes through a FetchResponseWriter, in call order *)
Inductive fitem :=
| FUid (n : N)
| FFlags (l : list bytes)
| FSize (z : Z)
| FIDate (t : time)
| FEnvelope (e : option envelope)
| FBody (bs : bstruct)                          (* WriteBodyStructure *)
| FSection (sec : section) (data : bytes)       (* WriteBodySection + exactly len(data) bytes *)
| FBinary (part : list Z) (data : bytes)        (* WriteBinarySection *)
| FBinSize (part : list Z) (n : N).             (* WriteBinarySectionSize *)

(* what the client hands to the application (FetchItemData), in arrival order *)
Inductive citem :=
| CUid (n : N)
| CFlags (l : list bytes)
| CSize (n : N)
| CIDate (t : time)
| CEnvelope (e : envelope)
| CBody (bs : bstruct) (is_extended : bool)
| CSection (sec : section) (lit : option bytes)   (* None: NIL, Literal is nil *)
| CBinary (part : list Z) (lit : option bytes)
| CBinSize (part : list Z) (n : N)
| CModSeq (n : N).

(* ---------------------------------------------------------------------------------------- *)
(* server: envelope                                                                           *)

Definition w_addr (x : ext) (q : bool) (a : address) : wr :=
  ws "(" +++ w_nstring q (header_text x (a_name a)) +++ ws " NIL " +++ w_nstring q (a_mailbox a) +++ ws " " +++
  w_nstring q (a_host a) +++ ws ")".

(* writeAddressList *)
Definition w_addr_list (x : ext) (q : bool) (l : option (list address)) : wr :=
  match l with None => ws "NIL" | Some l => w_list (w_addr x q) l end.

(* strings.Join(l, sep) *)
Definition join_bytes (sep : bytes) (l : list bytes) : bytes := join_with sep l.

(* writeEnvelope *)
Definition w_envelope (x : ext) (q : bool) (e : option envelope) : wr :=
  let e := match e with Some e => e | None => empty_envelope end in
  let sender := match e_sender e with None => e_from e | s => s end in
  let replyto := match e_replyto e with None => e_from e | s => s end in
  let date := zone_fix (e_date e) in
  ws "(" +++
  (if time_is_zero date then ws "NIL" else w_string q (x_fmt_env_date x date)) +++ ws " " +++
  w_nstring q (header_text x (e_subject e)) +++
  ws " " +++ w_addr_list x q (e_from e) +++
  ws " " +++ w_addr_list x q sender +++
  ws " " +++ w_addr_list x q replyto +++
  ws " " +++ w_addr_list x q (e_to e) +++
  ws " " +++ w_addr_list x q (e_cc e) +++
  ws " " +++ w_addr_list x q (e_bcc e) +++
  ws " " +++
  (if lnil (e_inreplyto e) then ws "NIL"
   else w_string q (s2b "<" ++ join_bytes (s2b "> <") (e_inreplyto e) ++ s2b ">")) +++
  ws " " +++
  (if is_nil (e_msgid e) then ws "NIL" else w_string q (s2b "<" ++ e_msgid e ++ s2b ">")) +++
  ws ")".

(* ---------------------------------------------------------------------------------------- *)
(* server: body structure                                                                     *)

(* Go's string order: bytewise lexicographic *)
Fixpoint bytes_ltb (a b : bytes) : bool :=
  match a, b with
  | [], [] => false
  | [], _ => true
  | _, [] => false
  | x :: a', y :: b' => if b2n x <? b2n y then true else if b2n y <? b2n x then false else bytes_ltb a' b'
  end.
Fixpoint insert_kv (kv : bytes * bytes) (l : list (bytes * bytes)) : list (bytes * bytes) :=
  match l with
  | [] => [kv]
  | h :: t => if bytes_ltb (fst kv) (fst h) then kv :: l else h :: insert_kv kv t
  end.
(* sort.Strings over the keys of a map (keys are distinct) *)
Definition sort_kv (l : list (bytes * bytes)) : list (bytes * bytes) := fold_right insert_kv [] l.

(* writeBodyFldParam *)
Definition w_params (q : bool) (p : params) : wr :=
  match p with
  | None => ws "NIL"
  | Some l => w_list (fun kv => w_string q (fst kv) +++ ws " " +++ w_string q (hide_words (snd kv))) (sort_kv l)
  end.
(* writeBodyFldDsp *)
Definition w_disp (q : bool) (d : dispo) : wr :=
  match d with
  | None => ws "NIL"
  | Some (v, p) => ws "(" +++ w_string q v +++ ws " " +++ w_params q p +++ ws ")"
  end.
(* writeBodyFldLang *)
Definition w_lang (q : bool) (l : option (list bytes)) : wr :=
  match l with None => ws "NIL" | Some l => w_list (w_string q) l end.

(* strings.ToUpper on the transfer encoding: ASCII letters (the model is exact for 7-bit names) *)
Definition w_encoding (q : bool) (enc : bytes) : wr :=
  if is_nil enc then w_string q (s2b "7BIT") else w_string q (ascii_upper enc).

(* strings.EqualFold on the media type (server: writeBodyType1part; client: readBodyType1part) *)
Definition is_message_type (typ subtyp : bytes) : bool :=
  equal_fold_go typ (s2b "message") && (equal_fold_go subtyp (s2b "rfc822") || equal_fold_go subtyp (s2b "global")).
Definition is_text_type (typ : bytes) : bool := equal_fold_go typ (s2b "text").

(* writeBodyStructure / writeBodyType1part / writeBodyTypeMpart.  None also stands for the
   panics: a multipart without children, extended data requested from a node without it *)
Fixpoint w_body (x : ext) (q : bool) (extended : bool) (b : bstruct) : wr :=
  match b with
  | BSingle typ subtyp pr id desc enc size msg text ext =>
      ws "(" +++
      w_string q typ +++ ws " " +++ w_string q subtyp +++ ws " " +++ w_params q pr +++ ws " " +++
      w_nstring q id +++ ws " " +++ w_nstring q (hide_words desc) +++ ws " " +++ w_encoding q enc +++ ws " " +++ w_num size +++
      (match msg with
       | Some (e, b', lines) =>
           ws " " +++ w_envelope x q e +++ ws " " +++ w_body x q extended b' +++ ws " " +++ w_num64 lines
       | None =>
           match text with
           | Some lines => ws " " +++ w_num64 lines
           | None => if is_text_type typ then ws " " +++ w_num64 0%Z else Some []   (* body-type-text always has its line count *)
           end
       end) +++
      (if extended then
         match ext with
         | None => None
         | Some e => ws " NIL " +++ w_disp q (spx_disp e) +++ ws " " +++ w_lang q (spx_lang e) +++ ws " " +++ w_nstring q (spx_loc e)
         end
       else Some []) +++
      ws ")"
  | BMulti children subtyp ext =>
      match children with
      | [] => None
      | _ =>
          ws "(" +++
          (fix kids (l : list bstruct) : wr :=
             match l with
             | [] => Some []
             | [c] => w_body x q extended c
             | c :: r => w_body x q extended c +++ ws " " +++ kids r
             end) children +++
          ws " " +++ w_string q subtyp +++
          (if extended then
             match ext with
             | None => None
             | Some e => ws " " +++ w_params q (mpx_params e) +++ ws " " +++ w_disp q (mpx_disp e) +++ ws " " +++
                         w_lang q (mpx_lang e) +++ ws " " +++ w_nstring q (mpx_loc e)
             end
           else Some []) +++
          ws ")"
      end
  end.

(* ---------------------------------------------------------------------------------------- *)
(* server: FETCH items                                                                        *)

(* fmt.Sprintf("%v", int) *)
Definition dec_of_Z (z : Z) : bytes :=
  if (z <? 0)%Z then ch "-" :: dec_of_N (Z.to_N (- z)) else dec_of_N (Z.to_N z).
(* writeSectionPart *)
Definition w_part (p : list Z) : wr := Some (join_bytes (s2b ".") (map dec_of_Z p)).

(* Encoder.Literal(size, nil) on the server side followed by the payload *)
Definition w_literal (q : bool) (data : bytes) : wr := option_map flatten (enc_literal (scfg q) data).

(* writeItemBodySection *)
Definition w_section (q : bool) (s : section) : wr :=
  ws "BODY[" +++ w_part (sec_part s) +++
  (if negb (lnil (sec_part s)) && negb (is_nil (sec_spec s)) then ws "." else Some []) +++
  (if is_nil (sec_spec s) then Some []
   else
     wb (sec_spec s) +++
     (let '(suffix, hl) :=
        if negb (lnil (sec_fields s)) then (s2b ".FIELDS", sec_fields s)
        else if negb (lnil (sec_notfields s)) then (s2b ".FIELDS.NOT", sec_notfields s)
        else ([], []) in
      wb suffix +++ (if lnil hl then Some [] else ws " " +++ w_list (w_string q) hl))) +++
  ws "]" +++
  (match sec_partial s with
   | Some (off, _) => ws "<" +++ w_num64 off +++ ws ">"
   | None => Some []
   end).

(* the wire items one Write* call produces; nonext / ext: the request named BODY / BODYSTRUCTURE
   (fetchWriterOptions.bodyStructure) *)
Definition w_item (x : ext) (q nonext extd : bool) (i : fitem) : list wr :=
  match i with
  | FUid n => [ws "UID " +++ w_num n]
  | FFlags l => [ws "FLAGS " +++ w_list w_flag l]
  | FSize z => [ws "RFC822.SIZE " +++ w_num64 z]
  | FIDate t => [ws "INTERNALDATE " +++ w_string q (x_fmt_idate x (zone_fix t))]
  | FEnvelope e => [ws "ENVELOPE " +++ w_envelope x q e]
  | FBody bs =>
      (if nonext then [ws "BODY " +++ w_body x q false bs] else []) ++
      (if extd then [ws "BODYSTRUCTURE " +++ w_body x q true bs] else [])
  | FSection s data => [w_section q s +++ ws " " +++ w_literal q data]
  | FBinary p data => [ws "BINARY[" +++ w_part p +++ ws "] ~" +++ w_literal q data]
  | FBinSize p n => [ws "BINARY.SIZE[" +++ w_part p +++ ws "] " +++ w_num n]
  end.

(* CreateMessage .. Close *)
Definition w_fetch (x : ext) (q nonext extd : bool) (seq : N) (items : list fitem) : wr :=
  ws "* " +++ w_num seq +++ ws " FETCH " +++ w_list (fun w => w) (flat_map (w_item x q nonext extd) items) +++ wb CRLF.

(* ---------------------------------------------------------------------------------------- *)
(* client: envelope                                                                           *)

Definition dec_nstr : P bytes := dec_nstring false.

(* readAddress *)
Definition read_address (x : ext) (s : bytes) : dres address :=
  do _, r <- ex_special (ch "(") s;
  do name, r <- dec_nstr r;
  do _, r <- ex_sp r;
  do route, r <- dec_nstr r;
  do _, r <- ex_sp r;
  do mbox, r <- dec_nstr r;
  do _, r <- ex_sp r;
  do host, r <- dec_nstr r;
  do _, r <- ex_special (ch ")") r;
  DOk (mkAddr (decode_text x name) mbox host) r.

(* readAddressList *)
Definition read_addr_list (x : ext) (s : bytes) : dres (option (list address)) :=
  do l, r <- ex_nlist (read_address x) s; DOk (nil_if_empty l) r.

(* readEnvelope *)
Definition read_envelope (x : ext) (s : bytes) : dres envelope :=
  do _, r <- ex_special (ch "(") s;
  do date, r <- dec_nstr r;
  do _, r <- ex_sp r;
  do subject, r <- dec_nstr r;
  do _, r <- ex_sp r;
  do from, r <- read_addr_list x r; do _, r <- ex_sp r;
  do sender, r <- read_addr_list x r; do _, r <- ex_sp r;
  do replyto, r <- read_addr_list x r; do _, r <- ex_sp r;
  do to, r <- read_addr_list x r; do _, r <- ex_sp r;
  do cc, r <- read_addr_list x r; do _, r <- ex_sp r;
  do bcc, r <- read_addr_list x r; do _, r <- ex_sp r;
  do irt, r <- dec_nstr r;
  do _, r <- ex_sp r;
  do mid, r <- dec_nstr r;
  do _, r <- ex_special (ch ")") r;
  DOk (mkEnv (x_parse_env_date x date) (decode_text x subject) from sender replyto to cc bcc
             (x_msgid_list x irt) (x_msgid x mid)) r.

(* ---------------------------------------------------------------------------------------- *)
(* client: body structure                                                                     *)

(* the client's map: insertion replaces an existing key; kept sorted by key (maps have no order) *)
Fixpoint map_set (k v : bytes) (m : list (bytes * bytes)) : list (bytes * bytes) :=
  match m with
  | [] => [(k, v)]
  | h :: t => if bytes_eqb (fst h) k then (k, v) :: t
              else if bytes_ltb k (fst h) then (k, v) :: m else h :: map_set k v t
  end.

(* the state machine of readBodyFldParam's callback over the strings of the list:
   k = None (hasKey = false) means "expecting a key"; result None = "key without value" *)
Fixpoint pair_params (x : ext) (l : list bytes) (k : option bytes) (m : params) : option params :=
  match l with
  | [] => match k with None => Some m | Some _ => None end
  | s :: r =>
      match k with
      | None => pair_params x r (Some s) m
      | Some k => pair_params x r None (Some (map_set (ascii_lower k) (decode_text x s) (match m with Some m => m | None => [] end)))
      end
  end.

(* readBodyFldParam *)
Definition read_params (x : ext) (s : bytes) : dres params :=
  do l, r <- ex_nlist ex_string s;
  match pair_params x l None None with Some p => DOk p r | None => DErr end.

(* readBodyFldDsp *)
Definition read_disp (x : ext) (s : bytes) : dres dispo :=
  match dec_special (ch "(") s with
  | DErr => DErr
  | DNo _ => do _, r <- dec_nil s; DOk None r
  | DOk _ r =>
      do v, r <- ex_string r;
      do _, r <- ex_sp r;
      do p, r <- read_params x r;
      do _, r <- ex_special (ch ")") r;
      DOk (Some (v, p)) r
  end.

(* readBodyFldLang *)
Definition read_lang (s : bytes) : dres (option (list bytes)) :=
  match dec_list ex_string s with
  | DOk (Some l) r => DOk (nil_if_empty l) r
  | DOk None _ => do v, r <- dec_nstr s; DOk (if is_nil v then None else Some [v]) r
  | _ => DErr
  end.

(* the common tail of readBodyExt1part / readBodyExtMpart after the first field:
   [SP dsp [SP lang [SP location]]] *)
Definition read_ext_tail (x : ext) (s : bytes) : dres (dispo * option (list bytes) * bytes) :=
  match dec_sp s with
  | DErr => DErr
  | DNo r => DOk (None, None, []) r
  | DOk _ r =>
      do d, r <- read_disp x r;
      match dec_sp r with
      | DErr => DErr
      | DNo r => DOk (d, None, []) r
      | DOk _ r =>
          do l, r <- read_lang r;
          match dec_sp r with
          | DErr => DErr
          | DNo r => DOk (d, l, []) r
          | DOk _ r => do loc, r <- dec_nstr r; DOk (d, l, loc) r
          end
      end
  end.

(* readBodyExt1part *)
Definition read_ext_1part (x : ext) (s : bytes) : dres sp_ext :=
  do md5, r <- dec_nstr s;
  do t, r <- read_ext_tail x r;
  let '(d, l, loc) := t in DOk (mkSPX d l loc) r.

(* readBodyExtMpart *)
Definition read_ext_mpart (x : ext) (s : bytes) : dres mp_ext :=
  do p, r <- read_params x s;
  do t, r <- read_ext_tail x r;
  let '(d, l, loc) := t in DOk (mkMPX p d l loc) r.

(* Decoder.ExpectBodyFldOctets: "-1" is read as 0 *)
Definition dec_octets (s : bytes) : dres N :=
  match dec_special (ch "-") s with
  | DErr => DErr
  | DOk _ r => do _, r' <- ex_special (ch "1") r; DOk 0 r'
  | DNo _ => ex_number s
  end.


(* readBody / readNestedBody / readBodyType1part / readBodyTypeMpart; depth is the nesting
   level (maxBodyDepth = 1000); fuel only makes the recursion structural *)
Definition MAX_BODY_DEPTH : nat := 1000.
Fixpoint read_body (fuel : nat) (depth : nat) (x : ext) (s : bytes) : dres bstruct :=
  match fuel with
  | O => DErr
  | S f =>
      if Nat.leb MAX_BODY_DEPTH depth then DErr else
      do _, r0 <- ex_special (ch "(") s;
      do bs, r9 <-
        (match dec_string false r0 with
         | DErr => DErr
         | DOk typ r =>
             (* readBodyType1part *)
             do _, r <- ex_sp r;
             do subtyp, r <- ex_string r;
             do _, r <- ex_sp r;
             do pr, r <- read_params x r;
             do _, r <- ex_sp r;
             do id, r <- dec_nstr r;
             do _, r <- ex_sp r;
             do desc, r <- dec_nstr r;
             do _, r <- ex_sp r;
             do enc, r <- dec_nstr r;
             do _, r <- ex_sp r;
             do size, r <- dec_octets r;
             let enc := if is_nil enc then s2b "7BIT" else enc in
             let desc := decode_text x desc in
             let finish (msg : option (option envelope * bstruct * Z)) (text : option Z) (has_sp : bool) (r : bytes) : dres bstruct :=
               (* has_sp: a separator was consumed and no msg/text field used it *)
               if has_sp then
                 do e, r' <- read_ext_1part x r; DOk (BSingle typ subtyp pr id desc enc size msg text (Some e)) r'
               else
                 match dec_sp r with
                 | DErr => DErr
                 | DNo r' => DOk (BSingle typ subtyp pr id desc enc size msg text None) r'
                 | DOk _ r' => do e, r'' <- read_ext_1part x r'; DOk (BSingle typ subtyp pr id desc enc size msg text (Some e)) r''
                 end in
             match dec_sp r with
             | DErr => DErr
             | DNo r => DOk (BSingle typ subtyp pr id desc enc size None None None) r
             | DOk _ r =>
                 if is_message_type typ subtyp then
                   do e, r <- read_envelope x r;
                   do _, r <- ex_sp r;
                   do b', r <- read_body f (S depth) x r;
                   do _, r <- ex_sp r;
                   do lines, r <- ex_number64 r;
                   finish (Some (Some e, b', Z.of_N lines)) None false r
                 else if is_text_type typ then
                   do lines, r <- ex_number64 r;
                   finish None (Some (Z.of_N lines)) false r
                 else finish None None true r
             end
         | DNo _ =>
             (* readBodyTypeMpart *)
             do cs, r <-
               (fix kids (k : nat) (s : bytes) : dres (list bstruct * bytes) :=
                  match k with
                  | O => DErr
                  | S k' =>
                      do c, r <- read_body f (S depth) x s;
                      match dec_sp r with
                      | DErr => DErr
                      | DNo r' => match kids k' r' with DOk (l, st) r'' => DOk (c :: l, st) r'' | _ => DErr end
                      | DOk _ r' =>
                          match dec_string false r' with
                          | DErr => DErr
                          | DOk st r'' => DOk ([c], st) r''
                          | DNo r'' => match kids k' r'' with DOk (l, st) r3 => DOk (c :: l, st) r3 | _ => DErr end
                          end
                      end
                  end) (S (length r0)) r0;
             let '(children, subtyp) := cs in
             match dec_sp r with
             | DErr => DErr
             | DNo r' => DOk (BMulti children subtyp None) r'
             | DOk _ r' => do e, r'' <- read_ext_mpart x r'; DOk (BMulti children subtyp (Some e)) r''
             end
         end);
      do _, r <- skip_values (S (length r9)) r9;
      do _, r <- ex_special (ch ")") r;
      DOk bs r
  end.

(* ---------------------------------------------------------------------------------------- *)
(* client: sections                                                                           *)

(* readSectionPart: (part, dot, rest); an error is reported as an empty rest, on which every
   following step fails *)
Fixpoint read_part (fuel : nat) (acc : list Z) (s : bytes) : list Z * bool * bytes :=
  match fuel with
  | O => (acc, false, s)
  | S k =>
      let dot := negb (lnil acc) in
      let number (s1 : bytes) :=
        match dec_number s1 with
        | DOk n r => read_part k (acc ++ [Z.of_N n]) r
        | DNo r =>
            (* no digit at all: the part ends here; digits that do not fit in 32 bits
               (dec_number has consumed them): "in section-part" error *)
            if Nat.eqb (length r) (length s1) then (acc, dot, r) else (acc, dot, [])
        | DErr => (acc, dot, [])
        end in
      if dot then
        match dec_special (ch ".") s with
        | DOk _ r => number r
        | DNo r => (acc, false, r)
        | DErr => (acc, false, [])
        end
      else number s
  end.

(* readHeaderList *)
Definition read_header_list : P (list bytes) := ex_list (dec_astring false).

(* readSectionSpec (after "BODY[") including readPartialOffset *)
Definition read_section_spec (s : bytes) : dres section :=
  let '(part, dot, r) := read_part (S (length s)) [] s in
  do sec, r <-
    (if dot || lnil part then
       do spec, r <-
         (if dot then ex_atom r
          else match dec_atom r with DOk a r' => DOk a r' | DNo r' => DOk [] r' | DErr => DErr end);
       let spec := ascii_upper spec in
       if bytes_eqb spec (s2b "HEADER.FIELDS") then
         do _, r <- ex_sp r; do hl, r <- read_header_list r; DOk (mkSec (s2b "HEADER") part hl [] None false) r
       else if bytes_eqb spec (s2b "HEADER.FIELDS.NOT") then
         do _, r <- ex_sp r; do hl, r <- read_header_list r; DOk (mkSec (s2b "HEADER") part [] hl None false) r
       else DOk (mkSec spec part [] [] None false) r
     else DOk (mkSec [] part [] [] None false) r);
  do _, r <- ex_special (ch "]") r;
  match dec_special (ch "<") r with
  | DErr => DErr
  | DNo _ => DOk sec r
  | DOk _ r =>
      do off, r <- ex_number64 r;
      do _, r <- ex_special (ch ">") r;
      DOk (mkSec (sec_spec sec) (sec_part sec) (sec_fields sec) (sec_notfields sec) (Some (Z.of_N off, 0%Z)) false) r
  end.

(* section-binary: "BINARY[" part "]" *)
Definition read_section_binary (s : bytes) : dres (list Z) :=
  let '(part, dot, r) := read_part (S (length s)) [] s in
  if dot then DErr else do _, r <- ex_special (ch "]") r; DOk part r.

(* Decoder.ExpectNStringReader with the payload read in full: None = NIL *)
Definition read_nstring_reader (s : bytes) : dres (option bytes) :=
  match dec_atom s with
  | DOk a r => if bytes_eqb a NILb then DOk None r else DErr
  | DErr => DErr
  | DNo _ =>
      match dec_quoted s with
      | DOk v r => DOk (Some v) r
      | DErr => DErr
      | DNo _ => match dec_literal false s with DOk v r => DOk (Some v) r | _ => DErr end
      end
  end.

(* internal.ExpectDateTime *)
Definition read_datetime (x : ext) (s : bytes) : dres time :=
  match dec_quoted s with
  | DOk v r => match x_parse_idate x v with
               | Some t => if time_is_zero t then DErr else DOk t r
               | None => DErr
               end
  | _ => DErr
  end.

Definition is_msgatt_char (c : byte) : bool := negb (b2n c =? 91) && is_atom_char c.

(* one msg-att of handleFetch's ExpectList callback *)
Definition read_fetch_item (x : ext) (s : bytes) : dres citem :=
  do name, r <- ex (dec_func is_msgatt_char s);
  let name := ascii_upper name in
  let body_structure (extended : bool) (r : bytes) : dres citem :=
    do _, r <- ex_sp r; do bs, r <- read_body (S (length r)) 0 x r; DOk (CBody bs extended) r in
  if bytes_eqb name (s2b "FLAGS") then do _, r <- ex_sp r; do fl, r <- dec_flag_list r; DOk (CFlags fl) r
  else if bytes_eqb name (s2b "ENVELOPE") then do _, r <- ex_sp r; do e, r <- read_envelope x r; DOk (CEnvelope e) r
  else if bytes_eqb name (s2b "INTERNALDATE") then do _, r <- ex_sp r; do t, r <- read_datetime x r; DOk (CIDate t) r
  else if bytes_eqb name (s2b "RFC822.SIZE") then do _, r <- ex_sp r; do n, r <- ex_number64 r; DOk (CSize n) r
  else if bytes_eqb name (s2b "UID") then
    do _, r <- ex_sp r; do n, r <- ex_number r; if n =? 0 then DErr else DOk (CUid n) r
  else if bytes_eqb name (s2b "BODY") then
    match dec_special (ch "[") r with
    | DErr => DErr
    | DNo _ => body_structure false r
    | DOk _ r =>
        do sec, r <- read_section_spec r;
        do _, r <- ex_sp r;
        do lit, r <- read_nstring_reader r;
        DOk (CSection sec lit) r
    end
  else if bytes_eqb name (s2b "BINARY") then
    do _, r <- ex_special (ch "[") r;
    do part, r <- read_section_binary r;
    do _, r <- ex_sp r;
    let r := match dec_special (ch "~") r with DOk _ r' => r' | _ => r end in
    do lit, r <- read_nstring_reader r;
    DOk (CBinary part lit) r
  else if bytes_eqb name (s2b "BODYSTRUCTURE") then body_structure true r
  else if bytes_eqb name (s2b "BINARY.SIZE") then
    do _, r <- ex_special (ch "[") r;
    do part, r <- read_section_binary r;
    do _, r <- ex_sp r;
    do n, r <- ex_number r;
    DOk (CBinSize part n) r
  else if bytes_eqb name (s2b "MODSEQ") then
    do _, r <- ex_sp r; do _, r <- ex_special (ch "(") r; do n, r <- ex (dec_modseq r);
    do _, r <- ex_special (ch ")") r; DOk (CModSeq n) r
  else DErr.

(* handleFetch (after "* n FETCH "): the items in order *)
Definition read_fetch (x : ext) (s : bytes) : dres (list citem) := ex_list (read_fetch_item x) s.
