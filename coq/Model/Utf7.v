(* Model/Utf7.v — executable model of internal/utf7 (modified UTF-7, RFC 3501 5.1.3):
   encoder.go (Transform, encode), decoder.go (Transform, decode), plus the pieces of the Go
   standard library they call: utf8.DecodeRune / EncodeRune, utf16.EncodeRune / DecodeRune /
   IsSurrogate, base64 (custom alphabet, StdPadding, non-strict decoding).
   Byte values and code points are N inside this file; the API at the bottom is on [bytes]. *)
From GoImap.Base Require Import Bytes.
Open Scope N_scope.

Definition MIN7 : N := 32.    (* 0x20 *)
Definition MAX7 : N := 126.   (* 0x7E *)
Definition AMP : N := 38.     (* '&' *)
Definition DASH : N := 45.    (* '-' *)
Definition REPL : N := 65533. (* U+FFFD *)

Definition printable (c : N) : bool := (MIN7 <=? c) && (c <=? MAX7).

(* ---- unicode/utf8 ---- *)
Definition cont (b : N) : bool := (128 <=? b) && (b <=? 191).

(* utf8.DecodeRune: (rune, width); invalid or short input gives (RuneError, 1); [] gives (RuneError, 0) *)
Definition decode_rune (s : list N) : N * nat :=
  match s with
  | [] => (REPL, O)
  | b0 :: r =>
      if b0 <? 128 then (b0, 1%nat)
      else if (194 <=? b0) && (b0 <=? 223) then
        match r with
        | b1 :: _ => if cont b1 then ((b0 - 192) * 64 + (b1 - 128), 2%nat) else (REPL, 1%nat)
        | _ => (REPL, 1%nat)
        end
      else if (224 <=? b0) && (b0 <=? 239) then
        match r with
        | b1 :: b2 :: _ =>
            let lo := if b0 =? 224 then 160 else 128 in
            let hi := if b0 =? 237 then 159 else 191 in
            if (lo <=? b1) && (b1 <=? hi) && cont b2
            then ((b0 - 224) * 4096 + (b1 - 128) * 64 + (b2 - 128), 3%nat) else (REPL, 1%nat)
        | _ => (REPL, 1%nat)
        end
      else if (240 <=? b0) && (b0 <=? 244) then
        match r with
        | b1 :: b2 :: b3 :: _ =>
            let lo := if b0 =? 240 then 144 else 128 in
            let hi := if b0 =? 244 then 143 else 191 in
            if (lo <=? b1) && (b1 <=? hi) && cont b2 && cont b3
            then ((b0 - 240) * 262144 + (b1 - 128) * 4096 + (b2 - 128) * 64 + (b3 - 128), 4%nat)
            else (REPL, 1%nat)
        | _ => (REPL, 1%nat)
        end
      else (REPL, 1%nat)
  end.

Definition is_surrogate (r : N) : bool := (55296 <=? r) && (r <? 57344).   (* D800..DFFF *)

(* utf8.EncodeRune (invalid runes are written as U+FFFD) *)
Definition encode_rune (r : N) : list N :=
  if r <? 128 then [r]
  else if r <? 2048 then [192 + r / 64; 128 + r mod 64]
  else if is_surrogate r || (1114111 <? r) then [239; 191; 189]
  else if r <? 65536 then [224 + r / 4096; 128 + (r / 64) mod 64; 128 + r mod 64]
  else [240 + r / 262144; 128 + (r / 4096) mod 64; 128 + (r / 64) mod 64; 128 + r mod 64].

(* ---- unicode/utf16 ---- *)
(* the UTF-16 code units of a rune as the encoder writes them: utf16.EncodeRune gives a
   surrogate pair for 0x10000..0x10FFFF and (U+FFFD, U+FFFD) otherwise, in which case the
   rune itself is written as one unit (truncated to 16 bits by the byte() conversions) *)
Definition utf16_units (r : N) : list N :=
  if (65536 <=? r) && (r <=? 1114111) then
    let r' := r - 65536 in [55296 + r' / 1024; 56320 + r' mod 1024]
  else [r mod 65536].

Definition unit_bytes (u : N) : list N := [(u / 256) mod 256; u mod 256].

(* ---- encoding/base64 with the modified alphabet "A-Za-z0-9+," ---- *)
Definition b64char (v : N) : N :=
  if v <? 26 then 65 + v
  else if v <? 52 then 97 + (v - 26)
  else if v <? 62 then 48 + (v - 52)
  else if v =? 62 then 43 else 44.

Definition b64val (c : N) : option N :=
  if (65 <=? c) && (c <=? 90) then Some (c - 65)
  else if (97 <=? c) && (c <=? 122) then Some (c - 97 + 26)
  else if (48 <=? c) && (c <=? 57) then Some (c - 48 + 52)
  else if c =? 43 then Some 62
  else if c =? 44 then Some 63
  else None.

(* Encode without the padding (encoder.go strips it) *)
Fixpoint b64_encode (b : list N) : list N :=
  match b with
  | [] => []
  | [x] => [b64char (x / 4); b64char ((x mod 4) * 16)]
  | [x; y] => [b64char (x / 4); b64char ((x mod 4) * 16 + y / 16); b64char ((y mod 16) * 4)]
  | x :: y :: z :: r =>
      b64char (x / 4) :: b64char ((x mod 4) * 16 + y / 16) ::
      b64char ((y mod 16) * 4 + z / 64) :: b64char (z mod 64) :: b64_encode r
  end.

(* Decode of an unpadded string after decoder.go re-pads it: None = CorruptInputError.
   A final group of 2 or 3 characters yields 1 or 2 bytes, trailing bits ignored (non-strict);
   a final group of 1 character is an error (the third pad byte stays NUL). *)
Fixpoint b64_decode (s : list N) : option (list N) :=
  match s with
  | [] => Some []
  | [_] => None
  | [a; b] =>
      match b64val a, b64val b with
      | Some va, Some vb => Some [va * 4 + vb / 16]
      | _, _ => None
      end
  | [a; b; c] =>
      match b64val a, b64val b, b64val c with
      | Some va, Some vb, Some vc => Some [va * 4 + vb / 16; (vb mod 16) * 16 + vc / 4]
      | _, _, _ => None
      end
  | a :: b :: c :: d :: r =>
      match b64val a, b64val b, b64val c, b64val d, b64_decode r with
      | Some va, Some vb, Some vc, Some vd, Some rest =>
          Some (va * 4 + vb / 16 :: (vb mod 16) * 16 + vc / 4 :: (vc mod 4) * 64 + vd :: rest)
      | _, _, _, _, _ => None
      end
  end.

(* ---- encoder.go ---- *)
(* encode(s): UTF-8 -> UTF-16BE -> base64 without padding, between '&' and '-' *)
Fixpoint utf16be_of_utf8 (fuel : nat) (s : list N) : list N :=
  match fuel with
  | O => []
  | S f =>
      match s with
      | [] => []
      | _ =>
          let '(r, size) := decode_rune s in
          flat_map unit_bytes (utf16_units r) ++ utf16be_of_utf8 f (skipn size s)
      end
  end.

Definition encode_run (s : list N) : list N :=
  AMP :: b64_encode (utf16be_of_utf8 (length s) s) ++ [DASH].

(* one-shot encoder: [run] is the pending run of non-printable bytes, reversed *)
Definition flush (run : list N) : list N :=
  match run with [] => [] | _ => encode_run (rev run) end.

Fixpoint enc_loop (s : list N) (run : list N) : list N :=
  match s with
  | [] => flush run
  | c :: r =>
      if printable c then
        flush run ++ (if c =? AMP then [AMP; DASH] else [c]) ++ enc_loop r []
      else enc_loop r (c :: run)
  end.

(* ---- decoder.go ---- *)
(* decode(b64): None = nil slice (invalid) *)
Fixpoint utf8_of_utf16be (fuel : nat) (b : list N) : option (list N) :=
  match fuel with
  | O => None
  | S f =>
      match b with
      | [] => Some []
      | [_] => None
      | h :: l :: rest =>
          let r := h * 256 + l in
          if is_surrogate r then
            match rest with
            | h2 :: l2 :: rest' =>
                let r2 := h2 * 256 + l2 in
                (* utf16.DecodeRune: valid only for a high surrogate followed by a low one *)
                if (55296 <=? r) && (r <? 56320) && (56320 <=? r2) && (r2 <? 57344) then
                  match utf8_of_utf16be f rest' with
                  | Some o => Some (encode_rune ((r - 55296) * 1024 + (r2 - 56320) + 65536) ++ o)
                  | None => None
                  end
                else None
            | _ => None            (* i += 2; i == n *)
            end
          else if printable r then None
          else match utf8_of_utf16be f rest with
               | Some o => Some (encode_rune r ++ o)
               | None => None
               end
      end
  end.

Definition decode_b64 (b64 : list N) : option (list N) :=
  match rev b64 with
  | [] => None                                  (* not called with an empty segment *)
  | last :: _ =>
      if last =? 61 then None                   (* '=' *)
      else match b64_decode b64 with
           | None => None
           | Some b => if Nat.odd (length b) then None else utf8_of_utf16be (S (length b)) b
           end
  end.

Inductive dmode := MDirect (ascii : bool) | MB64 (ascii : bool) (acc : list N).

(* one-shot decoder (atEOF = true, unbounded destination); None = ErrInvalidUTF7 *)
Fixpoint dec_loop (s : list N) (m : dmode) : option (list N) :=
  match s, m with
  | [], MDirect _ => Some []
  | [], MB64 _ _ => None                                   (* implicit shift at EOF *)
  | c :: r, MDirect a =>
      if negb (printable c) then None
      else if c =? AMP then dec_loop r (MB64 a [])
      else option_map (cons c) (dec_loop r (MDirect true))
  | c :: r, MB64 a acc =>
      if c =? DASH then
        match acc with
        | [] => option_map (cons AMP) (dec_loop r (MDirect true))      (* "&-" *)
        | _ =>
            if negb a then None                                        (* null shift *)
            else match decode_b64 (rev acc) with
                 | None | Some [] => None
                 | Some b => option_map (app b) (dec_loop r (MDirect false))
                 end
        end
      else if (c =? 13) || (c =? 10) then None
      else dec_loop r (MB64 a (c :: acc))
  end.

(* ---- API on byte strings ---- *)
Definition utf7_encode (s : bytes) : bytes := map n2b (enc_loop (map b2n s) []).
Definition utf7_decode (t : bytes) : option bytes :=
  option_map (map n2b) (dec_loop (map b2n t) (MDirect true)).
