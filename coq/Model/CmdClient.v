(* Model/CmdClient.v — what imapclient writes for each command: one function per Client method,
   built from the Encoder primitives of Model/Wire.v (enc_string, enc_mailbox, enc_numset,
   enc_flag, ...) under the encoder configuration that beginCommand derives from the
   capabilities (Model/ClientWrite.v).  Go maps are iterated in an unspecified order; the
   writers that range over a map (writeFetchItems, statusItems, returnSearchOptions) take that
   order as the parameter [order] (a list of key indices).                                     *)
From GoImap.Base Require Import Bytes.
From GoImap.Model Require Import NumSet NumSetCorr MatchList Utf7 Wire Search ClientWrite CmdDate CmdTypes.
Open Scope N_scope.

(* client configuration: advertised capabilities, UTF8=ACCEPT enabled, continuation requests *)
Record ccfg := mkCcfg { c_caps : capset; c_utf8 : bool; c_cont : option bool }.
Definition ecfg (c : ccfg) : enc_cfg := client_cfg (c_caps c) (c_utf8 c) (c_cont c).
(* imap.CapSet.Has for MOVE / UIDPLUS (both implied by IMAP4rev2) *)
Definition has_move (s : capset) : bool := cap_in "MOVE" s || has_rev2 s.
Definition has_uidplus (s : capset) : bool := cap_in "UIDPLUS" s || has_rev2 s.

(* ---- output combinators: the encoder keeps its first error and writes nothing after it ---- *)
Definition lit (b : bytes) : eres := Some [SBytes b].
Definition slit (s : string) : eres := lit (s2b s).
Definition nothing : eres := Some [].
Definition cat (a b : eres) : eres :=
  match a, b with Some x, Some y => Some (x ++ y) | _, _ => None end.
Infix "+++" := cat (at level 65, right associativity).
Definition sp : eres := lit [SP_].
Definition CRLF_ : bytes := [CR_; LF_].

Fixpoint join_sp (l : list eres) : eres :=
  match l with
  | [] => nothing
  | [x] => x
  | x :: r => x +++ sp +++ join_sp r
  end.
(* Encoder.List / BeginList..End *)
Definition plist (l : list eres) : eres := slit "(" +++ join_sp l +++ slit ")".

Definition when (b : bool) (e : eres) : eres := if b then e else nothing.

(* the keys of a Go map whose value is true, in iteration order *)
Definition map_items (names : list (bytes * bool)) (order : list nat) : list bytes :=
  flat_map (fun i => match nth_error names i with Some (n, true) => [n] | _ => [] end) order.

(* Encoder.NumSet on an imap.NumSet: the SearchRes marker prints as "$" *)
Definition w_numarg (a : numarg) : eres :=
  match a with NRes => slit "$" | NSet s => enc_numset s end.

(* uidCmdName *)
Definition cmd_name (name : string) (uid : bool) : eres :=
  if uid then lit (s2b "UID " ++ s2b name) else slit name.

(* ---- FETCH (imapclient/fetch.go) ----------------------------------------------------------- *)
(* fmt.Sprintf("%v", int) *)
Definition z_dec (z : Z) : bytes :=
  if (z <? 0)%Z then s2b "-" ++ dec_of_N (Z.to_N (- z)) else dec_of_N (Z.to_N z).
(* writeSectionPart *)
Definition w_part (p : list Z) : bytes := join_with (s2b ".") (map z_dec p).
(* writeSectionPartial *)
Definition w_partial (p : partial) : eres :=
  match p with
  | None => nothing
  | Some (o, n) => slit "<" +++ enc_number64 o +++ slit "." +++ enc_number64 n +++ slit ">"
  end.

(* writeFetchItemBodySection *)
Definition w_body_section (cfg : enc_cfg) (it : fsec) : eres :=
  slit "BODY" +++ when (fs_peek it) (slit ".PEEK") +++ slit "[" +++ lit (w_part (fs_part it)) +++
  when (negb (nilb (fs_part it)) && negb (nilb (fs_spec it))) (slit ".") +++
  (if nilb (fs_spec it) then nothing
   else
     let '(hl, suffix) :=
       if negb (nilb (fs_fields it)) then (fs_fields it, slit ".FIELDS")
       else if negb (nilb (fs_fields_not it)) then (fs_fields_not it, slit ".FIELDS.NOT")
       else ([], nothing) in
     lit (fs_spec it) +++ suffix +++
     when (negb (nilb hl)) (sp +++ plist (map (enc_string cfg) hl))) +++
  slit "]" +++ w_partial (fs_partial it).

(* writeFetchItemBinarySection / writeFetchItemBinarySectionSize *)
Definition w_binary_section (it : fbin) : eres :=
  slit "BINARY" +++ when (fb_peek it) (slit ".PEEK") +++ slit "[" +++ lit (w_part (fb_part it)) +++
  slit "]" +++ w_partial (fb_partial it).
Definition w_binary_size (p : list Z) : eres :=
  slit "BINARY.SIZE[" +++ lit (w_part p) +++ slit "]".

Definition fetch_names (o : fetch_opts) : list (bytes * bool) :=
  [ (s2b "BODY", match fo_bodystructure o with Some false => true | _ => false end);
    (s2b "BODYSTRUCTURE", match fo_bodystructure o with Some true => true | _ => false end);
    (s2b "ENVELOPE", fo_envelope o);
    (s2b "FLAGS", fo_flags o);
    (s2b "INTERNALDATE", fo_internaldate o);
    (s2b "RFC822.SIZE", fo_rfc822size o);
    (s2b "MODSEQ", fo_modseq o) ].

(* writeFetchItems *)
Definition w_fetch_items (cfg : enc_cfg) (uid : bool) (o : fetch_opts) (order : list nat) : eres :=
  plist ((if fo_uid o || uid then [slit "UID"] else []) ++
         map lit (map_items (fetch_names o) order) ++
         map (w_body_section cfg) (fo_sections o) ++
         map w_binary_section (fo_binary o) ++
         map w_binary_size (fo_binsize o)).

(* Client.Fetch *)
Definition w_fetch (cfg : enc_cfg) (uid : bool) (s : numarg) (o : fetch_opts) (order : list nat) : eres :=
  cmd_name "FETCH" uid +++ sp +++ w_numarg s +++ sp +++ w_fetch_items cfg uid o order +++
  when (negb (fo_changedsince o =? 0))
       (slit " (CHANGEDSINCE " +++ lit (dec_of_N (fo_changedsince o)) +++ slit ")").

(* ---- SEARCH (imapclient/search.go) --------------------------------------------------------- *)
(* flagSearchKey: exact match on the five system flags *)
Definition sys_flag_key (f : bytes) : option bytes :=
  if bytes_eqb f (s2b "\Answered") then Some (s2b "ANSWERED")
  else if bytes_eqb f (s2b "\Deleted") then Some (s2b "DELETED")
  else if bytes_eqb f (s2b "\Draft") then Some (s2b "DRAFT")
  else if bytes_eqb f (s2b "\Flagged") then Some (s2b "FLAGGED")
  else if bytes_eqb f (s2b "\Seen") then Some (s2b "SEEN")
  else None.

Definition w_flag_key (un : bool) (f : bytes) : eres :=
  match sys_flag_key f with
  | Some k => lit ((if un then s2b "UN" else []) ++ k)
  | None => (if un then slit "UNKEYWORD " else slit "KEYWORD ") +++ enc_flag f
  end.

(* the header names that have a search key of their own (compared ASCII-case-insensitively) *)
Definition special_hdrs : list bytes := map s2b ["BCC"; "CC"; "FROM"; "SUBJECT"; "TO"]%string.
Definition special_hdr (k : bytes) : bool := existsb (bytes_eqb (ascii_upper k)) special_hdrs.

Definition w_header (cfg : enc_cfg) (kv : bytes * bytes) : eres :=
  (if special_hdr (fst kv) then lit (ascii_upper (fst kv))
   else slit "HEADER " +++ enc_string cfg (fst kv)) +++ sp +++ enc_string cfg (snd kv).

(* one pair of date fields: ON when the second is the day after the first *)
Definition w_dates (cfg : enc_cfg) (ksince kbefore kon : string) (since before : ctime) : list eres :=
  if negb (t_is_zero since) && negb (t_is_zero before) && (t_day before =? t_day since + 1)%Z then
    [lit (s2b kon) +++ sp +++ enc_string cfg (fmt_date (t_day since))]
  else
    (if t_is_zero since then [] else [lit (s2b ksince) +++ sp +++ enc_string cfg (fmt_date (t_day since))]) ++
    (if t_is_zero before then [] else [lit (s2b kbefore) +++ sp +++ enc_string cfg (fmt_date (t_day before))]).

Definition w_modseq (cfg : enc_cfg) (m : option (N * bytes * bytes)) : list eres :=
  match m with
  | None => []
  | Some (n, name, typ) =>
      [slit "MODSEQ" +++
       when (negb (nilb name) && negb (nilb typ)) (sp +++ enc_string cfg name +++ sp +++ lit typ) +++
       sp +++ lit (dec_of_N n)]
  end.

(* writeSearchKey *)
Fixpoint w_key (cfg : enc_cfg) (c : ccrit) : eres :=
  match c with
  | CC seqs uids since before ssince sbefore hdr body text flag notflag larger smaller modseq nots ors =>
      let items :=
        map enc_numset seqs ++
        map (fun u => slit "UID " +++ w_numarg u) uids ++
        w_dates cfg "SINCE" "BEFORE" "ON" since before ++
        w_dates cfg "SENTSINCE" "SENTBEFORE" "SENTON" ssince sbefore ++
        map (w_header cfg) hdr ++
        map (fun s => slit "BODY " +++ enc_string cfg s) body ++
        map (fun s => slit "TEXT " +++ enc_string cfg s) text ++
        map (w_flag_key false) flag ++
        map (w_flag_key true) notflag ++
        (if (0 <? larger)%Z then [slit "LARGER " +++ enc_number64 larger] else []) ++
        (if (0 <? smaller)%Z then [slit "SMALLER " +++ enc_number64 smaller] else []) ++
        w_modseq cfg modseq ++
        map (fun n => slit "NOT " +++ w_key cfg n) nots ++
        map (fun p => slit "OR " +++ w_key cfg (fst p) +++ sp +++ w_key cfg (snd p)) ors in
      slit "(" +++ (match items with [] => slit "ALL" | _ => join_sp items end) +++ slit ")"
  end.

(* searchCriteriaIsASCII *)
Definition is_ascii (s : bytes) : bool := forallb (fun c => b2n c <=? 127) s.
Fixpoint crit_is_ascii (c : ccrit) : bool :=
  match c with
  | CC _ _ _ _ _ _ hdr body text _ _ _ _ _ nots ors =>
      forallb (fun kv => is_ascii (fst kv) && is_ascii (snd kv)) hdr &&
      forallb is_ascii body && forallb is_ascii text &&
      forallb crit_is_ascii nots &&
      forallb (fun p => crit_is_ascii (fst p) && crit_is_ascii (snd p)) ors
  end.

Definition search_names (o : search_opts) : list (bytes * bool) :=
  [ (s2b "MIN", so_min o); (s2b "MAX", so_max o); (s2b "ALL", so_all o); (s2b "COUNT", so_count o);
    (s2b "SAVE", so_save o) ].

(* Client.search *)
Definition w_search (c : ccfg) (uid : bool) (crit : ccrit) (o : search_opts) (order : list nat) : eres :=
  let ret := map_items (search_names o) order in
  cmd_name "SEARCH" uid +++
  when (negb (nilb ret)) (slit " RETURN " +++ plist (map lit ret)) +++ sp +++
  when (negb (has_rev2 (c_caps c)) && negb (c_utf8 c) && negb (crit_is_ascii crit)) (slit "CHARSET UTF-8 ") +++
  w_key (ecfg c) crit.

(* ---- STATUS / LIST (imapclient/status.go, list.go) ---------------------------------------- *)
Definition status_names (o : status_opts) : list (bytes * bool) :=
  [ (s2b "MESSAGES", st_messages o); (s2b "UIDNEXT", st_uidnext o); (s2b "UIDVALIDITY", st_uidvalidity o);
    (s2b "UNSEEN", st_unseen o); (s2b "DELETED", st_deleted o); (s2b "SIZE", st_size o);
    (s2b "APPENDLIMIT", st_appendlimit o); (s2b "DELETED-STORAGE", st_deletedstorage o);
    (s2b "HIGHESTMODSEQ", st_highestmodseq o) ].
Definition w_status_items (o : status_opts) (order : list nat) : eres :=
  plist (map lit (map_items (status_names o) order)).

(* Client.Status *)
Definition w_status (cfg : enc_cfg) (mbox : bytes) (o : status_opts) (order : list nat) : eres :=
  slit "STATUS " +++ enc_mailbox cfg mbox +++ sp +++ w_status_items o order.

(* getSelectOpts / getReturnOpts *)
Definition list_select_opts (o : list_opts) : list bytes :=
  (if lo_sel_subscribed o then [s2b "SUBSCRIBED"] else []) ++
  (if lo_sel_remote o then [s2b "REMOTE"] else []) ++
  (if lo_sel_recursive o then [s2b "RECURSIVEMATCH"] else []) ++
  (if lo_sel_specialuse o then [s2b "SPECIAL-USE"] else []).
Definition list_return_opts (o : list_opts) (order : list nat) : list eres :=
  (if lo_ret_subscribed o then [slit "SUBSCRIBED"] else []) ++
  (if lo_ret_children o then [slit "CHILDREN"] else []) ++
  (match lo_ret_status o with Some st => [slit "STATUS " +++ w_status_items st order] | None => [] end) ++
  (if lo_ret_specialuse o then [slit "SPECIAL-USE"] else []).

(* Client.List: the reference is written by Encoder.Mailbox, the pattern is modified-UTF-7
   encoded like a mailbox name (without the INBOX special case) *)
Definition w_list (cfg : enc_cfg) (ref pattern : bytes) (o : list_opts) (order : list nat) : eres :=
  slit "LIST" +++
  when (negb (nilb (list_select_opts o))) (sp +++ plist (map lit (list_select_opts o))) +++
  sp +++ enc_mailbox cfg ref +++ sp +++ enc_string cfg (utf7_encode pattern) +++
  when (negb (nilb (list_return_opts o order))) (slit " RETURN " +++ plist (list_return_opts o order)).

(* ---- STORE / COPY / MOVE / EXPUNGE ---------------------------------------------------------- *)
(* Client.Store: op 0 = StoreFlagsSet, 1 = Add, 2 = Del; anything else panics *)
Definition w_store (uid : bool) (s : numarg) (op : N) (silent : bool) (flags : list bytes)
                   (unchangedsince : N) : eres :=
  cmd_name "STORE" uid +++ sp +++ w_numarg s +++ sp +++
  when (negb (unchangedsince =? 0)) (slit "(UNCHANGEDSINCE " +++ lit (dec_of_N unchangedsince) +++ slit ") ") +++
  (if op =? 0 then nothing else if op =? 1 then slit "+" else if op =? 2 then slit "-" else None) +++
  slit "FLAGS" +++ when silent (slit ".SILENT") +++ sp +++ plist (map enc_flag flags).

Definition w_copy (cfg : enc_cfg) (name : string) (uid : bool) (s : numarg) (dest : bytes) : eres :=
  cmd_name name uid +++ sp +++ w_numarg s +++ sp +++ enc_mailbox cfg dest.

(* ---- APPEND --------------------------------------------------------------------------------- *)
(* commandEncoder.Literal + the payload the caller then writes *)
Definition w_append_literal (c : ccfg) (payload : bytes) : eres :=
  let n := N.of_nat (length payload) in
  if append_literal_sync (c_caps c) n then
    match c_cont c with
    | Some true => Some [SBytes (s2b "{" ++ dec_of_N n ++ s2b "}" ++ CRLF_); SWait; SBytes payload]
    | _ => None
    end
  else Some [SBytes (s2b "{" ++ dec_of_N n ++ s2b "+}" ++ CRLF_ ++ payload)].

(* the zone of a date-time has a resolution of one minute: other times are sent in UTC *)
Definition append_time (t : ctime) : ctime :=
  if (t_off t mod 60 =? 0)%Z then t else mkT (t_sec t) (t_nsec t) 0.

(* Client.Append *)
Definition w_append (c : ccfg) (mbox : bytes) (flags : list bytes) (t : ctime) (payload : bytes) : eres :=
  slit "APPEND " +++ enc_mailbox (ecfg c) mbox +++ sp +++
  when (negb (nilb flags)) (plist (map enc_flag flags) +++ sp) +++
  when (negb (t_is_zero t)) (enc_string (ecfg c) (fmt_datetime (append_time t)) +++ sp) +++
  w_append_literal c payload.

(* ---- the commands of one API call (without tag and CRLF) ------------------------------------ *)
Definition DELETED : bytes := s2b "\Deleted".

Definition w_req (c : ccfg) (order : list nat) (q : creq) : list eres :=
  let cfg := ecfg c in
  match q with
  | QLogin u p => [slit "LOGIN " +++ enc_string cfg u +++ sp +++ enc_string cfg p]
  | QSelect m ro cs =>
      [(if ro then slit "EXAMINE " else slit "SELECT ") +++ enc_mailbox cfg m +++ when cs (slit " (CONDSTORE)")]
  | QCreate m use =>
      [slit "CREATE " +++ enc_mailbox cfg m +++
       when (negb (nilb use)) (slit " (USE " +++ plist (map enc_mailbox_attr use) +++ slit ")")]
  | QDelete m => [slit "DELETE " +++ enc_mailbox cfg m]
  | QRename a b => [slit "RENAME " +++ enc_mailbox cfg a +++ sp +++ enc_mailbox cfg b]
  | QSubscribe m => [slit "SUBSCRIBE " +++ enc_mailbox cfg m]
  | QUnsubscribe m => [slit "UNSUBSCRIBE " +++ enc_mailbox cfg m]
  | QList r p o => [w_list cfg r p o order]
  | QStatus m o => [w_status cfg m o order]
  | QAppend m f t p => [w_append c m f t p]
  | QExpunge => [slit "EXPUNGE"]
  | QUIDExpunge s => [slit "UID EXPUNGE " +++ w_numarg s]
  | QSearch uid cr o => [w_search c uid cr o order]
  | QFetch uid s o => [w_fetch cfg uid s o order]
  | QStore uid s op si f us => [w_store uid s op si f us]
  | QCopy uid s d => [w_copy cfg "COPY" uid s d]
  | QMove uid s d =>
      if has_move (c_caps c) then [w_copy cfg "MOVE" uid s d]
      else
        (* fallback: [UID] COPY, [UID] STORE +FLAGS.SILENT (\Deleted), [UID] EXPUNGE *)
        [ w_copy cfg "COPY" uid s d;
          w_store uid s 1 true [DELETED] 0;
          if uid && has_uidplus (c_caps c) then slit "UID EXPUNGE " +++ w_numarg s else slit "EXPUNGE" ]
  | QUnselect => [slit "UNSELECT"]
  | QClose => [slit "CLOSE"]
  end.

(* beginCommand ... end: tag SP command CRLF *)
Definition w_line (tag : bytes) (body : eres) : eres := lit tag +++ sp +++ body +++ lit CRLF_.
