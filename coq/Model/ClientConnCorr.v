(* Model/ClientConnCorr.v — C12/C10 correspondence: after a list of events the real client's
   State(), Mailbox() and the outcome of every command's Wait must equal the model's. *)
From GoImap.Base Require Import Bytes.
From GoImap.Model Require Import NumSetCorr MatchList ClientConn.
Open Scope N_scope.

(* observation: state, mailbox (None or (name, num, flags, perm)), completions sorted by tag *)
Definition cobs := (N * option (N * N * list N * list N) * list (N * N))%type.

Fixpoint insert_sorted (x : N * N) (l : list (N * N)) : list (N * N) :=
  match l with
  | [] => [x]
  | y :: r => if fst x <=? fst y then x :: l else y :: insert_sorted x r
  end.
Definition sort_done (l : list (N * N)) : list (N * N) := fold_right insert_sorted [] l.

Definition observe (c : client) : cobs :=
  (c_state c,
   match c_mbox c with Some m => Some (mb_name m, mb_num m, mb_flags m, mb_perm m) | None => None end,
   sort_done (c_done c)).

Definition pair_eqb (a b : N * N) : bool := (fst a =? fst b) && (snd a =? snd b).
Definition cobs_eqb (a b : cobs) : bool :=
  let '(s1, m1, d1) := a in let '(s2, m2, d2) := b in
  (s1 =? s2) &&
  match m1, m2 with
  | None, None => true
  | Some (n1, k1, f1, p1), Some (n2, k2, f2, p2) =>
      (n1 =? n2) && (k1 =? k2) && list_eqb N.eqb f1 f2 && list_eqb N.eqb p1 p2
  | _, _ => false
  end && list_eqb pair_eqb d1 d2.

(* a case: steps of (events, observation after them) *)
Definition cc_case := list (list cev * cobs).
Fixpoint cc_run (c : client) (steps : cc_case) : bool :=
  match steps with
  | [] => true
  | (evs, o) :: rest =>
      let c' := fold_left step evs c in
      cobs_eqb (observe c') o && cc_run c' rest
  end.
Definition cc_ok (steps : cc_case) : bool := cc_run init_client steps.
Definition cc_mismatches (cs : list cc_case) : list N := idx_filter cc_ok 0 cs.

(* data delivery: all events of a script and, for every data-collecting command, what its
   Collect/Wait returned *)
Definition cd_case := (list cev * list (N * list N))%type.
Definition cd_ok (c : cd_case) : bool :=
  let '(evs, obs) := c in
  forallb (fun o => list_eqb N.eqb (collected evs (fst o)) (snd o)) obs.
Definition cd_mismatches (cs : list cd_case) : list N := idx_filter cd_ok 0 cs.
