(* Model/MemView.v — executable model of the in-memory backend as seen through message
   identity (C08): imapserver/imapmemserver/{mailbox.go,session.go}, the per-command
   plumbing of imapserver/{conn.go,select.go,append.go,fetch.go,store.go,search.go,copy.go,
   move.go,expunge.go,idle.go} that decides WHICH untagged responses are written and WHEN
   Conn.poll runs, on top of the tracker model (Model/Tracker.v = imapserver/tracker.go).

   A mailbox is its ordered list of messages (UID, \Deleted flag), uidNext and its
   MailboxTracker; a connection is (selected mailbox, idling?, selected read-only?: the
   MailboxView.readOnly that UserSession.Select copies from SelectOptions.ReadOnly, i.e.
   EXAMINE instead of SELECT).  The SessionTracker of
   connection c has id c.  Every command yields the list of wire events written to the
   issuing connection, in order; connections that are idling are flushed after every step
   (SessionTracker.Idle polls with allowExpunge=true whenever an update is queued; the
   stream a connection receives is the same whether the flush happens at once or when the
   client sends DONE, and the stream is all that is compared or reasoned about).

   Not modelled: message contents, flags other than \Deleted (a FETCH of BODY[] sets \Seen
   unless the view is read-only: only the flag update it queues is modelled), LOGIN (all connections are authenticated),
   mailbox creation/deletion (the set of mailboxes is fixed), uint32 wrap of UIDs.
   The ghost fields of the tracker model (t_L, s_view: message identities, here = UIDs) are
   carried along and copied into the ghost argument of EvExists; nothing that is compared
   with the real server reads them.                                                        *)
From GoImap.Base Require Import Bytes.
From GoImap.Model Require Import NumSet Tracker.
Open Scope N_scope.

Record msg := mkMsg { m_uid : N; m_del : bool }.
Record mbox := mkMb { mb_msgs : list msg; mb_next : N (* uidNext *); mb_tr : tracker }.
Record conn := mkConn { c_sel : option N (* index of the selected mailbox *); c_idle : bool;
                        c_ro : bool (* MailboxView.readOnly: opened with EXAMINE *) }.
Record sys := mkSys { s_mbs : list mbox; s_conns : list conn;
                      s_crash : bool (* a tracker guard panicked (sticky) *) }.

Inductive status := StOK | StNO | StBAD.
Inductive rdata := DNone | DAppendUid (u : N) | DCopyUid (src dst : list N).

(* what is written to a connection *)
Inductive ev :=
| EvExists (n : N) (ids : list N)               (* * n EXISTS; ids is ghost (not on the wire): the
                                                   UIDs of the messages this response announces *)
| EvExpunge (n : N)                             (* * n EXPUNGE *)
| EvFetch (n uid : N) (del : option bool)       (* * n FETCH (UID uid [FLAGS (...)] ...) *)
| EvSearch (uidk : bool) (nums : list N)        (* * SEARCH ... / * ESEARCH ... ALL ... *)
| EvClosed                                      (* * OK [CLOSED] *)
| EvUidNext (n : N)                             (* * OK [UIDNEXT n] (SELECT) *)
| EvCopyUid (src dst : list N)                  (* * OK [COPYUID v src dst] (MOVE) *)
| EvFlags                                       (* * FLAGS (...) from a tracker update: never queued by this backend *)
| EvCont                                        (* + idling *)
| EvDone (st : status) (d : rdata).             (* tagged completion *)

Inductive sop := SDel | SUndel | SKeep.         (* what a STORE does to \Deleted *)

Inductive cmd :=
| CAppend (mb : N) (del : bool)
| CSelect (mb : N) (ro : bool)                  (* SELECT (ro = false) / EXAMINE (ro = true) *)
| CUnselect | CClose
| CNoop                                         (* NOOP / CHECK *)
| CIdle | CDone
| CFetch (uidk : bool) (s : nset) (wflags seen : bool)   (* seen: a non-PEEK body section *)
| CStore (uidk : bool) (s : nset) (o : sop) (silent : bool)
| CExpunge | CUidExpunge (s : nset)
| CCopy (uidk : bool) (s : nset) (dest : N)
| CMove (uidk : bool) (s : nset) (dest : N)
| CSearch (uidk : bool) (sq uq : option nset) (dq : option bool)
| CBad.                                         (* a line the command parser rejects *)

(* ---- small helpers ------------------------------------------------------------------ *)
Definition get {A} (l : list A) (i : N) : option A := nth_error l (N.to_nat i).
Fixpoint set_nth {A} (l : list A) (i : nat) (x : A) : list A :=
  match l, i with
  | [], _ => []
  | _ :: r, O => x :: r
  | y :: r, S i' => y :: set_nth r i' x
  end.
Definition put {A} (l : list A) (i : N) (x : A) : list A := set_nth l (N.to_nat i) x.
Definition len {A} (l : list A) : N := N.of_nat (length l).
(* drop the k-th element, 1-based; k out of range: unchanged (Tracker.remove_at, any type) *)
Fixpoint drop_at {A} (k : nat) (l : list A) : list A :=
  match k, l with
  | _, [] => []
  | O, _ => l
  | S O, _ :: r => r
  | S k', x :: r => x :: drop_at k' r
  end.

(* Set.Contains on the set staticNumSet built (binary search, transcribed in Model/NumSet.v;
   it cannot index out of range, the None branch is dead) *)
Definition has (s : nset) (q : N) : bool :=
  match contains s q with Some b => b | None => false end.

(* staticNumRange / staticNumSet (mailbox.go) *)
Definition static_range (mx : N) (r : range) : range :=
  let '(a, b) := r in
  let dyn := (a =? 0) || (b =? 0) in
  let a' := if a =? 0 then mx else a in
  let b' := if b =? 0 then mx else b in
  if dyn && (b' <? a') then (b', a') else (a', b').
(* the static ranges are inserted into a fresh set with AddRange (a canonical set again);
   add_range's None is the unreachable index panic of Model/NumSet.v *)
Definition static_set (mx : N) (s : nset) : nset :=
  fold_left (fun acc r => let '(a, b) := static_range mx r in
                          match add_range acc a b with Some x => x | None => acc end) s [].
(* "*" is the number of messages, resp. the UID of the last message (uidNext-1 if none) *)
Definition uid_max (mb : mbox) : N :=
  match rev (mb_msgs mb) with m :: _ => m_uid m | [] => mb_next mb - 1 end.
Definition static_for (uidk : bool) (mb : mbox) (s : nset) : nset :=
  static_set (if uidk then uid_max mb else len (mb_msgs mb)) s.

(* imap.SeqSet/UIDSet built with AddNum and enumerated with Nums: ascending, no repeats *)
Fixpoint ins_sorted (x : N) (l : list N) : list N :=
  match l with
  | [] => [x]
  | y :: r => if x <? y then x :: l else if x =? y then l else y :: ins_sorted x r
  end.
Definition sort_nums (l : list N) : list N := fold_left (fun acc x => ins_sorted x acc) l [].

Definition flag_tok (m : msg) : N := if m_del m then 1 else 0.
Definition apply_sop (o : sop) (m : msg) : msg :=
  match o with
  | SDel => mkMsg (m_uid m) true
  | SUndel => mkMsg (m_uid m) false
  | SKeep => m
  end.

(* ---- mailbox level --------------------------------------------------------------------- *)
Definition with_tr (mb : mbox) (t : tracker) : mbox := mkMb (mb_msgs mb) (mb_next mb) t.

(* a MailboxTracker/SessionTracker call that writes nothing; true = it panicked *)
Definition mb_do (mb : mbox) (o : op) : mbox * bool :=
  match step (mb_tr mb) o with
  | (_, OutCrash) => (mb, true)
  | (t', _) => (with_tr mb t', false)
  end.

(* SessionTracker.EncodeSeqNum for the session of connection sid *)
Definition enc (mb : mbox) (sid : N) (p : N) : N :=
  match find_sess sid (t_sess (mb_tr mb)) with
  | Some s => encode (mb_tr mb) s p
  | None => 0
  end.

(* the membership test of MailboxView.forEachLocked *)
Definition selected (uidk : bool) (s : nset) (e uid : N) : bool :=
  if uidk then has s uid else negb (e =? 0) && has s e.

(* Mailbox.appendBytes *)
Definition mb_append (mb : mbox) (del : bool) : mbox * N * bool :=
  let uid := mb_next mb in
  let msgs' := mb_msgs mb ++ [mkMsg uid del] in
  let '(mb', cr) := mb_do (mkMb msgs' (uid + 1) (mb_tr mb)) (OQueueNum (len msgs')) in
  (mb', uid, cr).

(* MailboxView.Fetch: forEach + the callback; ms = the not yet visited messages, p = the
   server-side sequence number of the first of them *)
Fixpoint fetch_loop (uidk wflags seen : bool) (s : nset) (sid : N) (ms : list msg) (p : N)
                    (mb : mbox) : mbox * list ev * bool :=
  match ms with
  | [] => (mb, [], false)
  | m :: r =>
      let e := enc mb sid p in
      if selected uidk s e (m_uid m) && negb (e =? 0) then
        let '(mb1, c1) := if seen then mb_do mb (OQueueMsgFlags p (m_uid m) (flag_tok m) None)
                          else (mb, false) in
        let '(mb2, evs, c2) := fetch_loop uidk wflags seen s sid r (p + 1) mb1 in
        (mb2, EvFetch e (m_uid m) (if wflags then Some (m_del m) else None) :: evs, c1 || c2)
      else fetch_loop uidk wflags seen s sid r (p + 1) mb
  end.
Definition mb_fetch (uidk wflags seen : bool) (s : nset) (sid : N) (mb : mbox) : mbox * list ev * bool :=
  fetch_loop uidk wflags seen (static_for uidk mb s) sid (mb_msgs mb) 1 mb.

(* MailboxView.Store, first half: forEach + msg.store + QueueMessageFlags(source = own) *)
Fixpoint store_loop (uidk : bool) (s : nset) (o : sop) (sid : N) (ms : list msg) (p : N)
                    (mb : mbox) : list msg * mbox * bool :=
  match ms with
  | [] => ([], mb, false)
  | m :: r =>
      if selected uidk s (enc mb sid p) (m_uid m) then
        let m' := apply_sop o m in
        let '(mb1, c1) := mb_do mb (OQueueMsgFlags p (m_uid m) (flag_tok m') (Some sid)) in
        let '(r', mb2, c2) := store_loop uidk s o sid r (p + 1) mb1 in
        (m' :: r', mb2, c1 || c2)
      else
        let '(r', mb2, c2) := store_loop uidk s o sid r (p + 1) mb in
        (m :: r', mb2, c2)
  end.
Definition mb_store (uidk : bool) (s : nset) (o : sop) (sid : N) (mb : mbox) : mbox * bool :=
  let '(ms', mb1, c) := store_loop uidk (static_for uidk mb s) o sid (mb_msgs mb) 1 mb in
  (mkMb ms' (mb_next mb1) (mb_tr mb1), c).

(* the messages a COPY/MOVE snapshots *)
Fixpoint pick_loop (uidk : bool) (s : nset) (sid : N) (ms : list msg) (p : N) (mb : mbox) : list msg :=
  match ms with
  | [] => []
  | m :: r =>
      if selected uidk s (enc mb sid p) (m_uid m) then m :: pick_loop uidk s sid r (p + 1) mb
      else pick_loop uidk s sid r (p + 1) mb
  end.
Definition mb_pick (uidk : bool) (s : nset) (sid : N) (mb : mbox) : list msg :=
  pick_loop uidk (static_for uidk mb s) sid (mb_msgs mb) 1 mb.

(* Mailbox.copySnapshot for every snapshot, in order *)
Fixpoint mb_append_all (mb : mbox) (ms : list msg) : mbox * list N * bool :=
  match ms with
  | [] => (mb, [], false)
  | m :: r =>
      let '(mb1, uid, c1) := mb_append mb (m_del m) in
      let '(mb2, uids, c2) := mb_append_all mb1 r in
      (mb2, uid :: uids, c1 || c2)
  end.

(* Mailbox.expungeLocked: from the last message down to the first; a message that goes is
   dropped from the list and QueueExpunge gets its current sequence number.
   rms = the not yet visited messages, last first; p = sequence number of the first of rms *)
Fixpoint expunge_loop (gone : msg -> bool) (rms : list msg) (p : N) (mb : mbox) : mbox * bool :=
  match rms with
  | [] => (mb, false)
  | m :: r =>
      if gone m then
        let '(mb1, c1) := mb_do (mkMb (drop_at (N.to_nat p) (mb_msgs mb)) (mb_next mb) (mb_tr mb))
                                (OQueueExpunge p) in
        let '(mb2, c2) := expunge_loop gone r (p - 1) mb1 in
        (mb2, c1 || c2)
      else expunge_loop gone r (p - 1) mb
  end.
Definition mb_expunge (gone : msg -> bool) (mb : mbox) : mbox * bool :=
  expunge_loop gone (rev (mb_msgs mb)) (len (mb_msgs mb)) mb.

(* MailboxView.Search *)
Definition opt_has (uidk : bool) (mb : mbox) (q : option nset) (x : N) : bool :=
  match q with None => true | Some s => has (static_for uidk mb s) x end.
Fixpoint search_loop (uidk : bool) (sq uq : option nset) (dq : option bool) (sid : N)
                     (ms : list msg) (p : N) (mb : mbox) : list N :=
  match ms with
  | [] => []
  | m :: r =>
      let e := enc mb sid p in
      let rest := search_loop uidk sq uq dq sid r (p + 1) mb in
      let ok := match sq with None => true | Some _ => negb (e =? 0) && opt_has false mb sq e end
                && opt_has true mb uq (m_uid m)
                && match dq with None => true | Some d => Bool.eqb d (m_del m) end in
      if ok then (if uidk then m_uid m :: rest else if e =? 0 then rest else e :: rest) else rest
  end.
Definition mb_search (uidk : bool) (sq uq : option nset) (dq : option bool) (sid : N) (mb : mbox) : list N :=
  sort_nums (search_loop uidk sq uq dq sid (mb_msgs mb) 1 mb).

(* ---- system level ------------------------------------------------------------------------ *)
Definition put_mb (st : sys) (m : N) (mb : mbox) (cr : bool) : sys :=
  mkSys (put (s_mbs st) m mb) (s_conns st) (s_crash st || cr).
Definition put_conn (st : sys) (c : N) (cn : conn) : sys :=
  mkSys (s_mbs st) (put (s_conns st) c cn) (s_crash st).

(* the mailbox connection c has selected *)
Definition sel_of (st : sys) (c : N) : option (N * mbox) :=
  match get (s_conns st) c with
  | Some cn => match c_sel cn with
               | Some m => match get (s_mbs st) m with Some mb => Some (m, mb) | None => None end
               | None => None
               end
  | None => None
  end.

Definition upd_ev (u : upd) : ev :=
  match u with
  | UExpunge k => EvExpunge k
  | UExists _ n ids => EvExists n ids
  | UMboxFlags _ => EvFlags
  | UFetch sq uid f => EvFetch sq uid (Some (negb (f =? 0)))
  end.

(* Conn.poll -> UserSession.Poll -> SessionTracker.Poll *)
Definition sys_poll (st : sys) (c : N) (allow : bool) : sys * list ev :=
  match sel_of st c with
  | None => (st, [])
  | Some (m, mb) =>
      match step (mb_tr mb) (OPoll c allow) with
      | (t', OutPoll em) => (put_mb st m (with_tr mb t') false, map upd_ev em)
      | (_, OutCrash) => (put_mb st m mb true, [])
      | (_, OutNone) => (st, [])
      end
  end.

(* MailboxView.readOnly of the view connection c has (false when it has none) *)
Definition ro_of (st : sys) (c : N) : bool :=
  match get (s_conns st) c with Some cn => c_ro cn | None => false end.

(* UserSession.Unselect / Close: SessionTracker.Close *)
Definition sys_unselect (st : sys) (c : N) : sys :=
  match sel_of st c with
  | None => st
  | Some (m, mb) =>
      let '(mb', cr) := mb_do mb (OClose c) in
      put_conn (put_mb st m mb' cr) c (mkConn None false false)
  end.

Definition done (s : status) : list ev := [EvDone s DNone].

(* the handler of one command on a connection that is not idling *)
Definition handle_cmd (st : sys) (c : N) (cm : cmd) : sys * list ev :=
  match cm with
  | CBad => (st, done StBAD)
  | CDone => (st, [])                        (* DONE outside IDLE: not generated *)
  | CNoop =>
      let '(st1, evs) := sys_poll st c true in (st1, evs ++ done StOK)
  | CIdle => (put_conn st c (mkConn (match get (s_conns st) c with Some cn => c_sel cn | None => None end) true
                                    (ro_of st c)),
              [EvCont])
  | CAppend m del =>
      match get (s_mbs st) m with
      | None => (st, done StNO)
      | Some mb =>
          let '(mb', uid, cr) := mb_append mb del in
          let '(st1, evs) := sys_poll (put_mb st m mb' cr) c true in
          (st1, evs ++ [EvDone StOK (DAppendUid uid)])
      end
  | CSelect m ro =>
      let '(st1, evs1) := match sel_of st c with
                          | Some _ => (sys_unselect st c, [EvClosed])
                          | None => (st, [])
                          end in
      match get (s_mbs st1) m with
      | None => (st1, evs1 ++ done StNO)
      | Some mb =>
          let '(mb', cr) := mb_do mb (ONewSession c) in
          (put_conn (put_mb st1 m mb' cr) c (mkConn (Some m) false ro),
           evs1 ++ [EvExists (len (mb_msgs mb)) (t_L (mb_tr mb)); EvUidNext (mb_next mb)] ++ done StOK)
      end
  | CUnselect =>
      match sel_of st c with
      | None => (st, done StBAD)
      | Some _ => (sys_unselect st c, done StOK)
      end
  | CClose =>
      match sel_of st c with
      | None => (st, done StBAD)
      | Some (m, mb) =>
          (* Conn.handleUnselect: session.Expunge(w, nil), which MailboxView.Expunge turns into
             nothing on a read-only view, then session.Unselect *)
          if ro_of st c then (sys_unselect st c, done StOK)
          else
            let '(mb', cr) := mb_expunge m_del mb in
            (sys_unselect (put_mb st m mb' cr) c, done StOK)
      end
  | CFetch uidk s wflags seen =>
      match sel_of st c with
      | None => (st, done StBAD)
      | Some (m, mb) =>
          (* markSeen: a non-PEEK body section and the view is not read-only *)
          let '(mb', evs, cr) := mb_fetch uidk wflags (seen && negb (ro_of st c)) s c mb in
          let '(st1, pevs) := sys_poll (put_mb st m mb' cr) c uidk in
          (st1, evs ++ pevs ++ done StOK)
      end
  | CStore uidk s o silent =>
      match sel_of st c with
      | None => (st, done StBAD)
      | Some (m, mb) =>
          if ro_of st c then (st, done StNO)      (* errReadOnly: no poll after a failed command *)
          else
            let '(mb1, c1) := mb_store uidk s o c mb in
            let '(mb2, evs, c2) := if silent then (mb1, [], false)
                                   else mb_fetch uidk true false s c mb1 in
            let '(st1, pevs) := sys_poll (put_mb st m mb2 (c1 || c2)) c uidk in
            (st1, evs ++ pevs ++ done StOK)
      end
  | CExpunge =>
      match sel_of st c with
      | None => (st, done StBAD)
      | Some (m, mb) =>
          (* MailboxView.Expunge(w, nil) on a read-only view: nil, nothing removed; the command
             completes (poll, OK) *)
          if ro_of st c then
            let '(st1, pevs) := sys_poll st c true in (st1, pevs ++ done StOK)
          else
            let '(mb', cr) := mb_expunge m_del mb in
            let '(st1, pevs) := sys_poll (put_mb st m mb' cr) c true in
            (st1, pevs ++ done StOK)
      end
  | CUidExpunge s =>
      match sel_of st c with
      | None => (st, done StBAD)
      | Some (m, mb) =>
          if ro_of st c then (st, done StNO)      (* MailboxView.Expunge(w, uids): errReadOnly *)
          else
            let '(mb', cr) := mb_expunge (fun x => m_del x && has (static_for true mb s) (m_uid x)) mb in
            let '(st1, pevs) := sys_poll (put_mb st m mb' cr) c true in
            (st1, pevs ++ done StOK)
      end
  | CCopy uidk s d =>
      match sel_of st c with
      | None => (st, done StBAD)
      | Some (m, mb) =>
          match get (s_mbs st) d with
          | None => (st, done StNO)
          | Some dmb =>
              if d =? m then (st, done StNO)
              else
                let picked := mb_pick uidk s c mb in
                let '(dmb', duids, cr) := mb_append_all dmb picked in
                let '(st1, pevs) := sys_poll (put_mb st d dmb' cr) c true in
                (st1, pevs ++ [EvDone StOK (match picked with [] => DNone
                                            | _ => DCopyUid (map m_uid picked) duids end)])
          end
      end
  | CMove uidk s d =>
      match sel_of st c with
      | None => (st, done StBAD)
      | Some (m, mb) =>
          if ro_of st c then (st, done StNO)      (* UserSession.Move: errReadOnly comes first *)
          else
          match get (s_mbs st) d with
          | None => (st, done StNO)
          | Some dmb =>
              if d =? m then (st, done StNO)
              else
                let picked := mb_pick uidk s c mb in
                let '(dmb', duids, c1) := mb_append_all dmb picked in
                let '(mb', c2) := mb_expunge (fun x => existsb (fun y => m_uid y =? m_uid x) picked) mb in
                let '(st1, pevs) := sys_poll (put_mb (put_mb st d dmb' c1) m mb' c2) c true in
                (st1, match picked with [] => [] | _ => [EvCopyUid (map m_uid picked) duids] end
                      ++ pevs ++ done StOK)
          end
      end
  | CSearch uidk sq uq dq =>
      match sel_of st c with
      | None => (st, done StBAD)
      | Some (m, mb) =>
          let nums := mb_search uidk sq uq dq c mb in
          let '(st1, pevs) := sys_poll st c uidk in
          (st1, [EvSearch uidk nums] ++ pevs ++ done StOK)
      end
  end.

(* Conn.handleIdle: while idling the only acceptable line is DONE; then the usual poll *)
Definition handle (st : sys) (c : N) (cm : cmd) : sys * list ev :=
  match get (s_conns st) c with
  | None => (st, [])
  | Some cn =>
      if c_idle cn then
        let st0 := put_conn st c (mkConn (c_sel cn) false (c_ro cn)) in
        match cm with
        | CDone => let '(st1, evs) := sys_poll st0 c true in (st1, evs ++ done StOK)
        | _ => (st0, done StBAD)
        end
      else handle_cmd st c cm
  end.

(* SessionTracker.Idle of every idling connection *)
Fixpoint flush_idle (st : sys) (cs : list N) : sys * list (N * ev) :=
  match cs with
  | [] => (st, [])
  | c :: r =>
      match get (s_conns st) c with
      | Some cn =>
          if c_idle cn then
            let '(st1, evs) := sys_poll st c true in
            let '(st2, l) := flush_idle st1 r in
            (st2, map (pair c) evs ++ l)
          else flush_idle st r
      | None => flush_idle st r
      end
  end.
Definition conn_ids (st : sys) : list N := map N.of_nat (seq 0 (length (s_conns st))).

Definition sys_step (st : sys) (c : N) (cm : cmd) : sys * list (N * ev) :=
  let '(st1, evs) := handle st c cm in
  let '(st2, l) := flush_idle st1 (conn_ids st1) in
  (st2, map (pair c) evs ++ l).

(* NewMailbox: NewMailboxTracker(0), uidNext 1.  The tracker model's ghost identities are made
   to start at 1 as well, so that the identity it gives a message is the message's UID. *)
Definition empty_mbox : mbox := mkMb [] 1 (mkT 0 [] 1 []).
Definition sys_init (nmb nconn : N) : sys :=
  mkSys (repeat empty_mbox (N.to_nat nmb)) (repeat (mkConn None false false) (N.to_nat nconn)) false.

(* a history: who sent what, one command at a time *)
Fixpoint sys_run (st : sys) (h : list (N * cmd)) : sys * list (N * ev) :=
  match h with
  | [] => (st, [])
  | (c, cm) :: r =>
      let '(st1, l1) := sys_step st c cm in
      let '(st2, l2) := sys_run st1 r in
      (st2, l1 ++ l2)
  end.

(* the stream one connection receives *)
Definition stream_of (c : N) (l : list (N * ev)) : list ev :=
  map snd (filter (fun x => fst x =? c) l).
