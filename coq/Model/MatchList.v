(* Model/MatchList.v — executable model of imapserver.MatchList / matchList (imapserver/list.go).
   Strings are byte lists; the delimiter is the UTF-8 encoding of the rune passed by the caller
   ([] = no delimiter).                                                                        *)
From GoImap.Base Require Import Bytes.
Open Scope N_scope.

Fixpoint has_prefix (p s : bytes) : bool :=          (* strings.HasPrefix(s, p) *)
  match p, s with
  | [], _ => true
  | x :: p', y :: s' => beqb x y && has_prefix p' s'
  | _ :: _, [] => false
  end.
Definition trim_prefix (p s : bytes) : bytes :=      (* strings.TrimPrefix(s, p) *)
  if has_prefix p s then skipn (length p) s else s.
Definition has_suffix (p s : bytes) : bool := has_prefix (rev p) (rev s).
Definition is_nil (s : bytes) : bool := match s with [] => true | _ => false end.

Definition STAR : byte := ch "*".
Definition PCT : byte := ch "%".
Definition is_wild (c : byte) : bool := beqb c STAR || beqb c PCT.

(* i := strings.IndexAny(pattern, "*%"); chunk, wildcard, rest := pattern[:i], pattern[i], pattern[i+1:] *)
Fixpoint split_wild (pat : bytes) : option (bytes * byte * bytes) :=
  match pat with
  | [] => None
  | c :: r =>
      if is_wild c then Some ([], c, r)
      else match split_wild r with
           | None => None
           | Some (chunk, w, rest) => Some (c :: chunk, w, rest)
           end
  end.

(* the expansion loop:
     for j = 0; j < len(name); j++ {
        if wildcard == '%' && delim != "" && strings.HasPrefix(name[j:], delim) { break }
        if matchList(name[j:], delim, rest) { return true }
     }
     return matchList(name[j:], delim, rest)                                              *)
Fixpoint expand (rec : bytes -> option bool) (pct : bool) (delim name : bytes) : option bool :=
  match name with
  | [] => rec []
  | _ :: name' =>
      if pct && negb (is_nil delim) && has_prefix delim name then rec name
      else match rec name with
           | None => None
           | Some true => Some true
           | Some false => expand rec pct delim name'
           end
  end.

(* matchList; fuel bounds the recursion on ever shorter pattern suffixes; None = out of fuel *)
Fixpoint match_list (fuel : nat) (name delim pat : bytes) : option bool :=
  match split_wild pat with
  | None => Some (bytes_eqb name pat)
  | Some (chunk, w, rest) =>
      match fuel with
      | O => None
      | S f =>
          if negb (is_nil chunk) && negb (has_prefix chunk name) then Some false
          else expand (fun n => match_list f n delim rest) (beqb w PCT) delim (trim_prefix chunk name)
      end
  end.

(* MatchList *)
Definition match_list_top (name delim ref pat : bytes) : option bool :=
  let '(ref, pat) :=
    if negb (is_nil delim) && has_prefix delim pat then ([], trim_prefix delim pat) else (ref, pat) in
  if is_nil ref then match_list (S (length pat)) name delim pat
  else
    let ref := if negb (is_nil delim) && negb (has_suffix delim ref) then ref ++ delim else ref in
    if negb (has_prefix ref name) then Some false
    else match_list (S (length pat)) (trim_prefix ref name) delim pat.

(* ---- correspondence ---- *)
Fixpoint idx_filter {A} (f : A -> bool) (i : N) (l : list A) : list N :=
  match l with
  | [] => []
  | x :: r => if f x then idx_filter f (i + 1) r else i :: idx_filter f (i + 1) r
  end.
(* case: (name, delim, ref, pattern, result of the real MatchList) *)
Definition ml_case := (bytes * bytes * bytes * bytes * bool)%type.
Definition ml_ok (c : ml_case) : bool :=
  let '(name, delim, ref, pat, r) := c in
  match match_list_top name delim ref pat with Some b => Bool.eqb b r | None => false end.
Definition ml_mismatches (cs : list ml_case) : list N := idx_filter ml_ok 0 cs.
(* compact form for exhaustive enumerations: one (delim, ref) with many (name, pattern, result) *)
Definition ml_group := (bytes * bytes * list (bytes * bytes * bool))%type.
Definition ml_group_bad (g : ml_group) : N :=
  let '(delim, ref, l) := g in
  N.of_nat (length (filter (fun x : bytes * bytes * bool =>
      let '(name, pat, r) := x in negb (ml_ok (name, delim, ref, pat, r))) l)).
