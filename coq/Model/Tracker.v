(* Model/Tracker.v — executable model of imapserver/tracker.go (MailboxTracker, SessionTracker).
   The state carries ghost fields (message identities: the mailbox's true message list, each
   client's view, the identities an EXISTS update announces) next to the fields of the Go
   structs; no observable (poll output, Decode/EncodeSeqNum results, panics) reads a ghost
   field.                                                                                   *)
From GoImap.Base Require Import Bytes.
Open Scope N_scope.

Inductive upd :=
| UExpunge (k : N)
| UExists (prev n : N) (ids : list N)      (* prev = count before; ids ghost *)
| UMboxFlags (f : N)                        (* f: token standing for the flag list *)
| UFetch (seq uid f : N).

Record sess := mkSess { s_id : N; s_view : list N (* ghost *); s_queue : list upd }.

Record tracker := mkT {
  t_n : N;                 (* MailboxTracker.numMessages *)
  t_L : list N;            (* ghost: identities of the messages, in order *)
  t_next : N;              (* ghost: next fresh identity *)
  t_sess : list sess
}.

Inductive op :=
| ONewSession (sid : N)
| OClose (sid : N)
| OQueueNum (n : N)
| OQueueExpunge (k : N)
| OQueueMboxFlags (f : N)
| OQueueMsgFlags (seq uid f : N) (src : option N)
| OPoll (sid : N) (allow : bool).

Inductive out := OutNone | OutCrash | OutPoll (emitted : list upd).

Fixpoint fresh (from : N) (k : nat) : list N :=
  match k with O => [] | S k' => from :: fresh (from + 1) k' end.

Definition init (n0 : N) : tracker :=
  mkT n0 (fresh 0 (N.to_nat n0)) n0 [].

(* remove the k-th element, 1-based; k out of range: unchanged *)
Fixpoint remove_at (k : nat) (l : list N) : list N :=
  match k, l with
  | _, [] => []
  | O, _ => l
  | S O, _ :: r => r
  | S k', x :: r => x :: remove_at k' r
  end.

Definition push_all (u : upd) (skip : option N) (ss : list sess) : list sess :=
  map (fun s => match skip with
                | Some id => if s_id s =? id then s else mkSess (s_id s) (s_view s) (s_queue s ++ [u])
                | None => mkSess (s_id s) (s_view s) (s_queue s ++ [u])
                end) ss.

(* what a client does with an update it receives *)
Definition apply_upd (v : list N) (u : upd) : list N :=
  match u with
  | UExpunge k => remove_at (N.to_nat k) v
  | UExists _ _ ids => v ++ ids
  | _ => v
  end.

Definition is_expunge (u : upd) : bool := match u with UExpunge _ => true | _ => false end.

(* SessionTracker.Poll: (emitted, remaining) *)
Fixpoint split_at_expunge (q : list upd) : list upd * list upd :=
  match q with
  | [] => ([], [])
  | u :: r => if is_expunge u then ([], q) else let '(a, b) := split_at_expunge r in (u :: a, b)
  end.
Definition poll_split (allow : bool) (q : list upd) : list upd * list upd :=
  if allow then (q, []) else split_at_expunge q.

(* an all-zero trackerUpdate makes Poll panic ("unknown tracker update") *)
Definition bad_update (u : upd) : bool := match u with UExists _ n _ => n =? 0 | _ => false end.

Fixpoint find_sess (sid : N) (ss : list sess) : option sess :=
  match ss with
  | [] => None
  | s :: r => if s_id s =? sid then Some s else find_sess sid r
  end.

Definition step (t : tracker) (o : op) : tracker * out :=
  match o with
  | ONewSession sid =>
      (mkT (t_n t) (t_L t) (t_next t) (t_sess t ++ [mkSess sid (t_L t) []]), OutNone)
  | OClose sid =>
      (mkT (t_n t) (t_L t) (t_next t) (filter (fun s => negb (s_id s =? sid)) (t_sess t)), OutNone)
  | OQueueNum n =>
      if negb (n =? 0) && (n <? t_n t) then (t, OutCrash)   (* "cannot decrease ..." *)
      else
        let ids := fresh (t_next t) (N.to_nat (n - t_n t)) in
        (mkT (if n =? 0 then t_n t else n) (t_L t ++ ids) (t_next t + (n - t_n t))
             (push_all (UExists (t_n t) n ids) None (t_sess t)), OutNone)
  | OQueueExpunge k =>
      if (k =? 0) || (t_n t <? k) then (t, OutCrash)
      else (mkT (t_n t - 1) (remove_at (N.to_nat k) (t_L t)) (t_next t)
                (push_all (UExpunge k) None (t_sess t)), OutNone)
  | OQueueMboxFlags f =>
      (mkT (t_n t) (t_L t) (t_next t) (push_all (UMboxFlags f) None (t_sess t)), OutNone)
  | OQueueMsgFlags seq uid f src =>
      (mkT (t_n t) (t_L t) (t_next t) (push_all (UFetch seq uid f) src (t_sess t)), OutNone)
  | OPoll sid allow =>
      match find_sess sid (t_sess t) with
      | None => (t, OutNone)
      | Some s =>
          let '(em, rest) := poll_split allow (s_queue s) in
          if existsb bad_update em then (t, OutCrash)
          else
            (mkT (t_n t) (t_L t) (t_next t)
                 (map (fun s' => if s_id s' =? sid
                                 then mkSess sid (fold_left apply_upd em (s_view s')) rest
                                 else s') (t_sess t)),
             OutPoll em)
      end
  end.

(* SessionTracker.DecodeSeqNum: client view -> server view *)
Fixpoint decode_q (q : list upd) (c : N) : N :=      (* 0 = gone *)
  match q with
  | [] => c
  | UExpunge k :: r => if c =? k then 0 else decode_q r (if k <? c then c - 1 else c)
  | _ :: r => decode_q r c
  end.
Definition decode (t : tracker) (s : sess) (c : N) : N :=
  if c =? 0 then 0
  else let c' := decode_q (s_queue s) c in
       if c' =? 0 then 0 else if t_n t <? c' then 0 else c'.

(* SessionTracker.EncodeSeqNum: server view -> client view; walks the queue backwards *)
Fixpoint encode_q (rq : list upd) (p : N) : N :=     (* rq = reversed queue *)
  match rq with
  | [] => p
  | UExists prev n _ :: r => if negb (n =? 0) && (prev <? p) then 0 else encode_q r p
  | UExpunge k :: r => encode_q r (if k <=? p then p + 1 else p)
  | _ :: r => encode_q r p
  end.
Definition encode (t : tracker) (s : sess) (p : N) : N :=
  if p =? 0 then 0
  else if t_n t <? p then 0
  else encode_q (rev (s_queue s)) p.

(* run a history; None as soon as a step panics *)
Fixpoint run_from (t : tracker) (ops : list op) : option tracker :=
  match ops with
  | [] => Some t
  | o :: r => match step t o with
              | (_, OutCrash) => None
              | (t', _) => run_from t' r
              end
  end.
Definition run (n0 : N) (ops : list op) : option tracker := run_from (init n0) ops.
