(* Model/StartTLSCorr.v — C17 correspondence. *)
From GoImap.Base Require Import Bytes.
From GoImap.Model Require Import NumSetCorr MatchList StartTLS.
Open Scope N_scope.

(* (network chunks of the plaintext burst, exchange line without its LF, plaintext suffix the
    harness appended, whether the bytes following the plaintext are genuine TLS,
    observed: the TLS handshake succeeded).
   The model must hand exactly the suffix to the TLS layer; the handshake can then succeed
   only if the suffix is empty and genuine TLS follows. *)
Definition tls_case := (list bytes * bytes * bytes * bool * bool)%type.
Definition tls_ok (c : tls_case) : bool :=
  let '(chunks, line, suffix, genuine, observed) := c in
  match starttls_switch chunks with
  | Some (l, t) =>
      bytes_eqb l (line ++ [LF]) && bytes_eqb t suffix &&
      Bool.eqb observed (is_nil t && genuine)
  | None => false
  end.
Definition tls_mismatches (cs : list tls_case) : list N := idx_filter tls_ok 0 cs.
