(* Model/ClientWrite.v — what the client writes for a command: how imapclient.beginCommand
   derives the encoder modes from the capability set (imap.CapSet.Has with its implication
   rules) and how commands made of string / mailbox arguments are laid out on the wire.
   Also commandEncoder.Literal (APPEND): synchronising unless LITERAL- is available and the
   size is at most 4096. *)
From GoImap.Base Require Import Bytes.
From GoImap.Model Require Import NumSet NumSetCorr MatchList Utf7 Wire.
Open Scope N_scope.

Definition capset := list bytes.
Definition cap_in (c : string) (s : capset) : bool := existsb (bytes_eqb (s2b c)) s.
Arguments cap_in c%string s.

(* imap.CapSet.Has for the capabilities that matter to the encoder *)
Definition has_rev2 (s : capset) : bool := cap_in "IMAP4rev2" s.
Definition has_literal_plus (s : capset) : bool := cap_in "LITERAL+" s.
Definition has_literal_minus (s : capset) : bool :=
  cap_in "LITERAL-" s || has_rev2 s || has_literal_plus s.

(* beginCommand: encoder configuration; [utf8_enabled] = UTF8=ACCEPT has been ENABLEd *)
Definition client_cfg (caps : capset) (utf8_enabled : bool) (cont : option bool) : enc_cfg :=
  mkCfg (has_rev2 caps || utf8_enabled) (has_literal_minus caps) (has_literal_plus caps) true cont.

Inductive carg := CAString (s : bytes) | CAMailbox (s : bytes).

Definition enc_carg (cfg : enc_cfg) (a : carg) : eres :=
  match a with CAString s => enc_string cfg s | CAMailbox s => enc_mailbox cfg s end.

Fixpoint enc_cargs (cfg : enc_cfg) (l : list carg) : eres :=
  match l with
  | [] => Some []
  | a :: r =>
      match enc_carg cfg a, enc_cargs cfg r with
      | Some x, Some y => Some (SBytes [SP_] :: x ++ y)
      | _, _ => None
      end
  end.

(* tag SP name (SP arg)* CRLF *)
Definition cmd_write (cfg : enc_cfg) (tag name : bytes) (args : list carg) : eres :=
  match enc_cargs cfg args with
  | Some segs => Some (SBytes (tag ++ [SP_] ++ name) :: segs ++ [SBytes [CR_; LF_]])
  | None => None
  end.

(* commandEncoder.Literal: Some true = synchronising *)
Definition append_literal_sync (caps : capset) (size : N) : bool :=
  (4096 <? size) || negb (has_literal_minus caps).

(* ---- correspondence: (caps, utf8 enabled, tag, name, args, bytes the client sent,
   all continuation requests were granted) ---- *)
Definition cw_case := (capset * bool * bytes * bytes * list carg * bytes * bool)%type.
Definition cw_ok (c : cw_case) : bool :=
  let '(caps, en, tag, name, args, sent, granted) := c in
  match cmd_write (client_cfg caps en (Some granted)) tag name args with
  | Some segs => bytes_eqb (flatten segs) sent
  | None => false
  end.
Definition cw_mismatches (cs : list cw_case) : list N := idx_filter cw_ok 0 cs.
