(* Model/MemRefMsg.v — message-level part of the reference model of imapmemserver
   (imapserver/imapmemserver/message.go): header reading and writing (go-message
   textproto.ReadHeader / WriteHeader), Content-Type, the multipart reader
   (textproto.MultipartReader), message.bodySection with partial ranges (int64 arithmetic
   with its wrap), the Date header, flags, and the view of a message that message.search
   consults.

   Scope of the library models (stated in the manifest note): byte-exact transcriptions of
   ReadHeader/WriteHeader/MultipartReader for input available as a whole; mime.ParseMediaType
   and net/mail.ParseDate are modelled for the shapes the harness generates only
   (type/subtype [; name=value | name="value"]*, and [Www, ]D Mon YYYY HH:MM[:SS] +ZZZZ).
   No proofs in this file.                                                                  *)
From GoImap.Base Require Import Bytes.
From GoImap.Model Require Import NumSet MatchList.
Open Scope N_scope.

Definition CR : byte := n2b 13.
Definition LF : byte := n2b 10.
Definition SPC : byte := n2b 32.
Definition TAB : byte := n2b 9.
Definition CRLF : bytes := [CR; LF].
Definition is_space (c : byte) : bool := beqb c SPC || beqb c TAB.

(* ---- generic byte-string helpers ---- *)
Fixpoint bytes_ltb (a b : bytes) : bool :=          (* Go string "<": bytewise *)
  match a, b with
  | _, [] => false
  | [], _ :: _ => true
  | x :: a', y :: b' => if b2n x <? b2n y then true else if b2n y <? b2n x then false else bytes_ltb a' b'
  end.

Fixpoint mem_bytes (x : bytes) (l : list bytes) : bool :=
  match l with [] => false | y :: r => bytes_eqb x y || mem_bytes x r end.

Fixpoint drop_while (f : byte -> bool) (s : bytes) : bytes :=
  match s with [] => [] | c :: r => if f c then drop_while f r else s end.
Definition trim_left_sp (s : bytes) : bytes := drop_while is_space s.
Definition trim_sp (s : bytes) : bytes := rev (drop_while is_space (rev (drop_while is_space s))).

(* bytes.Contains(buf, pat) *)
Fixpoint contains_sub (pat s : bytes) : bool :=
  has_prefix pat s || match s with [] => false | _ :: r => contains_sub pat r end.
(* bytes.Index(s, pat) *)
Fixpoint index_sub (pat s : bytes) : option nat :=
  if has_prefix pat s then Some O
  else match s with [] => None | _ :: r => option_map S (index_sub pat r) end.
(* bytes.LastIndexByte *)
Fixpoint last_index_byte (c : byte) (s : bytes) : option nat :=
  match s with
  | [] => None
  | x :: r => match last_index_byte c r with
              | Some i => Some (S i)
              | None => if beqb x c then Some O else None
              end
  end.

(* ---- lines: bufio.Reader.ReadLine / ReadSlice('\n') over input available as a whole ---- *)
(* raw lines, each with its LF (the last one possibly without) *)
Fixpoint raw_lines_aux (s cur : bytes) : list bytes :=
  match s with
  | [] => match cur with [] => [] | _ => [rev cur] end
  | c :: r => if beqb c LF then rev (c :: cur) :: raw_lines_aux r [] else raw_lines_aux r (c :: cur)
  end.
Definition raw_lines (s : bytes) : list bytes := raw_lines_aux s [].
(* ReadLine's result for one raw line: the LF and a CR before it are dropped *)
Definition chomp (raw : bytes) : bytes :=
  match rev raw with
  | c :: r =>
      if beqb c LF then
        match r with
        | d :: r' => if beqb d CR then rev r' else rev r
        | [] => []
        end
      else raw
  | [] => []
  end.
Definition ends_with_lf (raw : bytes) : bool :=
  match rev raw with c :: _ => beqb c LF | [] => false end.

(* ---- textproto.ReadHeader ---- *)
Record hfield := HF { hf_key : bytes; hf_val : bytes; hf_raw : bytes }.

(* net/textproto validHeaderFieldByte: RFC 7230 token characters *)
Definition is_token_byte (c : byte) : bool :=
  let n := b2n c in
  ((48 <=? n) && (n <=? 57)) || ((65 <=? n) && (n <=? 90)) || ((97 <=? n) && (n <=? 122)) ||
  existsb (N.eqb n) [33; 35; 36; 37; 38; 39; 42; 43; 45; 46; 94; 95; 96; 124; 126].
(* net/textproto.CanonicalMIMEHeaderKey *)
Fixpoint canon_key_aux (upper : bool) (s : bytes) : bytes :=
  match s with
  | [] => []
  | c :: r =>
      let c' := if upper then to_upper_b c else to_lower_b c in
      c' :: canon_key_aux (beqb c' (ch "-")) r
  end.
Definition canon_key (s : bytes) : bytes :=
  if forallb is_token_byte s then canon_key_aux true s else s.

(* go-message textproto validHeaderKeyByte *)
Definition valid_key_byte (c : byte) : bool :=
  let n := b2n c in (33 <=? n) && (n <=? 126) && negb (n =? 58).

(* trimAroundNewlines *)
Definition strip_trailing_cr (l : bytes) : bytes :=
  match rev l with c :: r => if beqb c CR then rev r else l | [] => l end.
Fixpoint join_nonempty (ps : list bytes) : bytes :=
  match ps with
  | [] => []
  | p :: r =>
      let p' := trim_sp (strip_trailing_cr p) in
      let rest := join_nonempty r in
      match p', rest with
      | [], _ => rest
      | _, [] => p'
      | _, _ => p' ++ SPC :: rest
      end
  end.
Definition trim_around_newlines (v : bytes) : bytes := join_nonempty (split_byte LF v).

(* readContinuedLineSlice's continuation loop *)
Fixpoint cont_lines (ls : list bytes) (acc : bytes) : bytes * list bytes :=
  match ls with
  | l :: ls' =>
      match l with
      | c :: _ => if is_space c then cont_lines ls' (acc ++ chomp l ++ CRLF) else (acc, ls)
      | [] => (acc, ls)
      end
  | [] => (acc, [])
  end.

(* how ReadHeader stopped *)
Inductive hstatus := HBlank | HEof | HBad.
Definition hbad (st : hstatus) : bool := match st with HBad => true | _ => false end.

(* the loop of ReadHeader over the remaining raw lines; result: fields (file order),
   remaining lines, how it stopped *)
Fixpoint read_fields (fuel : nat) (ls : list bytes) (acc : list hfield)
  : list hfield * list bytes * hstatus :=
  match fuel with
  | O => (rev acc, ls, HBad)
  | S f =>
      match ls with
      | [] => (rev acc, [], HEof)                           (* EOF: header without body *)
      | l :: ls' =>
          let line := chomp l in
          match line with
          | [] => (rev acc, ls', HBlank)                    (* blank line *)
          | _ =>
              let '(kv, rest) := cont_lines ls' (line ++ CRLF) in
              match index_of (ch ":") kv with
              | None => (rev acc, rest, HBad)               (* malformed MIME header line *)
              | Some i =>
                  let keyb := trim_sp (firstn i kv) in
                  if negb (forallb valid_key_byte keyb) then (rev acc, rest, HBad)
                  else
                    let key := canon_key keyb in
                    match key with
                    | [] => read_fields f rest acc          (* empty key: skipped *)
                    | _ => read_fields f rest
                             (HF key (trim_around_newlines (skipn (S i) kv)) kv :: acc)
                    end
              end
          end
      end
  end.

(* ReadHeader: (fields, rest of the input, how it stopped) *)
Definition read_header_st (s : bytes) : list hfield * bytes * hstatus :=
  let ls := raw_lines s in
  match ls with
  | (c :: _) :: ls' =>
      if is_space c then ([], concat ls', HBad)              (* malformed initial line *)
      else let '(fs, rest, st) := read_fields (S (length ls)) ls [] in (fs, concat rest, st)
  | _ => let '(fs, rest, st) := read_fields (S (length ls)) ls [] in (fs, concat rest, st)
  end.
(* on a reader that ends cleanly (io.EOF) *)
Definition read_header (s : bytes) : list hfield * bytes * bool :=
  let '(fs, rest, st) := read_header_st s in (fs, rest, hbad st).
(* on a reader that may end with io.ErrUnexpectedEOF: running into the end is an error *)
Definition read_header_r (r : bytes * bool) : list hfield * bytes * bool :=
  let '(fs, rest, st) := read_header_st (fst r) in
  (fs, rest, match st with HBad => true | HEof => negb (snd r) | HBlank => false end).

(* Header.Get: first field with that canonical key, "" if none; Has; Values *)
Fixpoint hget (k : bytes) (h : list hfield) : bytes :=
  match h with [] => [] | f :: r => if bytes_eqb (hf_key f) k then hf_val f else hget k r end.
Definition hhas (k : bytes) (h : list hfield) : bool := existsb (fun f => bytes_eqb (hf_key f) k) h.
Definition hvalues (k : bytes) (h : list hfield) : list bytes :=
  map hf_val (filter (fun f => bytes_eqb (hf_key f) k) h).
(* WriteHeader (every parsed field has its raw bytes) *)
Definition write_header (h : list hfield) : bytes := concat (map hf_raw h) ++ CRLF.

(* ---- Content-Type (gomessage.Header.ContentType over mime.ParseMediaType, simplified) ---- *)
Definition CT_KEY : bytes := s2b "Content-Type".
Definition SEMI : byte := ch ";".
Definition DQ : byte := n2b 34.

Fixpoint take_until (f : byte -> bool) (s : bytes) : bytes * bytes :=
  match s with
  | [] => ([], [])
  | c :: r => if f c then ([], s) else let '(a, b) := take_until f r in (c :: a, b)
  end.

(* one parameter list "; a=b; c="d"" -> value of "boundary" *)
Fixpoint find_boundary (fuel : nat) (s : bytes) : bytes :=
  match fuel with
  | O => []
  | S f =>
      let s := trim_left_sp s in
      match s with
      | c :: r =>
          if beqb c SEMI then
            let r := trim_left_sp r in
            let '(name, r1) := take_until (fun c => beqb c (ch "=") || beqb c SEMI) r in
            match r1 with
            | e :: r2 =>
                if beqb e (ch "=") then
                  let '(value, r3) :=
                    match r2 with
                    | q :: r2' =>
                        if beqb q DQ then
                          let '(v, r4) := take_until (fun c => beqb c DQ) r2' in (v, tl r4)
                        else take_until (fun c => beqb c SEMI || is_space c) r2
                    | [] => ([], [])
                    end in
                  if bytes_eqb (ascii_lower (trim_sp name)) (s2b "boundary") then value
                  else find_boundary f r3
                else find_boundary f r1
            | [] => []
            end
          else []
      | [] => []
      end
  end.

(* (media type, boundary parameter) *)
Definition content_type (h : list hfield) : bytes * bytes :=
  let v := hget CT_KEY h in
  match v with
  | [] => (s2b "text/plain", [])
  | _ =>
      let '(mt, params) := take_until (fun c => beqb c SEMI) v in
      (ascii_lower (trim_sp mt), find_boundary (S (length params)) params)
  end.
Definition is_multipart (mt : bytes) : bool := has_prefix (s2b "multipart/") mt.

(* ---- textproto.MultipartReader ---- *)
(* a reader's content: the bytes it will deliver and whether it ends with a clean EOF
   (false: io.ErrUnexpectedEOF after the last byte) *)
Definition rdr := (bytes * bool)%type.

Definition after_prefix_ok (rest : bytes) : bool :=      (* matchAfterPrefix = +1 *)
  match rest with
  | [] => true                                          (* end of input *)
  | c :: _ => is_space c || beqb c CR || beqb c LF || beqb c (ch "-")
  end.
(* is [a] a prefix of [b] *)
Definition prefix_of (a b : bytes) : bool := has_prefix a b.

(* scanUntilBoundary iterated to the end of the part: (body, clean, rest from the boundary) *)
Fixpoint scan_part (fuel : nat) (data dashb nldashb : bytes) (at_start : bool) (acc : bytes)
  : bytes * bool * bytes :=
  match fuel with
  | O => (acc, false, [])
  | S f =>
      if at_start && has_prefix dashb data && after_prefix_ok (skipn (length dashb) data)
      then (acc, true, data)
      else if at_start && has_prefix dashb data
      then scan_part f (skipn (length dashb) data) dashb nldashb false (acc ++ dashb)
      else if at_start && prefix_of data dashb then (acc, false, [])
      else
        match index_sub nldashb data with
        | Some i =>
            let after := skipn (i + length nldashb) data in
            if after_prefix_ok after then (acc ++ firstn i data, true, skipn i data)
            else scan_part f after dashb nldashb false (acc ++ firstn (i + length nldashb) data)
        | None =>
            if prefix_of data nldashb then (acc, false, [])
            else
              match nldashb with
              | nl0 :: _ =>
                  match last_index_byte nl0 data with
                  | Some i => if prefix_of (skipn i data) nldashb
                              then (acc ++ firstn i data, false, [])
                              else (acc ++ data, false, [])
                  | None => (acc ++ data, false, [])
                  end
              | [] => (acc ++ data, false, [])
              end
        end
  end.

Definition skip_lwsp (s : bytes) : bytes := drop_while is_space s.

(* one raw line via ReadSlice('\n'): (line, rest, complete) *)
Fixpoint read_slice (s acc : bytes) : bytes * bytes * bool :=
  match s with
  | [] => (rev acc, [], false)
  | c :: r => if beqb c LF then (rev (c :: acc), r, true) else read_slice r (c :: acc)
  end.

Inductive mp_result :=
| MPErr                                                        (* any error, io.EOF included *)
| MPPart (h : list hfield) (body : rdr) (rest : bytes) (nl : bytes).

(* NextPart's line loop; [first] = partsRead == 0; [clean] = the underlying reader's EOF kind *)
Fixpoint next_part_lines (fuel : nat) (s : bytes) (clean : bool) (boundary nl : bytes)
  (first expect_new : bool) : mp_result :=
  match fuel with
  | O => MPErr
  | S f =>
      let dashb := s2b "--" ++ boundary in
      let '(line, rest, complete) := read_slice s [] in
      let is_final :=
        has_prefix (dashb ++ s2b "--") line &&
        (let r := skip_lwsp (skipn (length dashb + 2) line) in is_nil r || bytes_eqb r nl) in
      if negb complete then MPErr                              (* EOF (final or not) / error *)
      else
        let r := skip_lwsp (skipn (length dashb) line) in
        let nl' := if first && bytes_eqb r [LF] then [LF] else nl in
        if has_prefix dashb line && bytes_eqb r nl' then
          (* newPart: ReadHeader on what follows, then the body up to the next boundary *)
          let '(h, body, herr) := read_header_r (rest, clean) in
          if herr then MPErr
          else
            let '(b, bclean, brest) := scan_part (S (length body)) body dashb (nl' ++ dashb) true [] in
            MPPart h (b, bclean) brest nl'
        else if is_final then MPErr
        else if expect_new then MPErr
        else if first then next_part_lines f rest clean boundary nl first false
        else if bytes_eqb line nl then next_part_lines f rest clean boundary nl first true
        else MPErr
  end.

Definition next_part (s : bytes) (clean : bool) (boundary nl : bytes) (first : bool) : mp_result :=
  match boundary with
  | [] => MPErr                                                (* multipart: boundary is empty *)
  | _ => next_part_lines (S (length s)) s clean boundary nl first false
  end.

(* the j-th part (for j := 1; j <= partNum; j++ { NextPart }) *)
Fixpoint nth_part (fuel : nat) (s : bytes) (clean : bool) (boundary nl : bytes) (first : bool) (j : N)
  : option (list hfield * rdr) :=
  match fuel with
  | O => None
  | S f =>
      if j =? 0 then None
      else match next_part s clean boundary nl first with
           | MPErr => None
           | MPPart h body rest nl' =>
               if j =? 1 then Some (h, body)
               else nth_part f rest clean boundary nl' false (j - 1)
           end
  end.

(* ---- message.bodySection ---- *)
Inductive spec := SpecNone | SpecHeader | SpecMime | SpecText.
Record section := {
  sc_part : list N;
  sc_spec : spec;
  sc_fields : list bytes;            (* HEADER.FIELDS *)
  sc_fields_not : list bytes;        (* HEADER.FIELDS.NOT *)
  sc_partial : option (Z * Z);       (* <offset.size>, int64 as read by ExpectNumber64 *)
  sc_peek : bool
}.

(* openMessagePart *)
Definition RFC822 : bytes := s2b "message/rfc822".
Definition open_message_part (h : list hfield) (body : rdr) (parent : bytes) : list hfield * rdr :=
  let mt := fst (content_type h) in
  let mt := if negb (hhas CT_KEY h) && bytes_eqb parent (s2b "multipart/digest") then RFC822 else mt in
  if bytes_eqb mt RFC822 || bytes_eqb mt (s2b "message/global") then
    let '(h', rest, _) := read_header (fst body) in (h', (rest, snd body))
  else (h, body).

(* the part path loop; None = "return nil" *)
Fixpoint walk_parts (path : list N) (h : list hfield) (body : rdr) (parent : bytes)
  : option (list hfield * rdr * bytes) :=
  match path with
  | [] => Some (h, body, parent)
  | pn :: path' =>
      let '(h1, body1) := open_message_part h body parent in
      let '(mt, boundary) := content_type h1 in
      if negb (is_multipart mt) then
        if pn =? 1 then walk_parts path' h1 body1 parent else None
      else
        match nth_part (S (length (fst body1))) (fst body1) (snd body1) boundary CRLF true pn with
        | None => None
        | Some (h2, body2) => walk_parts path' h2 body2 mt
        end
  end.

(* int64 arithmetic of the partial extraction.  [ext_partial] is the code after the fix
   (extractPartial); [ext_partial_old] the code before it, kept as the executable statement
   of the defect: None = slice bounds out of range (panic). *)
Definition I64 : Z := 9223372036854775808%Z.
Definition wrap64 (z : Z) : Z := ((z + I64) mod (2 * I64) - I64)%Z.

Definition slice (b : bytes) (lo hi : Z) : option bytes :=
  if (0 <=? lo)%Z && (lo <=? hi)%Z && (hi <=? Z.of_nat (length b))%Z
  then Some (firstn (Z.to_nat (hi - lo)) (skipn (Z.to_nat lo) b)) else None.

Definition ext_partial_old (b : bytes) (p : option (Z * Z)) : option bytes :=
  match p with
  | None => Some b
  | Some (off, size) =>
      let len := Z.of_nat (length b) in
      let e := wrap64 (off + size) in
      if (len <? off)%Z then Some []
      else slice b off (if (len <? e)%Z then len else e)
  end.

Definition ext_partial (b : bytes) (p : option (Z * Z)) : option bytes :=
  match p with
  | None => Some b
  | Some (off, size) =>
      let len := Z.of_nat (length b) in
      if (len <? off)%Z then Some []
      else
        let size' := if (wrap64 (len - off) <? size)%Z then wrap64 (len - off) else size in
        slice b off (wrap64 (off + size'))
  end.

Definition del_key (k : bytes) (h : list hfield) : list hfield :=
  filter (fun f => negb (bytes_eqb (hf_key f) (canon_key k))) h.

(* the octets of the section before the partial extraction; None = "return nil" *)
Definition section_text (buf : bytes) (it : section) : option bytes :=
  match sc_part it, sc_spec it with
  | [], SpecNone => Some buf
  | _, _ =>
      let '(h0, rest0, err0) := read_header buf in
      if err0 then None
      else
        let mt0 := fst (content_type h0) in
        let path :=
          match sc_part it with
          | p :: path' => if negb (is_multipart mt0) && (p =? 1) then path' else sc_part it
          | [] => []
          end in
        match walk_parts path h0 (rest0, true) [] with
        | None => None
        | Some (h1, body1, parent) =>
            let '(h2, body2) :=
              match sc_part it, sc_spec it with
              | _ :: _, SpecHeader | _ :: _, SpecText => open_message_part h1 body1 parent
              | _, _ => (h1, body1)
              end in
            let h3 :=
              match sc_fields it with
              | [] => h2
              | fs => let keep := map ascii_lower fs in
                      filter (fun f => mem_bytes (ascii_lower (hf_key f)) keep) h2
              end in
            let h4 := fold_left (fun h k => del_key k h) (sc_fields_not it) h3 in
            let write_hdr :=
              match sc_spec it with
              | SpecNone => match sc_part it with [] => true | _ => false end
              | SpecText => false
              | _ => true
              end in
            let hb := if write_hdr then write_header h4 else [] in
            match sc_spec it with
            | SpecNone | SpecText => if snd body2 then Some (hb ++ fst body2) else None
            | _ => Some hb
            end
        end
  end.

(* bodySection; None = panic *)
Definition body_section (buf : bytes) (it : section) : option bytes :=
  match section_text buf it with
  | None => Some []
  | Some t => ext_partial t (sc_partial it)
  end.

(* ---- the Date header (net/mail.ParseDate for [Www, ]D Mon YYYY HH:MM[:SS] +ZZZZ) ---- *)
Open Scope Z_scope.
(* days from 0001-01-01 (proleptic Gregorian) to y-m-d *)
Definition days_from_civil (y m d : Z) : Z :=
  let y' := if m <=? 2 then y - 1 else y in
  let era := (if 0 <=? y' then y' else y' - 399) / 400 in
  let yoe := y' - era * 400 in
  let mp := (m + 9) mod 12 in
  let doy := (153 * mp + 2) / 5 + d - 1 in
  let doe := yoe * 365 + yoe / 4 - yoe / 100 + doy in
  era * 146097 + doe - 719468 + 719162.

Definition is_leap (y : Z) : bool := ((y mod 4 =? 0) && negb (y mod 100 =? 0)) || (y mod 400 =? 0).
Definition days_in_month (y m : Z) : Z :=
  if m =? 2 then (if is_leap y then 29 else 28)
  else if (m =? 4) || (m =? 6) || (m =? 9) || (m =? 11) then 30 else 31.

Definition MONTHS : list bytes :=
  map s2b ["Jan"; "Feb"; "Mar"; "Apr"; "May"; "Jun"; "Jul"; "Aug"; "Sep"; "Oct"; "Nov"; "Dec"]%string.
Fixpoint month_index (m : bytes) (l : list bytes) (i : Z) : option Z :=
  match l with [] => None | x :: r => if bytes_eqb x m then Some i else month_index m r (i + 1) end.

Definition num_of (s : bytes) : option Z :=
  match s with
  | [] => None
  | _ => if all_digits s then option_map Z.of_N (parse_uint (10 ^ 18)%N s) else None
  end.

Definition split_sp (s : bytes) : list bytes := filter (fun w => negb (is_nil w)) (split_byte SPC s).

Definition parse_hms (s : bytes) : bool :=
  match split_byte (ch ":") s with
  | [h; m] =>
      match num_of h, num_of m with
      | Some h, Some m => (Nat.eqb (length s) 5) && (h <? 24) && (m <? 60)
      | _, _ => false
      end
  | [h; m; sec] =>
      match num_of h, num_of m, num_of sec with
      | Some h, Some m, Some sec => (Nat.eqb (length s) 8) && (h <? 24) && (m <? 60) && (sec <? 60)
      | _, _, _ => false
      end
  | _ => false
  end.
Definition parse_zone (s : bytes) : bool :=
  match s with
  | sg :: ds =>
      (beqb sg (ch "+") || beqb sg (ch "-")) && Nat.eqb (length ds) 4 &&
      match num_of (firstn 2 ds), num_of (skipn 2 ds) with
      | Some h, Some m => (h <? 24) && (m <? 60)
      | _, _ => false
      end
  | [] => false
  end.

(* the local calendar day, as seconds since 0001-01-01, of a Date header value *)
Definition parse_date_day (v : bytes) : option Z :=
  let ws := split_sp v in
  let ws := match ws with
            | w :: r => if has_suffix (s2b ",") w then r else ws
            | [] => []
            end in
  match ws with
  | [ds; mon; ys; hms; zone] =>
      match num_of ds, month_index mon MONTHS 1, num_of ys with
      | Some d, Some m, Some y =>
          if (1 <=? d) && (d <=? days_in_month y m) && Nat.leb (length ds) 2 && Nat.eqb (length ys) 4
             && parse_hms hms && parse_zone zone
          then Some (days_from_civil y m d * 86400) else None
      | _, _, _ => None
      end
  | _ => None
  end.

(* mail.Header.Date: missing header = zero time, no error *)
Definition sent_day (h : list hfield) : option Z :=
  match hget (s2b "Date") h with
  | [] => Some 0
  | v => parse_date_day v
  end.

(* matchDate's truncation: the calendar day of t in its own zone, as seconds *)
Definition day_of (t zone : Z) : Z := (t + zone) / 86400 * 86400.
Close Scope Z_scope.

(* ---- flags ---- *)
Definition canon_flag (f : bytes) : bytes := ascii_lower f.          (* canonicalFlag *)
(* flag sets are kept as sorted duplicate-free lists (Go: map keys; sorted by the harness) *)
Fixpoint flag_insert (f : bytes) (l : list bytes) : list bytes :=
  match l with
  | [] => [f]
  | g :: r => if bytes_eqb f g then l else if bytes_ltb f g then f :: l else g :: flag_insert f r
  end.
Definition flag_remove (f : bytes) (l : list bytes) : list bytes :=
  filter (fun g => negb (bytes_eqb f g)) l.
Definition flags_add (fs : list bytes) (l : list bytes) : list bytes :=
  fold_left (fun acc f => flag_insert (canon_flag f) acc) fs l.
Definition flags_del (fs : list bytes) (l : list bytes) : list bytes :=
  fold_left (fun acc f => flag_remove (canon_flag f) acc) fs l.
Definition has_flag (f : bytes) (l : list bytes) : bool := mem_bytes (canon_flag f) l.

(* matchBytes for one pattern: bytes.Contains(bytes.ToLower(buf), bytes.ToLower(pat)), ASCII *)
Definition match_fold (buf pat : bytes) : bool := contains_sub (ascii_lower pat) (ascii_lower buf).
