(* Model/ClientResp.v — executable model of the response side of imapclient (C11):
   the reader goroutine's decoding of everything a server can send, on raw bytes.

   Transcribed, function by function, from
     internal/imapwire/decoder.go   (Decoder primitives, with the sticky dec.err flag)
     internal/internal.go           (ExpectFlag, ExpectFlagList, ExpectMailboxAttrList, ExpectDateTime)
     imapclient/client.go           (read, readResponse, readContinueReq, readResponseTagged, readResponseData)
     imapclient/fetch.go            (handleFetch, readEnvelope, readNestedBody, readBodyType1part, readBodyTypeMpart,
                                     readBodyExt*, readBodyFld*, readSectionSpec, readSectionPart, ...)
     imapclient/search.go           (handleSearch, handleESearch, readESearchResponse)
     imapclient/{sort,thread,list,status,quota,metadata,namespace,capability,enable,select,expunge,copy}.go
     time.Parse for the layout "_2-Jan-2006 15:04:05 -0700" (INTERNALDATE)

   The parser is a state monad over [st]: remaining input, the sticky error flag of the
   decoder, and three instruments used by the theorems of C11:
     s_ticks  one tick per loop iteration and per call of a recursive reader (step count);
     s_maxd   high-water mark of the Go call depth of the recursive readers
              (DiscardValue, readThreadList, readNestedBody);
     s_log    everything handed to the caller (commands or unilateral data handlers), in order.
   Results: Ok / Err (decoding error: the client closes the connection and reports it) /
   Fuel (the model's own fuel ran out: excluded by theorem) / Crash (Go would panic).
   No proofs here.                                                                         *)
From GoImap.Base Require Import Bytes.
From GoImap.Model Require Import NumSet MatchList Utf7 Wire.
Open Scope N_scope.

(* ---------------------------------------------------------------------------------------- *)
(* delivered data                                                                            *)

(* body structure: only what the recursion and the numbers look like *)
Inductive bstruct :=
| BS1 (typ sub : bytes) (size : N) (lines : option N) (msg : option bstruct)
| BSM (children : list bstruct) (sub : bytes).

Inductive thread := Thread (chain : list N) (subs : list thread).

(* BODY[...] / BINARY[...] section: part path, upper-cased specifier, header fields, origin *)
Record section := mkSec { sec_part : list N; sec_spec : bytes; sec_fields : list bytes;
                          sec_not : bool; sec_origin : option N }.

Inductive fitem :=
| FFlags (fl : list bytes)
| FEnvelope (addrs : list (list (bytes * bytes)))      (* six address lists: (mailbox, host) *)
| FInternalDate
| FSize (n : N)
| FUid (u : N)
| FBodySection (binary : bool) (sec : section) (content : option bytes)
| FBodyStructure (extended : bool) (b : bstruct)
| FBinarySize (part : list N) (n : N)
| FModSeq (m : N).

(* response codes that carry data *)
Inductive rcode :=
| CCaps (l : list bytes)
| CAppendUid (validity uid : N)
| CCopyUid (validity : N) (src dst : nset)
| CPermFlags (fl : list bytes)
| CUidNext (n : N)
| CUidValidity (n : N)
| CHighestModSeq (n : N).

Record esearch := mkES { es_tag : bytes; es_uid : bool; es_all : option nset;
                         es_min : option N; es_max : option N; es_count : option N; es_modseq : option N }.

(* STATUS items: 0 MESSAGES 1 UIDNEXT 2 UIDVALIDITY 3 UNSEEN 4 DELETED 5 SIZE 6 APPENDLIMIT
   7 DELETED-STORAGE 8 HIGHESTMODSEQ *)
Inductive ev :=
| EvCode (tagged : bool) (c : rcode)                   (* data of a response code, used as soon as it is read *)
| EvStatusResp (typ : bytes) (code : bytes)            (* untagged OK / NO / BAD / BYE / PREAUTH *)
| EvTagged (tag : bytes) (status : N)                  (* 0 OK 1 NO 2 BAD: the command completes *)
| EvCaps (l : list bytes)
| EvEnabled (l : list bytes)
| EvExists (n : N)
| EvExpunge (n : N)
| EvFlags (fl : list bytes)
| EvFetchBegin (seq : N)                               (* message handed over (possibly before an error) *)
| EvFetchItem (it : fitem)
| EvSearchNum (n : N)
| EvSearchModSeq (m : N)
| EvESearch (d : esearch)
| EvSortNum (n : N)
| EvThread (t : thread)
| EvList (attrs : list bytes) (delim : N) (mailbox : bytes) (childinfo : option bool) (oldname : option bytes)
| EvStatus (mailbox : bytes) (items : list (N * N))
| EvNamespace (ns : list (list (bytes * N)))
| EvQuota (root : bytes) (res : list (bytes * N * N))
| EvQuotaRoot (mailbox : bytes) (roots : list bytes)
| EvMetadata (mailbox : bytes) (values : list (bytes * option bytes)) (entries : list bytes).

(* ---------------------------------------------------------------------------------------- *)
(* the monad                                                                                 *)

Record st := mkSt { s_in : bytes; s_err : bool; s_ticks : nat; s_maxd : nat; s_log : list ev }.

Inductive res (A : Type) := Ok (v : A) (s : st) | Err (s : st) | Fuel | Crash.
Arguments Ok {A}. Arguments Err {A}. Arguments Fuel {A}. Arguments Crash {A}.

Definition P (A : Type) := st -> res A.

Definition nilb {A} (l : list A) : bool := match l with [] => true | _ => false end.

Definition ret {A} (v : A) : P A := fun s => Ok v s.
Definition fail {A} : P A := fun s => Err s.
Definition crash {A} : P A := fun _ => Crash.
Definition out_of_fuel {A} : P A := fun _ => Fuel.
Definition bind {A B} (p : P A) (q : A -> P B) : P B :=
  fun s => match p s with
           | Ok v s' => q v s'
           | Err s' => Err s'
           | Fuel => Fuel
           | Crash => Crash
           end.
Notation "x <- p ;; q" := (bind p (fun x => q)) (at level 61, p at next level, right associativity).
Notation "p ;;; q" := (bind p (fun _ => q)) (at level 61, right associativity).

Definition set_in (s : st) (i : bytes) : st := mkSt i (s_err s) (s_ticks s) (s_maxd s) (s_log s).
Definition set_err (s : st) : st := mkSt (s_in s) true (s_ticks s) (s_maxd s) (s_log s).

(* instruments *)
Definition tick : P unit := fun s => Ok tt (mkSt (s_in s) (s_err s) (S (s_ticks s)) (s_maxd s) (s_log s)).
Definition note_depth (d : nat) : P unit :=
  fun s => Ok tt (mkSt (s_in s) (s_err s) (s_ticks s) (Nat.max (s_maxd s) d) (s_log s)).
Definition emit (e : ev) : P unit :=
  fun s => Ok tt (mkSt (s_in s) (s_err s) (s_ticks s) (s_maxd s) (e :: s_log s)).
(* Decoder.returnErr(non-nil): dec.err is set (and stays set) *)
Definition mark_err : P unit := fun s => Ok tt (set_err s).
Definition err_is_set : P bool := fun s => Ok (s_err s) s.
(* an Expect... failure, or any error returned up to Client.read: the connection is closed *)
Definition expect_fail {A} : P A := fun s => Err (set_err s).
(* the fuel for a loop over the remaining input: every iteration consumes at least one byte *)
Definition with_fuel {A} (f : nat -> P A) : P A := fun s => f (S (length (s_in s))) s.

(* ---------------------------------------------------------------------------------------- *)
(* Decoder primitives (imapwire/decoder.go). "try" methods return false/None without
   ending the parse; at end of input they also set dec.err (readByte -> returnErr).        *)

(* Decoder.acceptByte / Special *)
Definition special (c : byte) : P bool :=
  fun s => match s_in s with
           | [] => Ok false (set_err s)
           | x :: r => if beqb x c then Ok true (set_in s r) else Ok false s
           end.
Definition expect_special (c : byte) : P unit :=
  b <- special c ;; if b then ret tt else expect_fail.

(* Decoder.SP *)
Definition sp : P bool :=
  fun s => match s_in s with
           | [] => Ok false (set_err s)
           | x :: r =>
               if beqb x SP_ then
                 match r with
                 | [] => Ok false (set_err (set_in s []))
                 | y :: _ => Ok (negb (beqb y CR_ || beqb y LF_)) (set_in s r)
                 end
               else Ok (b2n x =? 40) s
           end.
Definition expect_sp : P unit := b <- sp ;; if b then ret tt else expect_fail.

(* Decoder.CRLF: optional SP, optional CR, LF *)
Definition crlf : P bool :=
  special SP_ ;;; special CR_ ;;; special LF_.
Definition expect_crlf : P unit := b <- crlf ;; if b then ret tt else expect_fail.

(* Decoder.Func: None when the first byte is not valid (nothing consumed) or when the input
   ends inside the run (everything consumed, dec.err set) *)
Definition func (valid : byte -> bool) : P (option bytes) :=
  fun s => match take_while valid (s_in s) with
           | None => Ok None (set_err (set_in s []))
           | Some ([], _) => Ok None s
           | Some (a, rest) => Ok (Some a) (set_in s rest)
           end.
Definition atom : P (option bytes) := func is_atom_char.
Definition expect_atom : P bytes :=
  a <- atom ;; match a with Some v => ret v | None => expect_fail end.
Definition expect_nil : P unit :=
  a <- expect_atom ;; if bytes_eqb a (s2b "NIL") then ret tt else expect_fail.

(* Decoder.Text *)
Definition is_text_char (c : byte) : bool := negb (beqb c CR_ || beqb c LF_).
Definition text : P (option bytes) := func is_text_char.

(* Decoder.DiscardUntilByte *)
Definition discard_until (c : byte) : P unit :=
  fun s => match take_while (fun x => negb (beqb x c)) (s_in s) with
           | None => Ok tt (set_err (set_in s []))
           | Some (_, rest) => Ok tt (set_in s rest)
           end.

(* Decoder.Number / Number64 / ModSeq: digits, then strconv.Parse*; overflow = false with the
   digits consumed *)
Definition uint (bound : N) : P (option N) :=
  d <- func is_digit ;;
  match d with
  | None => ret None
  | Some ds => ret (parse_uint bound ds)
  end.
Definition number : P (option N) := uint 4294967296.
Definition number64 : P (option N) := uint 9223372036854775808.
Definition modseq : P (option N) := uint 18446744073709551616.
Definition expect_of {A} (p : P (option A)) : P A :=
  v <- p ;; match v with Some x => ret x | None => expect_fail end.
Definition expect_number := expect_of number.
Definition expect_number64 := expect_of number64.
Definition expect_modseq := expect_of modseq.

(* Decoder.ExpectBodyFldOctets: "-1" is read as 0 *)
Definition expect_body_fld_octets : P N :=
  m <- special (ch "-") ;;
  if m then (o <- special (ch "1") ;; if o then ret 0 else expect_fail)
  else expect_number.

(* Decoder.Quoted *)
Definition quoted : P (option bytes) :=
  q <- special DQ_ ;;
  if q then
    fun s => match quoted_body (s_in s) with
             | Some (a, rest) => Ok (Some a) (set_in s rest)
             | None => Ok None (set_err (set_in s []))
             end
  else ret None.

(* Decoder.LiteralReader on the client side (no "+"), followed by reading the payload to its
   end (Decoder.Literal without CheckBufferedLiteralFunc, or the consumer of a FETCH literal):
   a stream that ends inside the payload yields the shorter string.  A malformed header sets
   dec.err and leaves the input where the failure happened. *)
Definition literal : P (option bytes) :=
  o <- special (ch "{") ;;
  if o then
    n <- number64 ;;
    match n with
    | None => mark_err ;;; ret None
    | Some size =>
        c <- special (ch "}") ;;
        if c then
          e <- crlf ;;
          if e then
            fun s =>
              let l := s_in s in
              if N.of_nat (length l) <=? size then Ok (Some l) (set_in s [])      (* size is never turned into a big nat *)
              else Ok (Some (firstn (N.to_nat size) l)) (set_in s (skipn (N.to_nat size) l))
          else mark_err ;;; ret None
        else mark_err ;;; ret None
    end
  else ret None.

(* Decoder.String = Quoted || Literal *)
Definition string_ : P (option bytes) :=
  q <- quoted ;; match q with Some v => ret (Some v) | None => literal end.
Definition expect_string : P bytes := expect_of string_.

(* Decoder.ExpectAString: note the check of the sticky error before falling back to an atom *)
Definition expect_astring : P bytes :=
  q <- quoted ;;
  match q with
  | Some v => ret v
  | None =>
      l <- literal ;;
      match l with
      | Some v => ret v
      | None => e <- err_is_set ;; if e then fail else expect_atom
      end
  end.

(* Decoder.ExpectNString: "" for NIL *)
Definition expect_nstring : P bytes :=
  a <- atom ;;
  match a with
  | Some v => if bytes_eqb v (s2b "NIL") then ret [] else expect_fail
  | None => expect_string
  end.

(* Decoder.ExpectNStringReader + full consumption of the literal by the caller: None = NIL *)
Definition expect_nstring_reader : P (option bytes) :=
  a <- atom ;;
  match a with
  | Some v => if bytes_eqb v (s2b "NIL") then ret None else expect_fail
  | None =>
      q <- quoted ;;
      match q with
      | Some v => ret (Some v)
      | None =>
          l <- literal ;;
          match l with Some v => ret (Some v) | None => expect_fail end
      end
  end.

(* Decoder.ExpectMailbox *)
Definition expect_mailbox : P bytes :=
  name <- expect_astring ;;
  if equal_fold_ascii name INBOX then ret INBOX
  else match utf7_decode name with Some n => ret n | None => expect_fail end.

(* Decoder.ExpectNumSet: None = the "$" marker (imap.SearchRes) *)
Definition expect_numset : P (option nset) :=
  d <- special (ch "$") ;;
  if d then ret None
  else
    t <- func is_numset_char ;;
    match t with
    | None => expect_fail
    | Some t =>
        match parse_set t with
        | Some (Some set) => ret (Some set)
        | Some None => crash                    (* Set.insert index out of range *)
        | None => expect_fail
        end
    end.

(* Decoder.List: [item] gets the list depth it runs at; all error returns of List end the
   parse in every caller.  None = not a list. *)
Definition MAX_LIST_DEPTH : nat := 1000.

Fixpoint list_items {A} (k : nat) (item : P A) (acc : list A) : P (list A) :=
  match k with
  | O => out_of_fuel
  | S k' =>
      tick ;;;
      x <- item ;;
      c <- special (ch ")") ;;
      if c then ret (rev (x :: acc))
      else expect_sp ;;; list_items k' item (x :: acc)
  end.

Definition plist {A} (ld : nat) (item : nat -> P A) : P (option (list A)) :=
  o <- special (ch "(") ;;
  if o then
    c <- special (ch ")") ;;
    if c then ret (Some [])
    else if Nat.leb MAX_LIST_DEPTH (S ld) then expect_fail          (* exceeded max depth *)
    else l <- with_fuel (fun k => list_items k (item (S ld)) []) ;; ret (Some l)
  else ret None.

(* Decoder.ExpectList *)
Definition expect_list {A} (ld : nat) (item : nat -> P A) : P (list A) :=
  l <- plist ld item ;; match l with Some v => ret v | None => expect_fail end.

(* Decoder.ExpectNList: NIL or a list *)
Definition expect_nlist {A} (ld : nat) (item : nat -> P A) : P (list A) :=
  a <- atom ;;
  match a with
  | Some v => if bytes_eqb v (s2b "NIL") then ret [] else expect_fail
  | None => expect_list ld item
  end.

(* Decoder.DiscardValue.  [ld] = Decoder.listDepth, [rd] = Go call depth of the recursive
   readers.  A failed literal inside String does not stop DiscardValue: it goes on with
   List / Atom where the literal header failed. *)
Fixpoint discard_value (fuel : nat) (ld rd : nat) : P unit :=
  match fuel with
  | O => out_of_fuel
  | S f =>
      tick ;;; note_depth rd ;;;
      s <- string_ ;;
      match s with
      | Some _ => ret tt
      | None =>
          l <- plist ld (fun ld' => discard_value f ld' (S rd)) ;;
          match l with
          | Some _ => ret tt
          | None =>
              a <- atom ;;
              match a with Some _ => ret tt | None => expect_fail end
          end
      end
  end.
Definition discard_value_top (ld rd : nat) : P unit :=
  with_fuel (fun k => discard_value k ld rd).

(* "for dec.SP() { if !dec.DiscardValue() { return dec.Err() } }" *)
Fixpoint discard_values (k : nat) (ld rd : nat) : P unit :=
  match k with
  | O => out_of_fuel
  | S k' =>
      b <- sp ;;
      if b then tick ;;; discard_value_top ld rd ;;; discard_values k' ld rd
      else ret tt
  end.

(* ---------------------------------------------------------------------------------------- *)
(* Go string functions on byte strings, as far as the parser's decisions depend on them      *)

(* strings.ToUpper(s) compared with an ASCII constant: ASCII letters are raised; the only
   non-ASCII runes with an ASCII upper case are U+0131 (C4 B1 -> I) and U+017F (C5 BF -> S);
   any other byte >= 0x80 keeps the result non-ASCII (invalid UTF-8 becomes U+FFFD). *)
Fixpoint go_upper (s : bytes) : option bytes :=
  match s with
  | [] => Some []
  | a :: r =>
      if b2n a <? 128 then option_map (cons (to_upper_b a)) (go_upper r)
      else match r with
           | b :: r' =>
               if (b2n a =? 196) && (b2n b =? 177) then option_map (cons (ch "I")) (go_upper r')
               else if (b2n a =? 197) && (b2n b =? 191) then option_map (cons (ch "S")) (go_upper r')
               else None
           | [] => None
           end
  end.
Definition upper_is (s : bytes) (k : string) : bool :=
  match go_upper s with Some u => bytes_eqb u (s2b k) | None => false end.

(* strings.EqualFold(s, k) for a lower-case ASCII constant k: simple case folding pairs the
   ASCII letters with themselves, and additionally s/S with U+017F (C5 BF), k/K with U+212A
   (E2 84 AA) *)
Fixpoint go_equal_fold (s k : bytes) : bool :=
  match k with
  | [] => is_nil s
  | c :: k' =>
      match s with
      | [] => false
      | a :: r =>
          if b2n a <? 128 then beqb (to_lower_b a) c && go_equal_fold r k'
          else match r with
               | b :: r' =>
                   if (b2n a =? 197) && (b2n b =? 191) then beqb c (ch "s") && go_equal_fold r' k'
                   else match r' with
                        | d :: r'' =>
                            if (b2n a =? 226) && (b2n b =? 132) && (b2n d =? 170)
                            then beqb c (ch "k") && go_equal_fold r'' k'
                            else false
                        | [] => false
                        end
               | [] => false
               end
      end
  end.

(* ---------------------------------------------------------------------------------------- *)
(* time.Parse("_2-Jan-2006 15:04:05 -0700", s) followed by !t.IsZero()                       *)

Definition dval (c : byte) : Z := Z.of_N (b2n c - 48).
(* time.getnum *)
Definition getnum (fixed : bool) (s : bytes) : option (Z * bytes) :=
  match s with
  | a :: r =>
      if is_digit a then
        match r with
        | b :: r' => if is_digit b then Some (dval a * 10 + dval b, r')%Z
                     else if fixed then None else Some (dval a, r)
        | [] => if fixed then None else Some (dval a, r)
        end
      else None
  | [] => None
  end.
(* time.skip for a one-space prefix: fails when the value does not start with a space and is
   not empty; otherwise all leading spaces are cut *)
Fixpoint cutspace (s : bytes) : bytes :=
  match s with c :: r => if beqb c SP_ then cutspace r else s | [] => [] end.
Definition skip_space (s : bytes) : option bytes :=
  match s with
  | c :: _ => if beqb c SP_ then Some (cutspace s) else None
  | [] => Some []
  end.
Definition skip_char (c : byte) (s : bytes) : option bytes :=
  match s with x :: r => if beqb x c then Some r else None | [] => None end.
(* time.match: case-insensitive on ASCII letters *)
Definition month_char_match (c1 c2 : byte) : bool :=
  beqb c1 c2 ||
  (let l1 := N.lor (b2n c1) 32 in let l2 := N.lor (b2n c2) 32 in
   (l1 =? l2) && (97 <=? l1) && (l1 <=? 122)).
Fixpoint prefix_match (v name : bytes) : option bytes :=
  match name with
  | [] => Some v
  | c :: name' => match v with
                  | x :: v' => if month_char_match x c then prefix_match v' name' else None
                  | [] => None
                  end
  end.
Definition short_months : list bytes :=
  map s2b ["Jan"; "Feb"; "Mar"; "Apr"; "May"; "Jun"; "Jul"; "Aug"; "Sep"; "Oct"; "Nov"; "Dec"]%string.
Fixpoint lookup_month (i : Z) (tab : list bytes) (v : bytes) : option (Z * bytes) :=
  match tab with
  | [] => None
  | m :: tab' => match prefix_match v m with
                 | Some r => Some (i, r)
                 | None => lookup_month (i + 1)%Z tab' v
                 end
  end.
Definition is_leap (y : Z) : bool :=
  ((y mod 4 =? 0) && (negb (y mod 100 =? 0) || (y mod 400 =? 0)))%Z.
Definition days_in (m y : Z) : Z :=
  (if m =? 2 then (if is_leap y then 29 else 28)
   else if (m =? 4) || (m =? 6) || (m =? 9) || (m =? 11) then 30 else 31)%Z.
Definition days_before (m : Z) : Z :=
  nth (Z.to_nat (m - 1)) [0; 31; 59; 90; 120; 151; 181; 212; 243; 273; 304; 334]%Z 0%Z.
(* days since 0001-01-01 *)
Definition days_since_epoch (y m d : Z) : Z :=
  (let y1 := y - 1 in
   365 * y1 + y1 / 4 - y1 / 100 + y1 / 400 + days_before m
   + (if is_leap y && (2 <? m) then 1 else 0) + (d - 1))%Z.

Definition opt_bind {A B} (o : option A) (f : A -> option B) : option B :=
  match o with Some a => f a | None => None end.

(* the fractional second time.Parse accepts after the seconds field although the layout has
   none: returns (nanoseconds are zero, rest) *)
Fixpoint span_digits (s : bytes) : bytes * bytes :=
  match s with
  | c :: r => if is_digit c then let '(a, b) := span_digits r in (c :: a, b) else ([], s)
  | [] => ([], [])
  end.
Definition frac_second (s : bytes) : bool * bytes :=
  match s with
  | p :: d :: _ =>
      if (beqb p (ch ".") || beqb p (ch ",")) && is_digit d then
        let '(ds, rest) := span_digits (tl s) in
        (forallb (fun c => beqb c (ch "0")) (firstn 9 ds), rest)
      else (true, s)
  | _ => (true, s)
  end.

Definition internaldate_ok (s : bytes) : bool :=
  let v := match s with c :: r => if beqb c SP_ then r else s | [] => s end in
  match
    opt_bind (getnum false v) (fun '(day, v) =>
    opt_bind (skip_char (ch "-") v) (fun v =>
    opt_bind (lookup_month 1 short_months v) (fun '(month, v) =>
    opt_bind (skip_char (ch "-") v) (fun v =>
    opt_bind (match v with
              | a :: b :: c :: d :: r =>
                  if is_digit a && is_digit b && is_digit c && is_digit d
                  then Some (dval a * 1000 + dval b * 100 + dval c * 10 + dval d, r)%Z else None
              | _ => None
              end) (fun '(year, v) =>
    opt_bind (skip_space v) (fun v =>
    opt_bind (getnum false v) (fun '(hour, v) =>
    if (24 <=? hour)%Z then None else
    opt_bind (skip_char (ch ":") v) (fun v =>
    opt_bind (getnum true v) (fun '(mi, v) =>
    if (60 <=? mi)%Z then None else
    opt_bind (skip_char (ch ":") v) (fun v =>
    opt_bind (getnum true v) (fun '(sec, v) =>
    if (60 <=? sec)%Z then None else
    let '(nsec0, v) := frac_second v in
    opt_bind (skip_space v) (fun v =>
    match v with
    | sg :: h1 :: h2 :: m1 :: m2 :: rest =>
        opt_bind (getnum true [h1; h2]) (fun '(zh, _) =>
        opt_bind (getnum true [m1; m2]) (fun '(zm, _) =>
        if (24 <? zh)%Z || (60 <? zm)%Z then None else
        let off := ((zh * 60 + zm) * 60)%Z in
        opt_bind (if beqb sg (ch "+") then Some off else if beqb sg (ch "-") then Some (- off)%Z else None) (fun off =>
        match rest with
        | _ :: _ => None                                            (* extra text *)
        | [] =>
            if (day <? 1)%Z || (days_in month year <? day)%Z then None
            else
              let abs := (days_since_epoch year month day * 86400 + hour * 3600 + mi * 60 + sec - off)%Z in
              Some (negb ((abs =? 0)%Z && nsec0))                    (* !t.IsZero() *)
        end)))
    | _ => None
    end))))))))))))
  with
  | Some b => b
  | None => false
  end.

(* internal.ExpectDateTime *)
Definition expect_datetime : P unit :=
  q <- quoted ;;
  match q with
  | None => expect_fail
  | Some s => if internaldate_ok s then ret tt else expect_fail
  end.

(* ---------------------------------------------------------------------------------------- *)
(* flags, capabilities                                                                        *)

(* internal.ExpectFlag *)
Definition expect_flag : P bytes :=
  sys <- special BSL_ ;;
  w <- (if sys then special (ch "*") else ret false) ;;
  if w then ret (s2b "\*")
  else
    a <- expect_atom ;;
    ret (canonical_flag (if sys then BSL_ :: a else a)).
Definition expect_flag_list (ld : nat) : P (list bytes) := expect_list ld (fun _ => expect_flag).
Definition expect_mailbox_attr : P bytes := f <- expect_flag ;; ret (canonical_attr f).

(* readCapabilities: "for dec.SP() { ExpectAtom }" *)
Fixpoint read_caps (k : nat) (acc : list bytes) : P (list bytes) :=
  match k with
  | O => out_of_fuel
  | S k' =>
      b <- sp ;;
      if b then tick ;;; a <- expect_atom ;; read_caps k' (a :: acc)
      else ret (rev acc)
  end.
Definition read_capabilities : P (list bytes) := with_fuel (fun k => read_caps k []).

(* ---------------------------------------------------------------------------------------- *)
(* FETCH: envelope, body structure, sections                                                  *)

(* readAddress *)
Definition read_address : P (bytes * bytes) :=
  expect_special (ch "(") ;;;
  expect_nstring ;;; expect_sp ;;;
  expect_nstring ;;; expect_sp ;;;
  m <- expect_nstring ;; expect_sp ;;;
  h <- expect_nstring ;; expect_special (ch ")") ;;;
  ret (m, h).
Definition read_address_list (ld : nat) : P (list (bytes * bytes)) :=
  expect_nlist ld (fun _ => read_address).

(* readEnvelope *)
Definition read_envelope (ld : nat) : P (list (list (bytes * bytes))) :=
  expect_special (ch "(") ;;;
  expect_nstring ;;; expect_sp ;;; expect_nstring ;;; expect_sp ;;;
  a1 <- read_address_list ld ;; expect_sp ;;;
  a2 <- read_address_list ld ;; expect_sp ;;;
  a3 <- read_address_list ld ;; expect_sp ;;;
  a4 <- read_address_list ld ;; expect_sp ;;;
  a5 <- read_address_list ld ;; expect_sp ;;;
  a6 <- read_address_list ld ;; expect_sp ;;;
  expect_nstring ;;; expect_sp ;;; expect_nstring ;;;
  expect_special (ch ")") ;;;
  ret [a1; a2; a3; a4; a5; a6].

(* readBodyFldParam: strings alternate key / value; hasKey after the whole list *)
Fixpoint params_pending_key (has_key : bool) (l : list bytes) : bool :=
  match l with
  | [] => has_key
  | s :: r => params_pending_key (negb has_key) r
  end.
Definition read_body_fld_param (ld : nat) : P unit :=
  l <- expect_nlist ld (fun _ => expect_string) ;;
  if params_pending_key false l then fail else ret tt.

(* readBodyFldDsp *)
Definition read_body_fld_dsp (ld : nat) : P unit :=
  o <- special (ch "(") ;;
  if o then
    expect_string ;;; expect_sp ;;; read_body_fld_param ld ;;; expect_special (ch ")")
  else expect_nil.

(* readBodyFldLang *)
Definition read_body_fld_lang (ld : nat) : P unit :=
  l <- plist ld (fun _ => expect_string) ;;
  match l with
  | Some _ => ret tt
  | None => expect_nstring ;;; ret tt
  end.

(* the common tail of readBodyExt1part (after md5) and readBodyExtMpart (after the params) *)
Definition read_body_ext_tail (ld : nat) : P unit :=
  b <- sp ;;
  if b then
    read_body_fld_dsp ld ;;;
    b <- sp ;;
    if b then
      read_body_fld_lang ld ;;;
      b <- sp ;;
      if b then expect_nstring ;;; ret tt else ret tt
    else ret tt
  else ret tt.
Definition read_body_ext_1part (ld : nat) : P unit := expect_nstring ;;; read_body_ext_tail ld.
Definition read_body_ext_mpart (ld : nat) : P unit := read_body_fld_param ld ;;; read_body_ext_tail ld.

Definition MAX_BODY_DEPTH : nat := 1000.

Definition is_message_rfc822 (typ sub : bytes) : bool :=
  go_equal_fold typ (s2b "message") && (go_equal_fold sub (s2b "rfc822") || go_equal_fold sub (s2b "global")).

(* readNestedBody / readBodyType1part / readBodyTypeMpart.
   [bd] = the depth argument of readNestedBody, [ld] = Decoder.listDepth, [rd] = Go call depth. *)
Fixpoint read_body (fuel : nat) (ld bd rd : nat) : P bstruct :=
  match fuel with
  | O => out_of_fuel
  | S f =>
      tick ;;; note_depth rd ;;;
      if Nat.leb MAX_BODY_DEPTH bd then fail                         (* exceeded max depth *)
      else
        expect_special (ch "(") ;;;
        mt <- string_ ;;
        b <- match mt with
             | Some typ =>
                 (* readBodyType1part *)
                 expect_sp ;;; sub <- expect_string ;; expect_sp ;;;
                 read_body_fld_param ld ;;;
                 expect_sp ;;; expect_nstring ;;; expect_sp ;;; expect_nstring ;;; expect_sp ;;;
                 expect_nstring ;;; expect_sp ;;;
                 size <- expect_body_fld_octets ;;
                 has_sp <- sp ;;
                 if has_sp then
                   if is_message_rfc822 typ sub then
                     read_envelope ld ;;; expect_sp ;;;
                     inner <- read_body f ld (S bd) (S rd) ;;
                     expect_sp ;;; lines <- expect_number64 ;;
                     e <- sp ;; (if e then read_body_ext_1part ld else ret tt) ;;;
                     ret (BS1 typ sub size (Some lines) (Some inner))
                   else if go_equal_fold typ (s2b "text") then
                     lines <- expect_number64 ;;
                     e <- sp ;; (if e then read_body_ext_1part ld else ret tt) ;;;
                     ret (BS1 typ sub size (Some lines) None)
                   else
                     read_body_ext_1part ld ;;; ret (BS1 typ sub size None None)
                 else ret (BS1 typ sub size None None)
             | None =>
                 (* readBodyTypeMpart *)
                 let children :=
                   (fix children (k : nat) (acc : list bstruct) : P (list bstruct * bytes) :=
                      match k with
                      | O => out_of_fuel
                      | S k' =>
                          tick ;;;
                          c <- read_body f ld (S bd) (S rd) ;;
                          b <- sp ;;
                          if b then
                            st <- string_ ;;
                            match st with
                            | Some sub => ret (rev (c :: acc), sub)
                            | None => children k' (c :: acc)
                            end
                          else children k' (c :: acc)
                      end) in
                 cs <- with_fuel (fun k => children k []) ;;
                 e <- sp ;; (if e then read_body_ext_mpart ld else ret tt) ;;;
                 ret (BSM (fst cs) (snd cs))
             end ;;
        with_fuel (fun k => discard_values k ld (S rd)) ;;;
        expect_special (ch ")") ;;;
        ret b
  end.
Definition read_body_top (ld : nat) : P bstruct := with_fuel (fun k => read_body k ld 0 1).

(* readSectionPart: (part, dot) *)
Fixpoint read_section_part (k : nat) (acc : list N) : P (list N * bool) :=
  match k with
  | O => out_of_fuel
  | S k' =>
      let dot := negb (nilb acc) in
      d <- (if dot then special (ch ".") else ret true) ;;
      if negb d then ret (rev acc, false)
      else
        ds <- func is_digit ;;                        (* not Decoder.Number: a number that does not fit is an error *)
        match ds with
        | None => ret (rev acc, dot)
        | Some digits =>
            match parse_uint 4294967296 digits with
            | None => fail
            | Some v => tick ;;; read_section_part k' (v :: acc)
            end
        end
  end.
Definition section_part : P (list N * bool) := with_fuel (fun k => read_section_part k []).

(* readPartialOffset *)
Definition read_partial_offset : P (option N) :=
  o <- special (ch "<") ;;
  if o then n <- expect_number64 ;; expect_special (ch ">") ;;; ret (Some n)
  else ret None.

(* readSectionSpec (after "[") *)
Definition read_section_spec (ld : nat) : P section :=
  pd <- section_part ;;
  let '(part, dot) := pd in
  sf <- (if dot || nilb part then
           spec <- (if dot then expect_atom
                    else a <- atom ;; ret (match a with Some v => v | None => [] end)) ;;
           if upper_is spec "HEADER.FIELDS" || upper_is spec "HEADER.FIELDS.NOT" then
             expect_sp ;;;
             hl <- expect_list ld (fun _ => expect_astring) ;;
             ret (s2b "HEADER", hl, upper_is spec "HEADER.FIELDS.NOT")
           else ret (match go_upper spec with Some u => u | None => spec end, [], false)
         else ret ([], [], false)) ;;
  let '(spec, fields, isnot) := sf in
  expect_special (ch "]") ;;;
  off <- read_partial_offset ;;
  ret (mkSec part spec fields isnot off).

Definition is_msg_att_name_char (c : byte) : bool := negb (b2n c =? 91) && is_atom_char c.

(* one msg-att of handleFetch (runs at list depth 1) *)
Definition read_msg_att : P fitem :=
  n <- func is_msg_att_name_char ;;
  match n with
  | None => expect_fail
  | Some name =>
      let body_structure (ext : bool) :=
        expect_sp ;;; b <- read_body_top 1 ;; ret (FBodyStructure ext b) in
      if upper_is name "FLAGS" then expect_sp ;;; fl <- expect_flag_list 1 ;; ret (FFlags fl)
      else if upper_is name "ENVELOPE" then expect_sp ;;; e <- read_envelope 1 ;; ret (FEnvelope e)
      else if upper_is name "INTERNALDATE" then expect_sp ;;; expect_datetime ;;; ret FInternalDate
      else if upper_is name "RFC822.SIZE" then expect_sp ;;; v <- expect_number64 ;; ret (FSize v)
      else if upper_is name "UID" then
        expect_sp ;;; u <- expect_number ;; if u =? 0 then fail else ret (FUid u)
      else if upper_is name "BODY" || upper_is name "BINARY" then
        o <- special (ch "[") ;;
        if o then
          sec <- (if upper_is name "BODY" then read_section_spec 1
                  else
                    pd <- section_part ;;
                    if snd pd then fail
                    else expect_special (ch "]") ;;; ret (mkSec (fst pd) [] [] false None)) ;;
          expect_sp ;;;
          (if upper_is name "BINARY" then special (ch "~") else ret false) ;;;
          c <- expect_nstring_reader ;;
          ret (FBodySection (upper_is name "BINARY") sec c)
        else if upper_is name "BODY" then body_structure false
        else expect_fail
      else if upper_is name "BODYSTRUCTURE" then body_structure true
      else if upper_is name "BINARY.SIZE" then
        expect_special (ch "[") ;;;
        pd <- section_part ;;
        if snd pd then fail
        else
          expect_special (ch "]") ;;; expect_sp ;;;
          v <- expect_number ;; ret (FBinarySize (fst pd) v)
      else if upper_is name "MODSEQ" then
        expect_sp ;;; expect_special (ch "(") ;;; m <- expect_modseq ;; expect_special (ch ")") ;;;
        ret (FModSeq m)
      else fail
  end.

(* handleFetch: the message is handed over even when an error follows (deferred handleMsg);
   every completely read item is delivered *)
Definition handle_fetch (seq : N) : P unit :=
  if seq =? 0 then fail
  else
    emit (EvFetchBegin seq) ;;;
    expect_list 0 (fun _ => it <- read_msg_att ;; emit (EvFetchItem it)) ;;;
    ret tt.

(* ---------------------------------------------------------------------------------------- *)
(* SEARCH, ESEARCH, SORT, THREAD                                                              *)

(* handleSearch *)
Fixpoint search_nums (k : nat) : P unit :=
  match k with
  | O => out_of_fuel
  | S k' =>
      b <- sp ;;
      if b then
        tick ;;;
        o <- special (ch "(") ;;
        if o then
          name <- expect_atom ;; expect_sp ;;;
          if upper_is name "MODSEQ" then
            m <- expect_modseq ;; expect_special (ch ")") ;;; emit (EvSearchModSeq m)
          else fail
        else
          n <- expect_number ;;
          if n =? 0 then fail else emit (EvSearchNum n) ;;; search_nums k'
      else ret tt
  end.
Definition handle_search : P unit := with_fuel search_nums.

(* readESearchResponse *)
Definition es_upd (d : esearch) (f : esearch -> esearch) := f d.
Fixpoint esearch_items (k : nat) (name : bytes) (d : esearch) : P esearch :=
  match k with
  | O => out_of_fuel
  | S k' =>
      tick ;;; expect_sp ;;;
      d' <- (if upper_is name "MIN" then
               n <- expect_number ;;
               if n =? 0 then fail
               else ret (mkES (es_tag d) (es_uid d) (es_all d) (Some n) (es_max d) (es_count d) (es_modseq d))
             else if upper_is name "MAX" then
               n <- expect_number ;;
               if n =? 0 then fail
               else ret (mkES (es_tag d) (es_uid d) (es_all d) (es_min d) (Some n) (es_count d) (es_modseq d))
             else if upper_is name "ALL" then
               ns <- expect_numset ;;
               match ns with
               | None => fail                                          (* "$": dynamic *)
               | Some set =>
                   if dynamic set then fail
                   else ret (mkES (es_tag d) (es_uid d) (Some set) (es_min d) (es_max d) (es_count d) (es_modseq d))
               end
             else if upper_is name "COUNT" then
               n <- expect_number ;;
               ret (mkES (es_tag d) (es_uid d) (es_all d) (es_min d) (es_max d) (Some n) (es_modseq d))
             else if upper_is name "MODSEQ" then
               m <- expect_modseq ;;
               ret (mkES (es_tag d) (es_uid d) (es_all d) (es_min d) (es_max d) (es_count d) (Some m))
             else discard_value_top 0 1 ;;; ret d) ;;
      b <- sp ;;
      if b then nm <- expect_atom ;; esearch_items k' nm d' else ret d'
  end.

Definition read_esearch : P esearch :=
  o <- special (ch "(") ;;
  tag <- (if o then
            c <- expect_atom ;; expect_sp ;;; t <- expect_astring ;; expect_special (ch ")") ;;;
            if bytes_eqb c (s2b "TAG") then ret t else fail
          else ret []) ;;
  let d0 := mkES tag false None None None None None in
  b <- sp ;;
  if negb b then ret d0
  else
    name <- expect_atom ;;
    let uid := bytes_eqb name (s2b "UID") in
    let d1 := mkES tag uid None None None None None in
    if uid then
      b <- sp ;;
      if negb b then ret d1
      else name <- expect_atom ;; with_fuel (fun k => esearch_items k name d1)
    else with_fuel (fun k => esearch_items k name d1).

Definition handle_esearch : P unit :=
  expect_sp ;;; d <- read_esearch ;; emit (EvESearch d).

(* handleSort *)
Fixpoint sort_nums (k : nat) : P unit :=
  match k with
  | O => out_of_fuel
  | S k' =>
      b <- sp ;;
      if b then
        tick ;;; n <- expect_number ;;
        if n =? 0 then fail else emit (EvSortNum n) ;;; sort_nums k'
      else ret tt
  end.
Definition handle_sort : P unit := with_fuel sort_nums.

(* readThreadList: inside Decoder.ExpectList; numbers are read as long as no sub-thread has
   been seen, then only sub-threads *)
Fixpoint read_thread_list (fuel : nat) (ld rd : nat) : P thread :=
  match fuel with
  | O => out_of_fuel
  | S f =>
      tick ;;; note_depth rd ;;;
      o <- special (ch "(") ;;
      if o then
        c <- special (ch ")") ;;
        if c then ret (Thread [] [])
        else if Nat.leb MAX_LIST_DEPTH (S ld) then expect_fail
        else
          let items :=
            (fix items (k : nat) (chain : list N) (subs : list thread) : P thread :=
               match k with
               | O => out_of_fuel
               | S k' =>
                   tick ;;;
                   n <- (if nilb subs then number else ret None) ;;
                   cs <- match n with
                         | Some v => if v =? 0 then fail else ret (v :: chain, subs)
                         | None => t <- read_thread_list f (S ld) (S rd) ;; ret (chain, t :: subs)
                         end ;;
                   c <- special (ch ")") ;;
                   if c then ret (Thread (rev (fst cs)) (rev (snd cs)))
                   else expect_sp ;;; items k' (fst cs) (snd cs)
               end) in
          with_fuel (fun k => items k [] [])
      else expect_fail
  end.

(* handleThread *)
Fixpoint thread_lists (k : nat) : P unit :=
  match k with
  | O => out_of_fuel
  | S k' =>
      b <- sp ;;
      if b then
        tick ;;;
        t <- with_fuel (fun j => read_thread_list j 0 1) ;;
        emit (EvThread t) ;;; thread_lists k'
      else ret tt
  end.
Definition handle_thread : P unit := with_fuel thread_lists.

(* ---------------------------------------------------------------------------------------- *)
(* LIST, STATUS, NAMESPACE, QUOTA, QUOTAROOT, METADATA                                        *)

(* readDelim: 0 for NIL; a quoted string must be exactly one valid rune (not U+FFFD) *)
Definition read_delim : P N :=
  q <- quoted ;;
  match q with
  | Some s =>
      let '(r, w) := decode_rune (map b2n s) in
      if (r =? REPL) || negb (Nat.eqb w (length s)) then fail else ret r
  | None => expect_nil ;;; ret 0
  end.

(* readList *)
Definition read_list_ext_item : P (option bool * option bytes) :=
  tag <- expect_astring ;; expect_sp ;;;
  if upper_is tag "CHILDINFO" then
    opts <- expect_list 1 (fun _ => expect_astring) ;;
    ret (Some (existsb (fun o => upper_is o "SUBSCRIBED") opts), None)
  else if upper_is tag "OLDNAME" then
    expect_special (ch "(") ;;; n <- expect_mailbox ;; expect_special (ch ")") ;;;
    ret (None, Some n)
  else discard_value_top 1 1 ;;; ret (None, None).

Definition last_some {A} (l : list (option A)) : option A :=
  fold_left (fun acc x => match x with Some v => Some v | None => acc end) l None.

Definition handle_list : P unit :=
  attrs <- expect_list 0 (fun _ => expect_mailbox_attr) ;;
  expect_sp ;;;
  delim <- read_delim ;;
  expect_sp ;;;
  mbox <- expect_mailbox ;;
  b <- sp ;;
  ext <- (if b then expect_list 0 (fun _ => read_list_ext_item) else ret []) ;;
  emit (EvList attrs delim mbox (last_some (map fst ext)) (last_some (map snd ext))).

(* readStatusAttVal.  The default branch ends in "if !ok { return dec.Err() }" with ok = false:
   the item is accepted unless dec.err happens to be set already. *)
Definition read_status_att : P (option (N * N)) :=
  name <- expect_atom ;; expect_sp ;;;
  if upper_is name "MESSAGES" then n <- expect_number ;; ret (Some (0, n))
  else if upper_is name "UIDNEXT" then n <- expect_number ;; ret (Some (1, n))
  else if upper_is name "UIDVALIDITY" then n <- expect_number ;; ret (Some (2, n))
  else if upper_is name "UNSEEN" then n <- expect_number ;; ret (Some (3, n))
  else if upper_is name "DELETED" then n <- expect_number ;; ret (Some (4, n))
  else if upper_is name "SIZE" then n <- expect_number64 ;; ret (Some (5, n))
  else if upper_is name "APPENDLIMIT" then
    n <- number ;;
    match n with
    | Some v => ret (Some (6, v))
    | None => expect_nil ;;; ret (Some (6, 4294967295))
    end
  else if upper_is name "DELETED-STORAGE" then n <- expect_number64 ;; ret (Some (7, n))
  else if upper_is name "HIGHESTMODSEQ" then n <- expect_modseq ;; ret (Some (8, n))
  else
    discard_value_top 1 1 ;;;
    e <- err_is_set ;; if e then fail else ret None.

Fixpoint keep_some {A} (l : list (option A)) : list A :=
  match l with [] => [] | Some v :: r => v :: keep_some r | None :: r => keep_some r end.

Definition handle_status : P unit :=
  mbox <- expect_mailbox ;; expect_sp ;;;
  items <- expect_list 0 (fun _ => read_status_att) ;;
  emit (EvStatus mbox (keep_some items)).

(* readNamespaceDescr / readNamespace / readNamespaceResponse *)
Definition read_namespace_descr : P (bytes * N) :=
  expect_special (ch "(") ;;;
  prefix <- expect_string ;; expect_sp ;;;
  delim <- read_delim ;;
  with_fuel (fun k => discard_values k 1 1) ;;;
  expect_special (ch ")") ;;;
  ret (prefix, delim).
Definition read_namespace : P (list (bytes * N)) := expect_nlist 0 (fun _ => read_namespace_descr).
Definition handle_namespace : P unit :=
  a <- read_namespace ;; expect_sp ;;;
  b <- read_namespace ;; expect_sp ;;;
  c <- read_namespace ;;
  emit (EvNamespace [a; b; c]).

(* readQuotaResponse *)
Definition handle_quota : P unit :=
  root <- expect_astring ;; expect_sp ;;;
  res <- expect_list 0 (fun _ =>
           name <- expect_atom ;; expect_sp ;;;
           usage <- expect_number64 ;; expect_sp ;;;
           limit <- expect_number64 ;;
           ret (name, usage, limit)) ;;
  emit (EvQuota root res).

(* readQuotaRoot *)
Fixpoint quota_roots (k : nat) (acc : list bytes) : P (list bytes) :=
  match k with
  | O => out_of_fuel
  | S k' =>
      b <- sp ;;
      if b then tick ;;; r <- expect_astring ;; quota_roots k' (r :: acc)
      else ret (rev acc)
  end.
Definition handle_quotaroot : P unit :=
  mbox <- expect_mailbox ;;
  roots <- with_fuel (fun k => quota_roots k []) ;;
  emit (EvQuotaRoot mbox roots).

(* readMetadataResp *)
Fixpoint metadata_entries (k : nat) (acc : list bytes) : P (list bytes) :=
  match k with
  | O => out_of_fuel
  | S k' =>
      b <- sp ;;
      if b then tick ;;; n <- expect_astring ;; metadata_entries k' (n :: acc)
      else ret (rev acc)
  end.
Definition handle_metadata : P unit :=
  mbox <- expect_mailbox ;; expect_sp ;;;
  vals <- plist 0 (fun _ =>
            name <- expect_astring ;; expect_sp ;;;
            v <- string_ ;;
            match v with
            | Some b => ret (name, Some b)
            | None =>
                v2 <- literal ;;
                match v2 with
                | Some b => ret (name, Some b)
                | None => expect_nil ;;; ret (name, None)
                end
            end) ;;
  match vals with
  | Some l => emit (EvMetadata mbox l [])
  | None =>
      n <- expect_astring ;;
      rest <- with_fuel (fun k => metadata_entries k []) ;;
      emit (EvMetadata mbox [] (n :: rest))
  end.

(* ---------------------------------------------------------------------------------------- *)
(* status responses, response codes, tagged responses                                         *)

(* readRespCodeCopyUID *)
Definition read_copyuid : P rcode :=
  v <- expect_number ;; expect_sp ;;;
  src <- expect_numset ;; expect_sp ;;;
  dst <- expect_numset ;;
  match src, dst with
  | Some s, Some d => if dynamic s || dynamic d then fail else ret (CCopyUid v s d)
  | _, _ => fail                                                     (* "$": dynamic *)
  end.

(* the "default:" branch of both resp-text-code switches *)
Definition read_other_code : P unit :=
  b <- sp ;; if b then discard_until (ch "]") else ret tt.

(* resp-text-code of a tagged response (readResponseTagged); the data is used at once *)
Definition read_tagged_code (name : bytes) : P unit :=
  if bytes_eqb name (s2b "CAPABILITY") then l <- read_capabilities ;; emit (EvCode true (CCaps l))
  else if bytes_eqb name (s2b "APPENDUID") then
    expect_sp ;;; v <- expect_number ;; expect_sp ;;; u <- expect_number ;;
    if u =? 0 then fail else emit (EvCode true (CAppendUid v u))
  else if bytes_eqb name (s2b "COPYUID") then expect_sp ;;; c <- read_copyuid ;; emit (EvCode true c)
  else read_other_code.

(* resp-text-code of an untagged status response (readResponseData) *)
Definition read_untagged_code (name : bytes) : P unit :=
  if bytes_eqb name (s2b "CAPABILITY") then l <- read_capabilities ;; emit (EvCode false (CCaps l))
  else if bytes_eqb name (s2b "PERMANENTFLAGS") then
    expect_sp ;;; fl <- expect_flag_list 0 ;; emit (EvCode false (CPermFlags fl))
  else if bytes_eqb name (s2b "UIDNEXT") then
    expect_sp ;;; n <- expect_number ;; emit (EvCode false (CUidNext n))
  else if bytes_eqb name (s2b "UIDVALIDITY") then
    expect_sp ;;; n <- expect_number ;; emit (EvCode false (CUidValidity n))
  else if bytes_eqb name (s2b "COPYUID") then expect_sp ;;; c <- read_copyuid ;; emit (EvCode false c)
  else if bytes_eqb name (s2b "HIGHESTMODSEQ") then
    expect_sp ;;; n <- expect_modseq ;; emit (EvCode false (CHighestModSeq n))
  else if bytes_eqb name (s2b "NOMODSEQ") then ret tt
  else read_other_code.

(* "hasSP := SP(); [code]; text" shared by both status readers: returns the code name *)
Definition read_resp_text (code_reader : bytes -> P unit) : P bytes :=
  has_sp <- sp ;;
  o <- (if has_sp then special (ch "[") else ret false) ;;
  cs <- (if o then
           name <- expect_atom ;;
           code_reader name ;;;
           expect_special (ch "]") ;;;
           b <- sp ;; ret (name, b)
         else ret ([], has_sp)) ;;
  (if snd cs then t <- text ;; match t with Some _ => ret tt | None => expect_fail end else ret tt) ;;;
  ret (fst cs).

(* readResponseTagged: [tags] = tags of the pending commands *)
Fixpoint remove_tag (t : bytes) (l : list bytes) : option (list bytes) :=
  match l with
  | [] => None
  | x :: r => if bytes_eqb x t then Some r
              else match remove_tag t r with Some r' => Some (x :: r') | None => None end
  end.

Definition read_response_tagged (tags : list bytes) (tag typ : bytes) : P (list bytes) :=
  match remove_tag tag tags with
  | None => fail                                                     (* unknown tag *)
  | Some tags' =>
      read_resp_text read_tagged_code ;;;
      st <- (if bytes_eqb typ (s2b "OK") then ret 0
             else if bytes_eqb typ (s2b "NO") then ret 1
             else if bytes_eqb typ (s2b "BAD") then ret 2
             else fail) ;;
      expect_crlf ;;;
      emit (EvTagged tag st) ;;;
      ret tags'
  end.

(* readResponseData *)
Definition is_status_type (typ : bytes) : bool :=
  existsb (bytes_eqb typ) (map s2b ["OK"; "PREAUTH"; "NO"; "BAD"; "BYE"]%string).

Definition typ_is (t : bytes) (k : string) : bool := bytes_eqb t (s2b k).

Definition read_response_data (typ0 : bytes) : P unit :=
  match typ0 with
  | [] => crash                                                      (* typ[0] *)
  | c0 :: _ =>
      nt <- (if is_digit c0 then
               match parse_uint 4294967296 typ0 with
               | None => fail
               | Some v => expect_sp ;;; t <- expect_atom ;; ret (v, t)
               end
             else ret (0, typ0)) ;;
      let '(num, typ) := nt in
      if is_status_type typ then
        c <- read_resp_text read_untagged_code ;; emit (EvStatusResp typ c)
      else if typ_is typ "CAPABILITY" then l <- read_capabilities ;; emit (EvCaps l)
      else if typ_is typ "ENABLED" then l <- read_capabilities ;; emit (EvEnabled l)
      else if typ_is typ "NAMESPACE" then expect_sp ;;; handle_namespace
      else if typ_is typ "FLAGS" then expect_sp ;;; fl <- expect_flag_list 0 ;; emit (EvFlags fl)
      else if typ_is typ "EXISTS" then emit (EvExists num)
      else if typ_is typ "RECENT" then ret tt
      else if typ_is typ "LIST" then expect_sp ;;; handle_list
      else if typ_is typ "STATUS" then expect_sp ;;; handle_status
      else if typ_is typ "FETCH" then expect_sp ;;; handle_fetch num
      else if typ_is typ "EXPUNGE" then (if num =? 0 then fail else emit (EvExpunge num))
      else if typ_is typ "SEARCH" then handle_search
      else if typ_is typ "ESEARCH" then handle_esearch
      else if typ_is typ "SORT" then handle_sort
      else if typ_is typ "THREAD" then handle_thread
      else if typ_is typ "METADATA" then expect_sp ;;; handle_metadata
      else if typ_is typ "QUOTA" then expect_sp ;;; handle_quota
      else if typ_is typ "QUOTAROOT" then expect_sp ;;; handle_quotaroot
      else fail
  end.

(* readContinueReq: the harness never has a continuation request outstanding, so the request
   is unmatched and the reader fails after the line has been read *)
Definition read_continue_req : P unit :=
  b <- sp ;; (if b then text ;;; ret tt else ret tt) ;;;
  expect_crlf ;;; fail.

(* readResponse *)
Definition read_response (tags : list bytes) : P (list bytes) :=
  plus <- special (ch "+") ;;
  if plus then read_continue_req ;;; ret tags
  else
    star <- special (ch "*") ;;
    tag <- (if star then ret [] else a <- atom ;; match a with Some t => ret t | None => expect_fail end) ;;
    expect_sp ;;;
    typ <- expect_atom ;;
    if is_nil tag then read_response_data typ ;;; expect_crlf ;;; ret tags
    else read_response_tagged tags tag typ.

(* Client.read: responses until end of input (dec.EOF()) or the first error *)
Fixpoint read_loop (k : nat) (tags : list bytes) : P unit :=
  match k with
  | O => out_of_fuel
  | S k' =>
      fun s => match s_in s with
               | [] => Ok tt s                                        (* dec.EOF() *)
               | _ => (tick ;;; tags' <- read_response tags ;; read_loop k' tags') s
               end
  end.

Definition init_st (input : bytes) : st := mkSt input false O O [].

(* the whole reader on a complete server byte stream, with [tags] pending *)
Definition read_stream (tags : list bytes) (input : bytes) : res unit :=
  read_loop (S (length input)) tags (init_st input).

(* ---------------------------------------------------------------------------------------- *)
(* accessors on delivered data (search.go: AllSeqNums / AllUIDs; numset.go: Nums)             *)

Inductive acc_result := AccOk (l : list N) | AccPanic.
Definition all_nums (d : esearch) : acc_result :=
  match es_all d with
  | None => AccOk []
  | Some set => match nums set with NumsOk l => AccOk l | NumsNotStatic => AccPanic end
  end.
(* the set an untagged SEARCH response builds with AddNum; None = Set.insert would panic *)
Definition search_set (l : list N) : option nset :=
  fold_left (fun acc n => match acc with Some s => add_num s n | None => None end) l (Some []).
Definition search_all_nums (l : list N) : acc_result :=
  match search_set l with
  | Some set => match nums set with NumsOk r => AccOk r | NumsNotStatic => AccPanic end
  | None => AccPanic
  end.
