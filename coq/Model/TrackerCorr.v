(* Model/TrackerCorr.v — C07 correspondence: observables of a tracker history. *)
From GoImap.Base Require Import Bytes.
From GoImap.Model Require Import NumSetCorr MatchList Tracker.
Open Scope N_scope.

(* an emitted update as seen on the wire: (kind, a, b); 1 EXPUNGE k, 2 EXISTS n, 3 FLAGS, 4 FETCH seq uid *)
Definition eupd := (N * N * N)%type.
Definition erase_upd (u : upd) : eupd :=
  match u with
  | UExpunge k => (1, k, 0)
  | UExists _ n _ => (2, n, 0)
  | UMboxFlags _ => (3, 0, 0)
  | UFetch seq uid _ => (4, seq, uid)
  end.
Definition eupd_eqb (a b : eupd) : bool :=
  let '(x1, y1, z1) := a in let '(x2, y2, z2) := b in (x1 =? x2) && (y1 =? y2) && (z1 =? z2).

(* outcome: (0 none | 1 panic | 2 poll, emitted) *)
Definition out_obs (o : out) : N * list eupd :=
  match o with OutNone => (0, []) | OutCrash => (1, []) | OutPoll em => (2, map erase_upd em) end.

Definition probes (k : N) : list N := map N.of_nat (seq 0 (S (N.to_nat k))).

(* per session after a step: (sid, Decode(0..K), Encode(0..K)) *)
Definition sess_obs := (N * list N * list N)%type.
Definition observe_sess (k : N) (t : tracker) (s : sess) : sess_obs :=
  (s_id s, map (decode t s) (probes k), map (encode t s) (probes k)).
Definition sess_obs_eqb (a b : sess_obs) : bool :=
  let '(i1, d1, e1) := a in let '(i2, d2, e2) := b in
  (i1 =? i2) && list_eqb N.eqb d1 d2 && list_eqb N.eqb e1 e2.

Definition step_rec := (op * (N * list eupd) * list sess_obs)%type.
Definition tr_case := (N * N * list step_rec)%type.     (* n0, K, steps *)

Fixpoint run_case (k : N) (t : tracker) (steps : list step_rec) : bool :=
  match steps with
  | [] => true
  | (o, (kind, em), sobs) :: rest =>
      let '(t', out) := step t o in
      let '(mk, mem) := out_obs out in
      (mk =? kind) && list_eqb eupd_eqb mem em &&
      list_eqb sess_obs_eqb (map (observe_sess k t') (t_sess t')) sobs &&
      run_case k t' rest
  end.
Definition tr_ok (c : tr_case) : bool := let '(n0, k, steps) := c in run_case k (init n0) steps.
Definition tr_mismatches (cs : list tr_case) : list N := idx_filter tr_ok 0 cs.
