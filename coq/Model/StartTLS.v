(* Model/StartTLS.v — the byte hand-off at STARTTLS on both sides (imapserver/starttls.go
   handleStartTLS, imapclient/starttls.go upgradeStartTLS): a bufio.Reader over a connection
   that delivers the stream in arbitrary chunks; the IMAP layer reads the STARTTLS line byte by
   byte; then Buffered() bytes are drained and prepended to the connection handed to crypto/tls. *)
From GoImap.Base Require Import Bytes.
Open Scope N_scope.

Definition LF : byte := n2b 10.

(* bufio.Reader: unread buffered bytes + chunks the connection will still deliver *)
Record breader := mkR { b_buf : bytes; b_chunks : list bytes }.

(* ReadByte: refill from the next non-empty chunk when the buffer is empty (a Read returning
   0 bytes is retried by bufio); None = EOF *)
Fixpoint read_byte_from (chunks : list bytes) : option (byte * breader) :=
  match chunks with
  | [] => None
  | [] :: cs => read_byte_from cs
  | (c :: rest) :: cs => Some (c, mkR rest cs)
  end.
Definition read_byte (r : breader) : option (byte * breader) :=
  match b_buf r with
  | c :: rest => Some (c, mkR rest (b_chunks r))
  | [] => read_byte_from (b_chunks r)
  end.

(* the IMAP layer consumes one line: everything up to and including the first LF;
   fuel = number of bytes available *)
Fixpoint read_line_b (fuel : nat) (r : breader) (acc : bytes) : option (bytes * breader) :=
  match fuel with
  | O => None
  | S f =>
      match read_byte r with
      | None => None
      | Some (c, r') => if beqb c LF then Some (rev (c :: acc), r') else read_line_b f r' (c :: acc)
      end
  end.

(* what the TLS layer will read: the drained buffer (io.CopyN(&buf, br, br.Buffered())) in
   front of the connection (io.MultiReader(&buf, conn)) *)
Definition tls_input (r : breader) : bytes := b_buf r ++ concat (b_chunks r).

(* the whole switch: (bytes the IMAP layer consumed, bytes handed to the TLS layer) *)
Definition starttls_switch (chunks : list bytes) : option (bytes * bytes) :=
  match read_line_b (S (length (concat chunks))) (mkR [] chunks) [] with
  | None => None
  | Some (line, r) => Some (line, tls_input r)
  end.
