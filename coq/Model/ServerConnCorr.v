(* Model/ServerConnCorr.v — C05 correspondence: observed command outcomes vs the model. *)
From GoImap.Base Require Import Bytes.
From GoImap.Model Require Import NumSetCorr MatchList ServerConn.
Open Scope N_scope.

Definition cstate_eqb (a b : cstate) : bool :=
  match a, b with
  | SNotAuth, SNotAuth | SAuth, SAuth | SSelected, SSelected | SLogout, SLogout => true
  | _, _ => false
  end.
Definition call_eqb (a b : call) : bool :=
  match a, b with
  | KLogin, KLogin | KUnauth, KUnauth | KSelect, KSelect | KUnselect, KUnselect | KCreate, KCreate
  | KDelete, KDelete | KRename, KRename | KSubscribe, KSubscribe | KUnsubscribe, KUnsubscribe
  | KList, KList | KStatus, KStatus | KAppend, KAppend | KNamespace, KNamespace | KIdle, KIdle
  | KExpunge, KExpunge | KFetch, KFetch | KStore, KStore | KSearch, KSearch | KCopy, KCopy | KMove, KMove => true
  | KPoll x, KPoll y => Bool.eqb x y
  | _, _ => false
  end.
Definition rclass_eqb (a b : rclass) : bool :=
  match a, b with ROk, ROk | RNo, RNo | RBad, RBad => true | _, _ => false end.
Definition kc_eqb (a b : call * cstate) : bool := call_eqb (fst a) (fst b) && cstate_eqb (snd a) (snd b).

(* observed: calls with the state each saw, tagged class, BYE seen, state and transport after *)
Definition sc_obs := (list (call * cstate) * rclass * bool * cstate * bool)%type.
Definition sc_step := (cmd * list bool * sc_obs)%type.
Definition sc_case := (scfg * bool * list sc_step)%type.

Fixpoint sc_run (cfg : scfg) (c : conn) (steps : list sc_step) : bool :=
  match steps with
  | [] => true
  | (m, outs, (calls, cls, bye, s', t')) :: rest =>
      match st c with
      | SLogout => false                        (* the server processed a command after logout *)
      | _ =>
          let r := handle cfg c m outs in
          list_eqb kc_eqb (r_calls r) calls && rclass_eqb (r_class r) cls && Bool.eqb (r_bye r) bye &&
          cstate_eqb (st (r_conn r)) s' && Bool.eqb (tls (r_conn r)) t' && sc_run cfg (r_conn r) rest
      end
  end.
Definition sc_ok (c : sc_case) : bool := let '(cfg, tls0, steps) := c in sc_run cfg (init_conn cfg tls0) steps.
Definition sc_mismatches (cs : list sc_case) : list N := idx_filter sc_ok 0 cs.
