(* Model/ClientConn.v — the client's response routing and mirrored protocol state
   (imapclient/client.go: beginCommand, readResponseTagged, completeCommand, closeWithError,
   readResponseData's state-bearing cases; select.go: handleExists / handleFlags;
   expunge.go: handleExpunge).  Events are what happens to a client in time order: command
   submissions by the user and parsed server responses.                                      *)
From GoImap.Base Require Import Bytes.
Open Scope N_scope.

Inductive ckind :=
| KLogin | KSelect (name : N) | KUnselect | KLogout | KExpunge | KPlain    (* KPlain: NOOP, STATUS, FETCH, ... *)
| KList | KSearch.                     (* commands that collect LIST / SEARCH data *)

(* connection state: 0 none, 1 not authenticated, 2 authenticated, 3 selected, 4 logout *)
Definition S_NONE := 0. Definition S_NOTAUTH := 1. Definition S_AUTH := 2.
Definition S_SEL := 3. Definition S_LOGOUT := 4.

Record mboxsum := mkMb { mb_name : N; mb_num : N; mb_flags : list N; mb_perm : list N }.

(* a pending command; SELECT accumulates its data *)
Record pcmd := mkP { p_tag : N; p_kind : ckind; p_num : N; p_flags : list N; p_perm : list N;
                     p_expunged : list N (* EXPUNGE command: numbers delivered *) }.

(* completion status: 0 OK, 1 NO, 2 BAD, 3 error (connection lost / closed) *)
Record client := mkC {
  c_state : N;
  c_mbox : option mboxsum;
  c_pending : list pcmd;
  c_tag : N;                          (* cmdTag: tags are T1, T2, ... *)
  c_done : list (N * N);              (* completions delivered, newest first: (tag, status) *)
  c_closed : bool
}.

Inductive cev :=
| EvGreeting (kind : N)               (* 0 OK, 1 PREAUTH, 2 BYE *)
| EvSubmit (k : ckind)
| EvTagged (tag status : N)           (* status 0 OK 1 NO 2 BAD *)
| EvExists (n : N)
| EvExpunge (n : N)
| EvFlags (fl : list N)
| EvPermFlags (fl : list N)
| EvClosed                            (* untagged OK [CLOSED] *)
| EvOther                             (* any other untagged data: no effect on the mirrored state *)
| EvListData (n : N)                  (* untagged LIST naming mailbox n *)
| EvSearchData (l : list N)           (* untagged SEARCH with these numbers *)
| EvConnLost.                         (* EOF, read/write error, timeout, Close() *)

Definition init_client : client := mkC S_NONE None [] 0 [] false.

Definition is_select (p : pcmd) : bool := match p_kind p with KSelect _ => true | _ => false end.
Definition is_expunge (p : pcmd) : bool := match p_kind p with KExpunge => true | _ => false end.

(* findPendingCmdByType: the first pending command of the kind *)
Fixpoint upd_first (f : pcmd -> bool) (g : pcmd -> pcmd) (l : list pcmd) : option (list pcmd) :=
  match l with
  | [] => None
  | p :: r => if f p then Some (g p :: r)
              else match upd_first f g r with Some r' => Some (p :: r') | None => None end
  end.

Fixpoint take_tag (t : N) (l : list pcmd) : option (pcmd * list pcmd) :=
  match l with
  | [] => None
  | p :: r => if p_tag p =? t then Some (p, r)
              else match take_tag t r with Some (q, r') => Some (q, p :: r') | None => None end
  end.

(* closeWithError: every pending command completes with an error, state logout *)
(* (the state is assigned directly, not through setState: the mailbox summary is kept) *)
Definition close_with_error (c : client) : client :=
  mkC S_LOGOUT (c_mbox c) [] (c_tag c)
      (rev (map (fun p => (p_tag p, 3)) (c_pending c)) ++ c_done c) true.

Definition set_state (c : client) (s : N) : client :=
  mkC s (if s =? S_SEL then c_mbox c else None) (c_pending c) (c_tag c) (c_done c) (c_closed c).

(* completeCommand's state transitions for a successful command *)
Definition on_ok (c : client) (p : pcmd) : client :=
  match p_kind p with
  | KLogin => set_state c S_AUTH
  | KSelect name =>
      mkC S_SEL (Some (mkMb name (p_num p) (p_flags p) (p_perm p))) (c_pending c) (c_tag c) (c_done c) (c_closed c)
  | KUnselect => set_state c S_AUTH
  | KLogout => set_state c S_LOGOUT
  | _ => c
  end.

Definition step (c : client) (e : cev) : client :=
  if c_closed c then
    (* after the connection is gone a new command fails at once (its write fails, and
       closeWithError completes it); server events no longer exist *)
    match e with
    | EvSubmit _ => mkC (c_state c) (c_mbox c) [] (c_tag c + 1) ((c_tag c + 1, 3) :: c_done c) true
    | _ => c
    end
  else
  match e with
  | EvGreeting k =>
      if k =? 0 then set_state c S_NOTAUTH
      else if k =? 1 then set_state c S_AUTH
      else close_with_error (set_state c S_LOGOUT)            (* greeting error ends the reader *)
  | EvSubmit k =>
      let t := c_tag c + 1 in
      mkC (c_state c) (c_mbox c) (c_pending c ++ [mkP t k 0 [] [] []]) t (c_done c) false
  | EvTagged t s =>
      match take_tag t (c_pending c) with
      | None => close_with_error c                            (* unknown tag: protocol error *)
      | Some (p, rest) =>
          let c1 := mkC (c_state c) (c_mbox c) rest (c_tag c) ((t, s) :: c_done c) false in
          if s =? 0 then on_ok c1 p else c1
      end
  | EvExists n =>
      match upd_first is_select (fun p => mkP (p_tag p) (p_kind p) n (p_flags p) (p_perm p) (p_expunged p)) (c_pending c) with
      | Some l => mkC (c_state c) (c_mbox c) l (c_tag c) (c_done c) false
      | None =>
          match c_mbox c with
          | Some m => if c_state c =? S_SEL
                      then mkC (c_state c) (Some (mkMb (mb_name m) n (mb_flags m) (mb_perm m))) (c_pending c) (c_tag c) (c_done c) false
                      else c
          | None => c
          end
      end
  | EvExpunge n =>
      let c1 :=
        match c_mbox c with
        | Some m => if (c_state c =? S_SEL) && (0 <? mb_num m)
                    then mkC (c_state c) (Some (mkMb (mb_name m) (mb_num m - 1) (mb_flags m) (mb_perm m))) (c_pending c) (c_tag c) (c_done c) false
                    else c
        | None => c
        end in
      match upd_first is_expunge (fun p => mkP (p_tag p) (p_kind p) (p_num p) (p_flags p) (p_perm p) (p_expunged p ++ [n])) (c_pending c1) with
      | Some l => mkC (c_state c1) (c_mbox c1) l (c_tag c1) (c_done c1) false
      | None => c1
      end
  | EvFlags fl =>
      let c1 :=
        match c_mbox c with
        | Some m => if c_state c =? S_SEL
                    then mkC (c_state c) (Some (mkMb (mb_name m) (mb_num m) fl (mb_perm m))) (c_pending c) (c_tag c) (c_done c) false
                    else c
        | None => c
        end in
      match upd_first is_select (fun p => mkP (p_tag p) (p_kind p) (p_num p) fl (p_perm p) (p_expunged p)) (c_pending c1) with
      | Some l => mkC (c_state c1) (c_mbox c1) l (c_tag c1) (c_done c1) false
      | None => c1
      end
  | EvPermFlags fl =>
      let c1 :=
        match c_mbox c with
        | Some m => if c_state c =? S_SEL
                    then mkC (c_state c) (Some (mkMb (mb_name m) (mb_num m) (mb_flags m) fl)) (c_pending c) (c_tag c) (c_done c) false
                    else c
        | None => c
        end in
      match upd_first is_select (fun p => mkP (p_tag p) (p_kind p) (p_num p) (p_flags p) fl (p_expunged p)) (c_pending c1) with
      | Some l => mkC (c_state c1) (c_mbox c1) l (c_tag c1) (c_done c1) false
      | None => c1
      end
  | EvClosed => set_state c S_AUTH
  | EvOther => c
  | EvListData _ => c
  | EvSearchData _ => c
  | EvConnLost => close_with_error c
  end.

Definition run (evs : list cev) : client := fold_left step evs init_client.

(* ---- delivery of data responses (handleList / handleSearch / handleExpunge: the first
   pending command of the matching type, findPendingCmdByType / findPendingCmdFunc) ---- *)
Definition is_list (p : pcmd) : bool := match p_kind p with KList => true | _ => false end.
Definition is_search (p : pcmd) : bool := match p_kind p with KSearch => true | _ => false end.

Definition first_tag (f : pcmd -> bool) (l : list pcmd) : option N :=
  match find f l with Some p => Some (p_tag p) | None => None end.

(* which pending command collects which datum of event e in state c: (tag, datum) *)
Definition wants (e : cev) : option ((pcmd -> bool) * list N) :=
  match e with
  | EvListData n => Some (is_list, [n])
  | EvSearchData l => Some (is_search, l)
  | EvExpunge n => Some (is_expunge, [n])
  | _ => None
  end.

Definition route (c : client) (e : cev) : list (N * N) :=
  if c_closed c then [] else
  match wants e with
  | Some (f, data) =>
      match first_tag f (c_pending c) with
      | Some t => map (fun n => (t, n)) data
      | None => []                      (* nobody asked: unilateral data handler *)
      end
  | None => []
  end.

Fixpoint deliveries_from (c : client) (evs : list cev) : list (N * N) :=
  match evs with
  | [] => []
  | e :: r => route c e ++ deliveries_from (step c e) r
  end.
Definition deliveries (evs : list cev) : list (N * N) := deliveries_from init_client evs.

(* the data collected by the command with tag t, in arrival order *)
Definition collected (evs : list cev) (t : N) : list N :=
  map snd (filter (fun d => fst d =? t) (deliveries evs)).
