(* Model/MemRef.v — executable reference model of the in-memory backend
   (imapserver/imapmemserver: user.go, mailbox.go, message.go, session.go) as driven by the
   command handlers of imapserver (select.go, status.go, list.go, append.go, store.go,
   copy.go, move.go, expunge.go, search.go, fetch.go).

   State = the user's mailbox objects (a heap that keeps every object ever created, because a
   session may keep a deleted mailbox selected), the name -> object binding, prevUidValidity,
   and the selected object of each session.  One command = one [step]; its result is the
   list of data responses the command produces and the tagged completion.

   Views are fresh: every session has been polled (NOOP) before the command, so that the
   client-side sequence number of a message is its position in Mailbox.l (what the
   SessionTracker does with stale views is C07/C08).  Unilateral EXISTS/EXPUNGE/FETCH FLAGS
   updates are not part of the result.  uidNext/prevUidValidity are unbounded here (uint32 in
   Go: 2^32-1 allocations are needed to wrap).  Set insertion (imapnum Set.insert) is used in
   its total form: its index panics are unreachable (C15).  No proofs in this file.         *)
From GoImap.Base Require Import Bytes.
From GoImap.Model Require Import NumSet MatchList Search MemRefMsg.
Open Scope N_scope.

(* ---- state ---- *)
Record mmsg := { mm_uid : N; mm_flags : list bytes; mm_time : Z; mm_zone : Z; mm_buf : bytes }.
Record mailbox := { mb_name : bytes; mb_uv : N; mb_next : N; mb_sub : bool; mb_msgs : list mmsg }.
Record state := {
  st_heap : list mailbox;              (* object id = creation index *)
  st_names : list (bytes * nat);       (* User.mailboxes *)
  st_prev : N;                         (* User.prevUidValidity *)
  st_sel : list (option nat);          (* per session: the selected mailbox object *)
  st_ro : list bool                    (* per session: MailboxView.readOnly of the selected view (set by
                                          SELECT/EXAMINE; meaningful only while the session has a selection) *)
}.

Definition init (nsess : nat) : state :=
  {| st_heap := []; st_names := []; st_prev := 0; st_sel := repeat None nsess; st_ro := repeat false nsess |}.

Fixpoint lookup (n : bytes) (l : list (bytes * nat)) : option nat :=
  match l with [] => None | (k, v) :: r => if bytes_eqb k n then Some v else lookup n r end.
Definition unbind (n : bytes) (l : list (bytes * nat)) : list (bytes * nat) :=
  filter (fun kv => negb (bytes_eqb (fst kv) n)) l.

Fixpoint update_nth {A} (i : nat) (f : A -> A) (l : list A) : list A :=
  match l, i with
  | [], _ => []
  | x :: r, O => f x :: r
  | x :: r, S j => x :: update_nth j f r
  end.

Definition set_msgs (ms : list mmsg) (mb : mailbox) : mailbox :=
  {| mb_name := mb_name mb; mb_uv := mb_uv mb; mb_next := mb_next mb; mb_sub := mb_sub mb; mb_msgs := ms |}.
Definition set_name (n : bytes) (mb : mailbox) : mailbox :=
  {| mb_name := n; mb_uv := mb_uv mb; mb_next := mb_next mb; mb_sub := mb_sub mb; mb_msgs := mb_msgs mb |}.
Definition set_sub (b : bool) (mb : mailbox) : mailbox :=
  {| mb_name := mb_name mb; mb_uv := mb_uv mb; mb_next := mb_next mb; mb_sub := b; mb_msgs := mb_msgs mb |}.
Definition set_flags (fl : list bytes) (m : mmsg) : mmsg :=
  {| mm_uid := mm_uid m; mm_flags := fl; mm_time := mm_time m; mm_zone := mm_zone m; mm_buf := mm_buf m |}.

Definition with_heap (s : state) (h : list mailbox) : state :=
  {| st_heap := h; st_names := st_names s; st_prev := st_prev s; st_sel := st_sel s; st_ro := st_ro s |}.
Definition with_sel (s : state) (l : list (option nat)) : state :=
  {| st_heap := st_heap s; st_names := st_names s; st_prev := st_prev s; st_sel := l; st_ro := st_ro s |}.
Definition with_ro (s : state) (l : list bool) : state :=
  {| st_heap := st_heap s; st_names := st_names s; st_prev := st_prev s; st_sel := st_sel s; st_ro := l |}.

(* ---- commands ---- *)
Inductive store_op := StSet | StAdd | StDel.
Record status_opts := {
  so_messages : bool; so_uidnext : bool; so_uidvalidity : bool; so_unseen : bool;
  so_deleted : bool; so_size : bool; so_appendlimit : bool; so_deleted_storage : bool;
  so_recent : bool
}.
Record search_ret := { sr_ext : bool; sr_min : bool; sr_max : bool; sr_all : bool; sr_count : bool }.
Record fetch_opts := {
  fo_flags : bool; fo_date : bool; fo_size : bool;
  fo_sections : list (section * bytes)          (* with the obsolete item name, [] if none *)
}.

Inductive cmd :=
| CCreate (n : bytes) | CDelete (n : bytes) | CRename (o n : bytes)
| CSubscribe (n : bytes) | CUnsubscribe (n : bytes)
| CList (lsub sel_sub : bool) (ref : bytes) (pats : list bytes) (ret : option status_opts)
| CStatus (n : bytes) (o : status_opts)
| CAppend (n : bytes) (flags : list bytes) (time zone : Z) (buf : bytes)
| CSelect (n : bytes) (examine : bool) | CUnselect | CClose
| CStore (uid : bool) (set : nset) (op : store_op) (silent : bool) (flags : list bytes)
| CCopy (uid : bool) (set : nset) (dest : bytes)
| CMove (uid : bool) (set : nset) (dest : bytes)
| CExpunge (uids : option nset)
| CSearch (uid : bool) (ret : search_ret) (keys : list skey)
| CFetch (uid : bool) (set : nset) (o : fetch_opts)
| CNoop.

(* ---- responses ---- *)
Inductive rcode :=
| CodeNone
| CodeAtom (a : bytes)
| CodeAppendUid (uv uid : N)
| CodeCopyUid (uv : N) (src dst : list N).
Inductive fitem :=
| FUid (u : N) | FFlags (l : list bytes) | FDate (t z : Z) | FSize (n : N)
| FBody (label data : bytes).
Inductive resp :=
| RClosed
| RSelect (exists_ uv next : N) (flags perm : list bytes)
| RStatus (name : bytes) (items : list (bytes * option N))
| RList (lsub : bool) (attrs : list bytes) (name : bytes)
| RSearch (nums : list N)
| RESearch (uid : bool) (all : list N) (mn mx cnt : option N)
| RFetch (seq : N) (items : list fitem)
| RCopyUid (uv : N) (src dst : list N).
(* class: 0 OK, 1 NO, 2 BAD *)
Record result := { r_data : list resp; r_class : N; r_code : rcode }.

Definition ok (d : list resp) : result := {| r_data := d; r_class := 0; r_code := CodeNone |}.
Definition okc (d : list resp) (c : rcode) : result := {| r_data := d; r_class := 0; r_code := c |}.
Definition no (c : bytes) : result := {| r_data := []; r_class := 1; r_code := CodeAtom c |}.
Definition no_plain : result := {| r_data := []; r_class := 1; r_code := CodeNone |}.
Definition bad_state : result := {| r_data := []; r_class := 2; r_code := CodeAtom (s2b "CLIENTBUG") |}.

(* ---- number sets: staticNumSet / staticNumRange ---- *)
Definition static_range (mx : N) (r : range) : range :=
  let '(a, b) := r in
  let dyn := (a =? 0) || (b =? 0) in
  let a' := if a =? 0 then mx else a in
  let b' := if b =? 0 then mx else b in
  if dyn && (b' <? a') then (b', a') else (a', b').
Definition add_range_t (s : nset) (r : range) : nset :=
  match add_range s (fst r) (snd r) with Some t => t | None => s end.
Definition static_set (mx : N) (s : nset) : nset :=
  fold_left (fun acc r => add_range_t acc (static_range mx r)) s [].

Definition seq_max (mb : mailbox) : N := N.of_nat (length (mb_msgs mb)).
Definition uid_max (mb : mailbox) : N :=
  match rev (mb_msgs mb) with m :: _ => mm_uid m | [] => mb_next mb - 1 end.

(* messages with their position: seqNum = i + 1 *)
Fixpoint number_from (i : N) (l : list mmsg) : list (N * mmsg) :=
  match l with [] => [] | m :: r => (i, m) :: number_from (i + 1) r end.
Definition numbered (mb : mailbox) : list (N * mmsg) := number_from 1 (mb_msgs mb).

(* forEachLocked's selection *)
Definition addressed (uid : bool) (set : nset) (mb : mailbox) (sm : N * mmsg) : bool :=
  if uid then set_has (static_set (uid_max mb) set) (mm_uid (snd sm))
  else negb (fst sm =? 0) && set_has (static_set (seq_max mb) set) (fst sm).

(* ---- mailbox-level operations ---- *)
Definition SEEN_F : bytes := s2b "\seen".
Definition DELETED_F : bytes := s2b "\deleted".
Definition is_deleted (m : mmsg) : bool := mem_bytes DELETED_F (mm_flags m).
Definition is_seen (m : mmsg) : bool := mem_bytes SEEN_F (mm_flags m).

(* appendBytes *)
Definition append_msg (mb : mailbox) (flags : list bytes) (time zone : Z) (buf : bytes) : mailbox * N :=
  let m := {| mm_uid := mb_next mb; mm_flags := flags_add flags []; mm_time := time; mm_zone := zone; mm_buf := buf |} in
  ({| mb_name := mb_name mb; mb_uv := mb_uv mb; mb_next := mb_next mb + 1; mb_sub := mb_sub mb;
      mb_msgs := mb_msgs mb ++ [m] |}, mb_next mb).

(* copySnapshot for a list of messages, in order *)
Fixpoint copy_all (mb : mailbox) (ms : list mmsg) : mailbox * list N :=
  match ms with
  | [] => (mb, [])
  | m :: r =>
      let '(mb1, u) := append_msg mb (mm_flags m) (mm_time m) (mm_zone m) (mm_buf m) in
      let '(mb2, us) := copy_all mb1 r in (mb2, u :: us)
  end.

(* message.store *)
Definition store_flags (op : store_op) (fs : list bytes) (m : mmsg) : mmsg :=
  match op with
  | StSet => set_flags (flags_add fs []) m
  | StAdd => set_flags (flags_add fs (mm_flags m)) m
  | StDel => set_flags (flags_del fs (mm_flags m)) m
  end.

(* apply [f] to the addressed messages *)
Definition map_addressed (uid : bool) (set : nset) (mb : mailbox) (f : mmsg -> mmsg) : list mmsg :=
  map (fun sm => if addressed uid set mb sm then f (snd sm) else snd sm) (numbered mb).
Definition select_addressed (uid : bool) (set : nset) (mb : mailbox) : list (N * mmsg) :=
  filter (addressed uid set mb) (numbered mb).

(* Mailbox.Expunge's selection and expungeLocked *)
Definition expunge_sel (uids : option nset) (mb : mailbox) (m : mmsg) : bool :=
  match uids with
  | None => is_deleted m
  | Some s => set_has (static_set (uid_max mb) s) (mm_uid m) && is_deleted m
  end.
Definition expunge_mb (uids : option nset) (mb : mailbox) : mailbox :=
  set_msgs (filter (fun m => negb (expunge_sel uids mb m)) (mb_msgs mb)) mb.

(* flagsLocked: the sorted union of all flags *)
Definition mailbox_flags (mb : mailbox) : list bytes :=
  fold_left (fun acc m => fold_left (fun a f => flag_insert f a) (mm_flags m) acc) (mb_msgs mb) [].

(* statusDataLocked + writeStatus *)
Definition count_if (f : mmsg -> bool) (l : list mmsg) : N := N.of_nat (length (filter f l)).
Definition total_size (l : list mmsg) : N :=
  fold_left (fun a m => a + N.of_nat (length (mm_buf m))) l 0.
Definition status_items (o : status_opts) (mb : mailbox) : list (bytes * option N) :=
  let ms := mb_msgs mb in
  let len := N.of_nat (length ms) in
  (if so_messages o then [(s2b "MESSAGES", Some len)] else []) ++
  (if so_uidnext o then [(s2b "UIDNEXT", Some (mb_next mb))] else []) ++
  (if so_uidvalidity o then [(s2b "UIDVALIDITY", Some (mb_uv mb))] else []) ++
  (if so_unseen o then [(s2b "UNSEEN", Some ((len + M32 - count_if is_seen ms) mod M32))] else []) ++
  (if so_deleted o then [(s2b "DELETED", Some (count_if is_deleted ms))] else []) ++
  (if so_size o then [(s2b "SIZE", Some (total_size ms))] else []) ++
  (if so_appendlimit o then [(s2b "APPENDLIMIT", None)] else []) ++
  (if so_deleted_storage o then [(s2b "DELETED-STORAGE", Some (total_size (filter is_deleted ms)))] else []) ++
  (if so_recent o then [(s2b "RECENT", Some 0)] else []).

(* ---- LIST ---- *)
Definition DELIM : bytes := s2b "/".
Fixpoint insert_sorted (x : bytes * nat) (l : list (bytes * nat)) : list (bytes * nat) :=
  match l with
  | [] => [x]
  | y :: r => if bytes_ltb (fst y) (fst x) then y :: insert_sorted x r else x :: l
  end.
Definition sort_names (l : list (bytes * nat)) : list (bytes * nat) := fold_right insert_sorted [] l.

Definition list_match (ref : bytes) (pats : list bytes) (name : bytes) : bool :=
  existsb (fun p => match match_list_top name DELIM ref p with Some b => b | None => false end) pats.

Definition list_one (lsub sel_sub : bool) (ret : option status_opts) (mb : mailbox) : list resp :=
  if sel_sub && negb (mb_sub mb) then []
  else
    RList lsub (if mb_sub mb then [s2b "\Subscribed"] else []) (mb_name mb) ::
    match ret with
    | Some o => if lsub then [] else [RStatus (mb_name mb) (status_items o mb)]
    | None => []
    end.

Definition do_list (s : state) (lsub sel_sub : bool) (ref : bytes) (pats : list bytes)
  (ret : option status_opts) : list resp :=
  match pats with
  | [] => [RList lsub [s2b "\Noselect"] []]
  | _ =>
      flat_map (fun kv => match nth_error (st_heap s) (snd kv) with
                          | Some mb => list_one lsub sel_sub ret mb
                          | None => []
                          end)
               (sort_names (filter (fun kv => list_match ref pats (fst kv)) (st_names s)))
  end.

(* ---- SEARCH ---- *)
(* staticSearchCriteria *)
Fixpoint static_crit (smax umax : N) (c : criteria) : criteria :=
  match c with
  | Crit seqs uids si be ss sb hdr body text flag notflag la sm nots ors =>
      Crit (map (static_set smax) seqs) (map (static_set umax) uids) si be ss sb hdr body text flag notflag la sm
           (map (static_crit smax umax) nots)
           (map (fun p => (static_crit smax umax (fst p), static_crit smax umax (snd p))) ors)
  end.

(* what message.search consults *)
Definition msg_view (seq : N) (m : mmsg) : msg :=
  let '(hdr, body, _) := read_header (mm_buf m) in
  {| m_seq := seq;
     m_uid := mm_uid m;
     m_date := day_of (mm_time m) (mm_zone m);
     m_sent := sent_day hdr;
     m_flag := fun f => has_flag f (mm_flags m);
     m_size := Z.of_nat (length (mm_buf m));
     m_text := match_fold (mm_buf m);
     m_body := match_fold body;
     m_hdr := fun k v =>
       hhas (canon_key k) hdr &&
       (is_nil v || existsb (fun x => contains_sub (ascii_lower v) (ascii_lower x)) (hvalues (canon_key k) hdr)) |}.

Definition search_hits (mb : mailbox) (c : criteria) : list (N * mmsg) :=
  let c' := static_crit (seq_max mb) (uid_max mb) c in
  filter (fun sm => matches (msg_view (fst sm) (snd sm)) c') (numbered mb).

Fixpoint list_min (l : list N) : N :=
  match l with [] => 0 | x :: r => match r with [] => x | _ => N.min x (list_min r) end end.
Fixpoint list_max (l : list N) : N :=
  match l with [] => 0 | x :: r => N.max x (list_max r) end.

Definition do_search (mb : mailbox) (uid : bool) (ret : search_ret) (keys : list skey) : resp :=
  let hits := search_hits mb (parse_keys keys) in
  let nums := map (fun sm => if uid then mm_uid (snd sm) else fst sm) hits in
  if negb (sr_ext ret) then RSearch nums
  else
    let all := sr_all ret || negb (sr_min ret || sr_max ret || sr_count ret) in
    RESearch uid
      (if all then nums else [])
      (if sr_min ret && negb (list_min nums =? 0) then Some (list_min nums) else None)
      (if sr_max ret && negb (list_max nums =? 0) then Some (list_max nums) else None)
      (if sr_count ret then Some (N.of_nat (length nums)) else None).

(* ---- FETCH ---- *)
Definition spec_name (sp : spec) : bytes :=
  match sp with SpecNone => [] | SpecHeader => s2b "HEADER" | SpecMime => s2b "MIME" | SpecText => s2b "TEXT" end.
(* writeItemBodySection, with header names unquoted *)
Definition section_label (it : section) (obs : bytes) : bytes :=
  match obs with
  | _ :: _ => obs
  | [] =>
      let part := join_with (s2b ".") (map dec_of_N (sc_part it)) in
      let has_spec := match sc_spec it with SpecNone => false | _ => true end in
      s2b "BODY[" ++ part ++
      (if negb (is_nil part) && has_spec then s2b "." else []) ++
      (if has_spec then
         spec_name (sc_spec it) ++
         match sc_fields it, sc_fields_not it with
         | _ :: _, _ => s2b ".FIELDS (" ++ join_with (s2b " ") (sc_fields it) ++ s2b ")"
         | [], _ :: _ => s2b ".FIELDS.NOT (" ++ join_with (s2b " ") (sc_fields_not it) ++ s2b ")"
         | [], [] => []
         end
       else []) ++
      s2b "]" ++
      match sc_partial it with
      | Some (off, _) => s2b "<" ++ dec_of_N (Z.to_N off) ++ s2b ">"
      | None => []
      end
  end.

(* message.fetch for one message (after \Seen has been set); None = panic *)
Fixpoint fetch_sections (buf : bytes) (l : list (section * bytes)) : option (list fitem) :=
  match l with
  | [] => Some []
  | (it, obs) :: r =>
      match body_section buf it, fetch_sections buf r with
      | Some d, Some rest => Some (FBody (section_label it obs) d :: rest)
      | _, _ => None
      end
  end.
Definition fetch_one (o : fetch_opts) (seq : N) (m : mmsg) : option resp :=
  match fetch_sections (mm_buf m) (fo_sections o) with
  | None => None
  | Some secs =>
      Some (RFetch seq
        ([FUid (mm_uid m)] ++
         (if fo_flags o then [FFlags (mm_flags m)] else []) ++
         (if fo_date o then [FDate (mm_time m) (mm_zone m)] else []) ++
         (if fo_size o then [FSize (N.of_nat (length (mm_buf m)))] else []) ++
         secs))
  end.
Fixpoint all_some {A} (l : list (option A)) : option (list A) :=
  match l with
  | [] => Some []
  | Some x :: r => option_map (cons x) (all_some r)
  | None :: _ => None
  end.

Definition mark_seen (m : mmsg) : mmsg := set_flags (flag_insert SEEN_F (mm_flags m)) m.

(* ---- one command ---- *)
Definition trim_right_delim (n : bytes) : bytes := rev (drop_while (fun c => beqb c (ch "/")) (rev n)).

Definition sel_of (s : state) (i : nat) : option nat :=
  match nth_error (st_sel s) i with Some o => o | None => None end.
Definition set_sel (s : state) (i : nat) (o : option nat) : state :=
  with_sel s (update_nth i (fun _ => o) (st_sel s)).
(* MailboxView.readOnly of session i's view (UserSession.Select: options.ReadOnly) *)
Definition ro_of (s : state) (i : nat) : bool :=
  match nth_error (st_ro s) i with Some b => b | None => false end.
Definition set_ro (s : state) (i : nat) (b : bool) : state :=
  with_ro s (update_nth i (fun _ => b) (st_ro s)).
Definition upd_mb (s : state) (id : nat) (f : mailbox -> mailbox) : state :=
  with_heap s (update_nth id f (st_heap s)).

(* commands valid in the selected state only: [k] gets the selected object *)
Definition in_selected (s : state) (i : nat) (k : nat -> mailbox -> option (state * result))
  : option (state * result) :=
  match sel_of s i with
  | None => Some (s, bad_state)
  | Some id =>
      match nth_error (st_heap s) id with
      | None => Some (s, bad_state)                     (* unreachable: see Proofs *)
      | Some mb => k id mb
      end
  end.

(* None = the handler panics (connection closed) *)
Definition step (s : state) (ic : nat * cmd) : option (state * result) :=
  let '(i, c) := ic in
  match c with
  | CNoop => Some (s, ok [])
  | CCreate n =>
      let n := trim_right_delim n in
      match lookup n (st_names s) with
      | Some _ => Some (s, no (s2b "ALREADYEXISTS"))
      | None =>
          let uv := st_prev s + 1 in
          let mb := {| mb_name := n; mb_uv := uv; mb_next := 1; mb_sub := false; mb_msgs := [] |} in
          Some ({| st_heap := st_heap s ++ [mb]; st_names := st_names s ++ [(n, length (st_heap s))];
                   st_prev := uv; st_sel := st_sel s; st_ro := st_ro s |}, ok [])
      end
  | CDelete n =>
      match lookup n (st_names s) with
      | None => Some (s, no (s2b "NONEXISTENT"))
      | Some _ =>
          Some ({| st_heap := st_heap s; st_names := unbind n (st_names s); st_prev := st_prev s;
                   st_sel := st_sel s; st_ro := st_ro s |}, ok [])
      end
  | CRename o n =>
      let n := trim_right_delim n in
      match lookup o (st_names s) with
      | None => Some (s, no (s2b "NONEXISTENT"))
      | Some id =>
          match lookup n (st_names s) with
          | Some _ => Some (s, no (s2b "ALREADYEXISTS"))
          | None =>
              Some ({| st_heap := update_nth id (set_name n) (st_heap s);
                       st_names := unbind o (st_names s) ++ [(n, id)];
                       st_prev := st_prev s; st_sel := st_sel s; st_ro := st_ro s |}, ok [])
          end
      end
  | CSubscribe n =>
      match lookup n (st_names s) with
      | None => Some (s, no (s2b "NONEXISTENT"))
      | Some id => Some (upd_mb s id (set_sub true), ok [])
      end
  | CUnsubscribe n =>
      match lookup n (st_names s) with
      | None => Some (s, no (s2b "NONEXISTENT"))
      | Some id => Some (upd_mb s id (set_sub false), ok [])
      end
  | CList lsub sel_sub ref pats ret =>
      Some (s, ok (do_list s lsub sel_sub ref pats ret))
  | CStatus n o =>
      match lookup n (st_names s) with
      | None => Some (s, no (s2b "NONEXISTENT"))
      | Some id =>
          match nth_error (st_heap s) id with
          | None => Some (s, no (s2b "NONEXISTENT"))    (* unreachable: see Proofs *)
          | Some mb => Some (s, ok [RStatus (mb_name mb) (status_items o mb)])
          end
      end
  | CAppend n flags time zone buf =>
      match lookup n (st_names s) with
      | None => Some (s, no (s2b "TRYCREATE"))
      | Some id =>
          match nth_error (st_heap s) id with
          | None => Some (s, no (s2b "TRYCREATE"))      (* unreachable *)
          | Some mb =>
              let '(mb', u) := append_msg mb flags time zone buf in
              Some (upd_mb s id (fun _ => mb'), okc [] (CodeAppendUid (mb_uv mb) u))
          end
      end
  | CSelect n examine =>
      (* handleSelect: an already selected mailbox is closed first, whatever happens next *)
      let was := match sel_of s i with Some _ => true | None => false end in
      let s0 := set_sel s i None in
      let pre := if was then [RClosed] else [] in
      match lookup n (st_names s) with
      | None => Some (s0, {| r_data := pre; r_class := 1; r_code := CodeAtom (s2b "NONEXISTENT") |})
      | Some id =>
          match nth_error (st_heap s) id with
          | None => Some (s0, {| r_data := pre; r_class := 1; r_code := CodeAtom (s2b "NONEXISTENT") |})
          | Some mb =>
              let fl := mailbox_flags mb in
              Some (set_ro (set_sel s i (Some id)) i examine,
                    okc (pre ++ [RSelect (seq_max mb) (mb_uv mb) (mb_next mb) fl (fl ++ [s2b "\*"])])
                        (CodeAtom (if examine then s2b "READ-ONLY" else s2b "READ-WRITE")))
          end
      end
  | CUnselect => in_selected s i (fun _ _ => Some (set_sel s i None, ok []))
  | CClose =>
      (* handleUnselect: session.Expunge(w, nil), which MailboxView.Expunge turns into a no-op on a
         read-only view, then Unselect *)
      in_selected s i (fun id mb =>
        if ro_of s i then Some (set_sel s i None, ok [])
        else Some (set_sel (upd_mb s id (expunge_mb None)) i None, ok []))
  | CStore uid set op silent flags =>
      in_selected s i (fun id mb =>
        if ro_of s i then Some (s, no_plain) else       (* MailboxView.Store: errReadOnly *)
        let ms := map_addressed uid set mb (store_flags op flags) in
        let mb' := set_msgs ms mb in
        let data :=
          if silent then []
          else map (fun sm => RFetch (fst sm) [FUid (mm_uid (snd sm)); FFlags (mm_flags (snd sm))])
                   (select_addressed uid set mb' ) in
        Some (upd_mb s id (fun _ => mb'), ok data))
  | CCopy uid set dest =>
      in_selected s i (fun id mb =>
        match lookup dest (st_names s) with
        | None => Some (s, no (s2b "TRYCREATE"))
        | Some did =>
            if Nat.eqb did id then Some (s, no_plain)
            else
              match nth_error (st_heap s) did with
              | None => Some (s, no (s2b "TRYCREATE"))  (* unreachable *)
              | Some dmb =>
                  let src := map snd (select_addressed uid set mb) in
                  let '(dmb', dst_uids) := copy_all dmb src in
                  Some (upd_mb s did (fun _ => dmb'),
                        match src with
                        | [] => ok []
                        | _ => okc [] (CodeCopyUid (mb_uv dmb) (map mm_uid src) dst_uids)
                        end)
              end
        end)
  | CMove uid set dest =>
      in_selected s i (fun id mb =>
        if ro_of s i then Some (s, no_plain) else       (* UserSession.Move: errReadOnly *)
        match lookup dest (st_names s) with
        | None => Some (s, no (s2b "TRYCREATE"))
        | Some did =>
            if Nat.eqb did id then Some (s, no_plain)
            else
              match nth_error (st_heap s) did with
              | None => Some (s, no (s2b "TRYCREATE"))  (* unreachable *)
              | Some dmb =>
                  let src := map snd (select_addressed uid set mb) in
                  let '(dmb', dst_uids) := copy_all dmb src in
                  let mb' := set_msgs (map snd (filter (fun sm => negb (addressed uid set mb sm)) (numbered mb))) mb in
                  Some (upd_mb (upd_mb s did (fun _ => dmb')) id (fun _ => mb'),
                        ok match src with
                           | [] => []
                           | _ => [RCopyUid (mb_uv dmb) (map mm_uid src) dst_uids]
                           end)
              end
        end)
  | CExpunge uids =>
      (* MailboxView.Expunge: on a read-only view nil uids (EXPUNGE, and CLOSE) is a no-op, UID EXPUNGE is
         refused *)
      in_selected s i (fun id mb =>
        if ro_of s i then Some (s, match uids with None => ok [] | Some _ => no_plain end)
        else Some (upd_mb s id (expunge_mb uids), ok []))
  | CSearch uid ret keys =>
      in_selected s i (fun id mb => Some (s, ok [do_search mb uid ret keys]))
  | CFetch uid set o =>
      in_selected s i (fun id mb =>
        (* MailboxView.Fetch: a read-only view never sets \Seen *)
        let seen := negb (ro_of s i) && existsb (fun p => negb (sc_peek (fst p))) (fo_sections o) in
        let f := if seen then mark_seen else (fun m => m) in
        let mb' := set_msgs (map_addressed uid set mb f) mb in
        match all_some (map (fun sm => fetch_one o (fst sm) (snd sm)) (select_addressed uid set mb')) with
        | None => None
        | Some data => Some (upd_mb s id (fun _ => mb'), ok data)
        end)
  end.

(* a history; None = some command crashed *)
Fixpoint run (s : state) (h : list (nat * cmd)) : option (state * list result) :=
  match h with
  | [] => Some (s, [])
  | c :: h' =>
      match step s c with
      | None => None
      | Some (s1, r) =>
          match run s1 h' with
          | None => None
          | Some (s2, rs) => Some (s2, r :: rs)
          end
      end
  end.
