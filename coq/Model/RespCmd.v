(* Model/RespCmd.v — whole commands: everything the server writes for one command once the
   backend has returned its data (imapserver handle* functions, conn.go readCommand's tagged
   completion), and what imapclient's reader goroutine does with these bytes for the pending
   command that requested them (client.go readResponse / readResponseTagged /
   readResponseData, the handle* functions and completeCommand).

   One command is pending at a time (that is how the correspondence run drives the client);
   Session.Poll is assumed to write nothing.  Not modelled: continuation requests, the
   greeting, CAPABILITY/HIGHESTMODSEQ/NOMODSEQ response codes, ENABLED, SORT, THREAD,
   METADATA, QUOTA, unilateral data handlers, the mirrored mailbox state (see C12). *)
From GoImap.Base Require Import Bytes.
From GoImap.Model Require Import NumSet MatchList Utf7 Wire Resp RespFetch.
Open Scope N_scope.

(* ---------------------------------------------------------------------------------------- *)
(* server side                                                                                *)

Definition OKb : bytes := s2b "OK".
(* readCommand: "<tag> OK <NAME> completed" *)
Definition w_completed (tag : bytes) (name : string) : wr :=
  w_status_resp tag OKb CNone (s2b name ++ s2b " completed").

Fixpoint w_concat {A} (f : A -> wr) (l : list A) : wr :=
  match l with [] => Some [] | a :: r => f a +++ w_concat f r end.

(* FETCH / UID FETCH: one response per CreateMessage..Close *)
Definition srv_fetch (x : ext) (q nonext extd : bool) (tag : bytes) (uid : bool) (msgs : list (N * list fitem)) : wr :=
  w_concat (fun m => w_fetch x q nonext extd (fst m) (snd m)) msgs +++
  w_completed tag (if uid then "UID FETCH" else "FETCH").

Definition srv_list (q : bool) (ret_status : option status_opts) (tag : bytes) (l : list list_data) : wr :=
  w_concat (w_list_resp q ret_status) l +++ w_completed tag "LIST".

Definition srv_status (q : bool) (o : status_opts) (tag : bytes) (d : status_data) : wr :=
  w_status q o d +++ w_completed tag "STATUS".

Record select_data := mkSel {
  sl_flags : list bytes; sl_permflags : list bytes; sl_num : N; sl_uidnext : N; sl_uidvalidity : N;
  sl_list : option list_data
}.

(* handleSelect: rev2 = IMAP4rev2 enabled on the connection (no RECENT), q = QuotedUTF8 *)
Definition srv_select (rev2 q was_selected readonly : bool) (tag : bytes) (d : select_data) : wr :=
  (if was_selected then w_status_resp [] OKb (COther (s2b "CLOSED")) (s2b "Previous mailbox is now closed") else Some []) +++
  w_num_line (sl_num d) "EXISTS" +++
  (if rev2 then Some [] else w_num_line 0 "RECENT") +++
  w_status_resp [] OKb (CUidValidity (sl_uidvalidity d)) (s2b "UIDs valid") +++
  w_status_resp [] OKb (CUidNext (sl_uidnext d)) (s2b "Predicted next UID") +++
  w_flags_line (sl_flags d) +++
  w_status_resp [] OKb (CPermanentFlags (sl_permflags d)) (s2b "Permanent flags") +++
  (match sl_list d with Some l => w_list_line q l | None => Some [] end) +++
  (if readonly then w_status_resp tag OKb (COther (s2b "READ-ONLY")) (s2b "EXAMINE completed")
   else w_status_resp tag OKb (COther (s2b "READ-WRITE")) (s2b "SELECT completed")).

(* handleSearch: without any return option ALL is assumed; extended = the command had RETURN *)
Definition eff_search_opts (o : search_opts) : search_opts :=
  if se_min o || se_max o || se_all o || se_count o then o else mkSeO false false true false.
Definition srv_search (rev2 extended uid : bool) (tag : bytes) (o : search_opts) (d : search_data) : wr :=
  w_search_resp rev2 extended tag (eff_search_opts o) d +++
  w_completed tag (if uid then "UID SEARCH" else "SEARCH").

(* handleSearch: a SearchData without a number set (nil) stands for the empty set *)
Definition fill_all (d : search_data) : search_data :=
  match sr_all d with
  | Some _ => d
  | None => mkSeD (Some []) (sr_uid d) (sr_min d) (sr_max d) (sr_count d)
  end.
Definition srv_search_cmd (rev2 extended uid : bool) (tag : bytes) (o : search_opts) (d : search_data) : wr :=
  srv_search rev2 extended uid tag o (fill_all d).

Definition srv_append (tag : bytes) (d : option append_data) : wr := w_append_ok tag d.
Definition srv_copy (tag : bytes) (d : option copy_data) : wr := w_copy_ok tag d.
Definition srv_move (tag : bytes) (uid : bool) (d : option copy_data) (expunged : list N) : wr :=
  w_move_copy d +++ w_concat (fun n => w_num_line n "EXPUNGE") expunged +++
  w_completed tag (if uid then "UID MOVE" else "MOVE").
Definition srv_namespace (q : bool) (tag : bytes) (d : ns_data) : wr :=
  w_namespace_line q d +++ w_completed tag "NAMESPACE".
Definition srv_capability (tag : bytes) (caps : list bytes) : wr :=
  w_capability_line caps +++ w_completed tag "CAPABILITY".
Definition srv_expunge (tag : bytes) (uid : bool) (expunged : list N) : wr :=
  w_concat (fun n => w_num_line n "EXPUNGE") expunged +++
  w_completed tag (if uid then "UID EXPUNGE" else "EXPUNGE").

(* ---------------------------------------------------------------------------------------- *)
(* client side: one response                                                                  *)

Inductive resp :=
| RTagged (tag typ : bytes) (code : resp_code) (text : bytes)
| RCond (typ : bytes) (code : resp_code) (text : bytes)     (* untagged OK / NO / BAD / BYE / PREAUTH *)
| RExists (n : N)
| RRecent
| RExpunge (n : N)
| RFetch (seq : N) (items : list citem)
| RFlags (fl : list bytes)
| RList (d : list_data)
| RStatus (d : status_data)
| RSearch (nums : list N)
| RESearch (e : esearch_resp)
| RNamespace (d : ns_data)
| RCapability (caps : list bytes).

Definition is_cond_type (t : bytes) : bool :=
  bytes_eqb t (s2b "OK") || bytes_eqb t (s2b "PREAUTH") || bytes_eqb t (s2b "NO") || bytes_eqb t (s2b "BAD") || bytes_eqb t (s2b "BYE").

(* readResponseData (the type atom has been read) *)
Definition read_response_data (x : ext) (typ : bytes) (s : bytes) : dres resp :=
  do nt, r <-
    (match typ with
     | c :: _ =>
         if is_digit c then
           match parse_uint M32 typ with
           | None => DErr
           | Some v => do _, r <- ex_sp s; do t, r <- ex_atom r; DOk (v, t) r
           end
         else DOk (0, typ) s
     | [] => DErr
     end);
  let '(num, typ) := nt in
  if is_cond_type typ then do ct, r <- read_resp_text false r; DOk (RCond typ (fst ct) (snd ct)) r
  else if bytes_eqb typ (s2b "CAPABILITY") then do c, r <- read_capability r; DOk (RCapability c) r
  else if bytes_eqb typ (s2b "NAMESPACE") then do _, r <- ex_sp r; do d, r <- read_namespace r; DOk (RNamespace d) r
  else if bytes_eqb typ (s2b "FLAGS") then do _, r <- ex_sp r; do fl, r <- dec_flag_list r; DOk (RFlags fl) r
  else if bytes_eqb typ (s2b "EXISTS") then DOk (RExists num) r
  else if bytes_eqb typ (s2b "RECENT") then DOk RRecent r
  else if bytes_eqb typ (s2b "LIST") then do _, r <- ex_sp r; do d, r <- read_list r; DOk (RList d) r
  else if bytes_eqb typ (s2b "STATUS") then do _, r <- ex_sp r; do d, r <- read_status r; DOk (RStatus d) r
  else if bytes_eqb typ (s2b "FETCH") then
    do _, r <- ex_sp r; if num =? 0 then DErr else do items, r <- read_fetch x r; DOk (RFetch num items) r
  else if bytes_eqb typ (s2b "EXPUNGE") then if num =? 0 then DErr else DOk (RExpunge num) r
  else if bytes_eqb typ (s2b "SEARCH") then do l, r <- read_search r; DOk (RSearch l) r
  else if bytes_eqb typ (s2b "ESEARCH") then do e, r <- read_esearch r; DOk (RESearch e) r
  else DErr.

(* readResponse: one complete response including its CRLF ("+" continuation requests are not
   modelled) *)
Definition read_response (x : ext) (s : bytes) : dres resp :=
  match dec_special (ch "+") s with
  | DNo _ =>
      match dec_special (ch "*") s with
      | DErr => DErr
      | DOk _ r =>
          do _, r <- ex_sp r;
          do typ, r <- ex_atom r;
          do res, r <- read_response_data x typ r;
          do _, r <- ex (dec_crlf r);
          DOk res r
      | DNo _ =>
          do tag, r <- ex_atom s;
          do _, r <- ex_sp r;
          do typ, r <- ex_atom r;
          do ct, r <- read_resp_text true r;
          if bytes_eqb typ (s2b "OK") || bytes_eqb typ (s2b "NO") || bytes_eqb typ (s2b "BAD") then
            do _, r <- ex (dec_crlf r); DOk (RTagged tag typ (fst ct) (snd ct)) r
          else DErr
      end
  | _ => DErr
  end.

(* ---------------------------------------------------------------------------------------- *)
(* client side: the pending command                                                           *)

Inductive pending :=
| PFetch (uid_kind : bool) (req recv : nset) (msgs : list (N * list citem))
| PList (ret_status : bool) (pend : option list_data) (out : list list_data)
| PStatus (mbox : bytes) (d : status_data)
| PSelect (mbox : bytes) (d : select_data)
| PSearch (d : search_data)
| PAppend (d : append_data)
| PCopy (d : copy_data)
| PMove (d : copy_data)
| PNamespace (d : ns_data)
| PCapability (caps : list bytes)
| PExpunge (l : list N)
| PCrash.                                   (* a Go panic on the modelled path *)

(* sameMailbox (imapclient/status.go) *)
Definition same_mailbox (requested received : bytes) : bool :=
  bytes_eqb requested received || (equal_fold_ascii requested INBOX && equal_fold_ascii received INBOX).

(* handleFetch's handleMsg while a UID FETCH is pending: the UID known when the message is routed —
   at the first item that carries a literal or at the 33rd item (cap(items) = 32) when a UID has
   been seen by then; otherwise the items are held back (holding) until the UID item; else after
   the last item *)
Definition carries_literal (i : citem) : bool :=
  match i with CSection _ (Some _) => true | CBinary _ (Some _) => true | _ => false end.
Fixpoint uid_at_routing (items : list citem) (count : nat) (uid : N) (holding : bool) : N :=
  match items with
  | [] => uid
  | i :: r =>
      let uid' := match i with CUid n => n | _ => uid end in
      if holding || carries_literal i || Nat.ltb 32 (S count) then
        (if uid' =? 0 then uid_at_routing r (S count) uid' true else uid')
      else uid_at_routing r (S count) uid' false
  end.

(* FetchCommand.recvSeqNum / recvUID: requested, and not received before *)
Definition recv_num (req recv : nset) (n : N) : option (bool * nset) :=
  match contains req n with
  | None => None
  | Some false => Some (false, recv)
  | Some true =>
      match contains recv n with
      | None => None
      | Some true => Some (false, recv)
      | Some false => match add_num recv n with Some recv' => Some (true, recv') | None => None end
      end
  end.

Definition set_sel_list (d : select_data) (l : list_data) : select_data :=
  mkSel (sl_flags d) (sl_permflags d) (sl_num d) (sl_uidnext d) (sl_uidvalidity d) (Some l).
Definition with_status (l : list_data) (s : status_data) : list_data :=
  mkLD (ld_attrs l) (ld_delim l) (ld_mailbox l) (ld_childinfo l) (ld_oldname l) (Some s).

Fixpoint add_nums (s : nset) (l : list N) : option nset :=
  match l with [] => Some s | n :: r => match add_num s n with Some s' => add_nums s' r | None => None end end.

(* the effect of one untagged response on the pending command; [tag] is the command's tag *)
Definition apply_untagged (tag : bytes) (p : pending) (r : resp) : pending :=
  match r, p with
  | RFetch seq items, PFetch uk req recv msgs =>
      let key := if uk then uid_at_routing items O 0 false else seq in
      if key =? 0 then p
      else match recv_num req recv key with
           | None => PCrash
           | Some (true, recv') => PFetch uk req recv' (msgs ++ [(seq, items)])
           | Some (false, _) => p
           end
  | RList d, PList rs pend out =>
      if rs then PList rs (Some d) (out ++ match pend with Some pd => [pd] | None => [] end)
      else PList rs pend (out ++ [d])
  | RList d, PSelect mb sd =>
      if same_mailbox mb (ld_mailbox d) && (match sl_list sd with None => true | Some _ => false end)
      then PSelect mb (set_sel_list sd d) else p
  | RStatus d, PStatus mb _ => if same_mailbox mb (sd_mailbox d) then PStatus mb d else p
  | RStatus d, PList true (Some pd) out =>
      if bytes_eqb (ld_mailbox pd) (sd_mailbox d) then PList true None (out ++ [with_status pd d]) else p
  | RExists n, PSelect mb sd => PSelect mb (mkSel (sl_flags sd) (sl_permflags sd) n (sl_uidnext sd) (sl_uidvalidity sd) (sl_list sd))
  | RFlags fl, PSelect mb sd => PSelect mb (mkSel fl (sl_permflags sd) (sl_num sd) (sl_uidnext sd) (sl_uidvalidity sd) (sl_list sd))
  | RCond _ (CPermanentFlags fl) _, PSelect mb sd => PSelect mb (mkSel (sl_flags sd) fl (sl_num sd) (sl_uidnext sd) (sl_uidvalidity sd) (sl_list sd))
  | RCond _ (CUidNext n) _, PSelect mb sd => PSelect mb (mkSel (sl_flags sd) (sl_permflags sd) (sl_num sd) n (sl_uidvalidity sd) (sl_list sd))
  | RCond _ (CUidValidity n) _, PSelect mb sd => PSelect mb (mkSel (sl_flags sd) (sl_permflags sd) (sl_num sd) (sl_uidnext sd) n (sl_list sd))
  | RCond _ (CCopyUID v s d) _, PMove _ => PMove (mkCD v s d)
  | RSearch nums, PSearch d =>
      match sr_all d with
      | None => p
      | Some a => match add_nums a nums with
                  | Some a' => PSearch (mkSeD (Some a') (sr_uid d) (sr_min d) (sr_max d) (sr_count d))
                  | None => PCrash
                  end
      end
  | RESearch e, PSearch _ => if is_nil (es_tag e) || bytes_eqb (es_tag e) tag then PSearch (es_data e) else p
  | RNamespace d, PNamespace _ => PNamespace d
  | RCapability c, PCapability _ => PCapability c
  | RExpunge n, PExpunge l => PExpunge (l ++ [n])
  | _, _ => p
  end.

(* readResponseTagged's data-bearing codes and completeCommand's flush of a LIST command *)
Definition apply_tagged (p : pending) (code : resp_code) : pending :=
  match code, p with
  | CAppendUID v u, PAppend _ => PAppend (mkAD u v)
  | CCopyUID v s d, PCopy _ => PCopy (mkCD v s d)
  | _, PList rs (Some pd) out => PList rs None (out ++ [pd])
  | _, _ => p
  end.

(* outcome: final command data and the status type of the tagged response *)
Inductive outcome := Done (p : pending) (typ : bytes) | ReadError | NoCompletion.

(* the reader loop until the command's tagged response; a tagged response with another tag is a
   protocol error for the reader ("unknown tag") *)
Fixpoint run_client (fuel : nat) (x : ext) (tag : bytes) (p : pending) (s : bytes) : outcome :=
  match fuel with
  | O => NoCompletion
  | S k =>
      match s with
      | [] => NoCompletion
      | _ =>
          match read_response x s with
          | DOk (RTagged t typ code _) rest =>
              if bytes_eqb t tag then Done (apply_tagged p code) typ else ReadError
          | DOk r rest => run_client k x tag (apply_untagged tag p r) rest
          | _ => ReadError
          end
      end
  end.

Definition client (x : ext) (tag : bytes) (p : pending) (s : bytes) : outcome :=
  run_client (S (length s)) x tag p s.

(* the pending commands as the client creates them *)
Definition empty_select : select_data := mkSel [] [] 0 0 0 None.
Definition init_fetch (uid_kind : bool) (req : nset) := PFetch uid_kind req [] [].
Definition init_list (ret_status : bool) := PList ret_status None [].
Definition init_status (mbox : bytes) := PStatus mbox (empty_status []).
Definition init_select (mbox : bytes) := PSelect mbox empty_select.
Definition init_search := PSearch (mkSeD (Some []) false 0 0 0).
Definition init_append := PAppend (mkAD 0 0).
Definition init_copy := PCopy (mkCD 0 [] []).
Definition init_move := PMove (mkCD 0 [] []).
Definition init_namespace := PNamespace (mkNS None None None).
Definition init_capability := PCapability [].
Definition init_expunge := PExpunge [].
