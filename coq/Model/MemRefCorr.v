(* Model/MemRefCorr.v — correspondence evaluator for C09: a case is a command history with,
   for every command, what the real imapmemserver was observed to answer (projected by the
   harness's independent tokenizer); [memref_mismatches] replays the history on the model and
   reports the first command of each history whose predicted result differs.               *)
From GoImap.Base Require Import Bytes.
From GoImap.Model Require Import NumSet NumSetCorr MatchList Search MemRefMsg MemRef.
Open Scope N_scope.

Definition rcode_eqb (a b : rcode) : bool :=
  match a, b with
  | CodeNone, CodeNone => true
  | CodeAtom x, CodeAtom y => bytes_eqb x y
  | CodeAppendUid v u, CodeAppendUid v' u' => (v =? v') && (u =? u')
  | CodeCopyUid v s d, CodeCopyUid v' s' d' => (v =? v') && list_eqb N.eqb s s' && list_eqb N.eqb d d'
  | _, _ => false
  end.

Definition fitem_eqb (a b : fitem) : bool :=
  match a, b with
  | FUid u, FUid u' => u =? u'
  | FFlags l, FFlags l' => list_eqb bytes_eqb l l'
  | FDate t z, FDate t' z' => (t =? t')%Z && (z =? z')%Z
  | FSize n, FSize n' => n =? n'
  | FBody l d, FBody l' d' => bytes_eqb l l' && bytes_eqb d d'
  | _, _ => false
  end.

Definition item_eqb (a b : bytes * option N) : bool :=
  bytes_eqb (fst a) (fst b) && option_eqb N.eqb (snd a) (snd b).

Definition resp_eqb (a b : resp) : bool :=
  match a, b with
  | RClosed, RClosed => true
  | RSelect e v n f p, RSelect e' v' n' f' p' =>
      (e =? e') && (v =? v') && (n =? n') && list_eqb bytes_eqb f f' && list_eqb bytes_eqb p p'
  | RStatus n i, RStatus n' i' => bytes_eqb n n' && list_eqb item_eqb i i'
  | RList l a n, RList l' a' n' => Bool.eqb l l' && list_eqb bytes_eqb a a' && bytes_eqb n n'
  | RSearch l, RSearch l' => list_eqb N.eqb l l'
  | RESearch u a mn mx c, RESearch u' a' mn' mx' c' =>
      Bool.eqb u u' && list_eqb N.eqb a a' && option_eqb N.eqb mn mn' && option_eqb N.eqb mx mx' &&
      option_eqb N.eqb c c'
  | RFetch s i, RFetch s' i' => (s =? s') && list_eqb fitem_eqb i i'
  | RCopyUid v s d, RCopyUid v' s' d' => (v =? v') && list_eqb N.eqb s s' && list_eqb N.eqb d d'
  | _, _ => false
  end.

Definition result_eqb (a b : result) : bool :=
  list_eqb resp_eqb (r_data a) (r_data b) && (r_class a =? r_class b) && rcode_eqb (r_code a) (r_code b).

(* observed: None = the connection was closed / the handler panicked *)
Definition obs_step := (nat * cmd * option result)%type.
Definition hist_case := (nat * list obs_step)%type.

(* the model's answer at the first disagreement: (step index, Some (Some r) = model answers r,
   Some None = model crashes) *)
Fixpoint replay (s : state) (i : N) (l : list obs_step) : option (N * option result) :=
  match l with
  | [] => None
  | (sess, c, o) :: r =>
      match step s (sess, c), o with
      | None, None => None                       (* both crash: the history ends here *)
      | None, Some _ => Some (i, None)
      | Some (_, m), None => Some (i, Some m)
      | Some (s', m), Some ob => if result_eqb m ob then replay s' (i + 1) r else Some (i, Some m)
      end
  end.

Definition hist_ok (c : hist_case) : bool :=
  match replay (init (fst c)) 0 (snd c) with None => true | Some _ => false end.
(* indices of the histories on which model and implementation disagree *)
Definition memref_mismatches (cs : list hist_case) : list N := indexed_filter hist_ok 0 cs.
(* diagnosis (not used by bin/check): first disagreeing step of each bad history with the
   model's answer *)
Fixpoint memref_diag_from (k : N) (cs : list hist_case) : list (N * (N * option result)) :=
  match cs with
  | [] => []
  | (n, l) :: r =>
      match replay (init n) 0 l with
      | None => memref_diag_from (k + 1) r
      | Some d => (k, d) :: memref_diag_from (k + 1) r
      end
  end.
Definition memref_diag (cs : list hist_case) := memref_diag_from 0 cs.

(* message-level correspondence: body sections of one message, many requests *)
Definition sect_case := (bytes * list (section * option bytes))%type.
Definition sect_bad (c : sect_case) : list N :=
  let '(buf, l) := c in
  indexed_filter (fun p : section * option bytes =>
    option_eqb bytes_eqb (body_section buf (fst p)) (snd p)) 0 l.
Definition sect_mismatches (cs : list sect_case) : list N :=
  indexed_filter (fun c => match sect_bad c with [] => true | _ => false end) 0 cs.
