(* Bytes.v — byte strings as [list ascii], hex literals for harness-generated cases,
   decimal printing/parsing in the style of Go's strconv on ASCII digits.            *)
From Coq Require Export Bool Ascii String NArith ZArith Lia List.
From Coq Require Import DecimalString DecimalN.
Export ListNotations.
Open Scope N_scope.

Definition byte := ascii.
Definition bytes := list ascii.

Definition b2n (b : byte) : N := N_of_ascii b.
Definition n2b (n : N) : byte := ascii_of_N n.

Definition beqb (a b : byte) : bool := Ascii.eqb a b.

Fixpoint bytes_eqb (a b : bytes) : bool :=
  match a, b with
  | [], [] => true
  | x :: a', y :: b' => beqb x y && bytes_eqb a' b'
  | _, _ => false
  end.

Definition s2b (s : string) : bytes := list_ascii_of_string s.

(* ---- hex literals: the Go harness writes every byte string as (hx "6869") ---- *)
Definition hexval (c : ascii) : option N :=
  let n := N_of_ascii c in
  if (48 <=? n) && (n <=? 57) then Some (n - 48)
  else if (97 <=? n) && (n <=? 102) then Some (n - 87)
  else None.

Fixpoint hx_list (l : list ascii) : bytes :=
  match l with
  | a :: b :: r =>
      match hexval a, hexval b with
      | Some x, Some y => ascii_of_N (16 * x + y) :: hx_list r
      | _, _ => []
      end
  | _ => []
  end.
Definition hx (s : string) : bytes := hx_list (list_ascii_of_string s).

(* long runs of one byte are written (rep n (hx "61")) by the harness *)
Definition rep (n : N) (b : bytes) : bytes := concat (repeat b (N.to_nat n)).

(* ---- character helpers ---- *)
Definition is_digit (b : byte) : bool := let n := b2n b in (48 <=? n) && (n <=? 57).
Definition ch (s : string) : byte := match s with String a _ => a | EmptyString => zero end.

Definition to_upper_b (b : byte) : byte :=
  let n := b2n b in if (97 <=? n) && (n <=? 122) then n2b (n - 32) else b.
Definition to_lower_b (b : byte) : byte :=
  let n := b2n b in if (65 <=? n) && (n <=? 90) then n2b (n + 32) else b.
Definition ascii_upper (s : bytes) : bytes := map to_upper_b s.
Definition ascii_lower (s : bytes) : bytes := map to_lower_b s.
(* strings.EqualFold against an ASCII-letters-only constant [k]: no non-ASCII rune folds
   onto an ASCII letter other than K (U+212A) and S (U+017F); the callers below only use
   constants without k/s (INBOX, NIL ...), re-validated by the harness on every run. *)
Definition equal_fold_ascii (s k : bytes) : bool := bytes_eqb (ascii_upper s) (ascii_upper k).

(* ---- decimal ---- *)
Definition dec_of_N (n : N) : bytes := s2b (NilZero.string_of_uint (N.to_uint n)).

Definition all_digits (s : bytes) : bool := forallb is_digit s.

(* strconv.ParseUint(s, 10, bits): non-empty, digits only, value < 2^bits.
   (Go also rejects '+'/'-' signs and underscores for base 10: covered by digits only.) *)
Definition parse_uint (bound : N) (s : bytes) : option N :=
  match NilZero.uint_of_string (string_of_list_ascii s) with
  | Some d => let v := N.of_uint d in if v <? bound then Some v else None
  | None => None
  end.

(* generic list helpers used by several models *)
Fixpoint index_of (c : byte) (s : bytes) : option nat :=
  match s with
  | [] => None
  | x :: r => if beqb x c then Some O else option_map S (index_of c r)
  end.

Fixpoint split_on (c : byte) (cur : bytes) (s : bytes) : list bytes :=
  match s with
  | [] => [rev cur]
  | x :: r => if beqb x c then rev cur :: split_on c [] r else split_on c (x :: cur) r
  end.
(* strings.Split(s, ",") for a one-byte separator: always at least one field *)
Definition split_byte (c : byte) (s : bytes) : list bytes := split_on c [] s.

Fixpoint join_with (sep : bytes) (l : list bytes) : bytes :=
  match l with
  | [] => []
  | [x] => x
  | x :: r => x ++ sep ++ join_with sep r
  end.
