package main

import (
	"fmt"
	"go/token"
	"go/types"
	"os"
	"sort"
	"strings"

	"golang.org/x/tools/go/callgraph/cha"
	"golang.org/x/tools/go/packages"
	"golang.org/x/tools/go/ssa"
	"golang.org/x/tools/go/ssa/ssautil"
)

// Fields of imapclient.Client that the source declares as protected by Client.mutex (the
// block of fields following "mutex sync.Mutex" in the struct declaration).
func guardedFields(pkg *packages.Package) (map[string]bool, error) {
	obj := pkg.Types.Scope().Lookup("Client")
	if obj == nil {
		return nil, fmt.Errorf("type Client not found")
	}
	st, ok := obj.Type().Underlying().(*types.Struct)
	if !ok {
		return nil, fmt.Errorf("Client is not a struct")
	}
	out := map[string]bool{}
	after := false
	for i := 0; i < st.NumFields(); i++ {
		f := st.Field(i)
		if f.Name() == "mutex" {
			after = true
			continue
		}
		if after {
			out[f.Name()] = true
		}
	}
	if len(out) == 0 {
		return nil, fmt.Errorf("no fields after Client.mutex")
	}
	return out, nil
}

// fieldAccess writes the table of accesses to the guarded fields, each with the verdict of a
// must-hold analysis for Client.mutex: held on every path reaching the access, either locally
// or because every caller of the function holds it (functions only called with the lock held).
func fieldAccess(dir, out string) {
	cfg := &packages.Config{Mode: packages.LoadAllSyntax, Dir: dir, Env: append(os.Environ(), "GOFLAGS=-mod=mod", "GOPROXY=off")}
	pkgs, err := packages.Load(cfg, "./imapclient")
	if err != nil || packages.PrintErrors(pkgs) > 0 {
		fmt.Fprintln(os.Stderr, "load error", err)
		os.Exit(2)
	}
	guarded, err := guardedFields(pkgs[0])
	if err != nil {
		fmt.Fprintln(os.Stderr, err)
		os.Exit(2)
	}
	prog, _ := ssautil.AllPackages(pkgs, ssa.InstantiateGenerics)
	prog.Build()
	cg := cha.CallGraph(prog)
	const mu = "imapclient.Client.mutex"

	var funcs []*ssa.Function
	for f := range ssautil.AllFunctions(prog) {
		p := f.Pkg
		if p == nil && f.Parent() != nil {
			p = f.Parent().Pkg
		}
		if p == nil && f.Origin() != nil {
			p = f.Origin().Pkg
		}
		if p != nil && strings.HasSuffix(p.Pkg.Path(), "/imapclient") && len(f.Blocks) > 0 {
			funcs = append(funcs, f)
		}
	}
	sort.Slice(funcs, func(i, j int) bool { return funcs[i].String() < funcs[j].String() })

	// must-hold at each instruction, given whether the lock is held on entry
	type access struct {
		field, fn, pos string
		write, held    bool
	}
	analyse := func(f *ssa.Function, entryHeld bool, onAccess func(a access), onCall func(site ssa.CallInstruction, held bool)) {
		in := make([]int, len(f.Blocks)) // -1 unknown, 0 not held, 1 held
		for i := range in {
			in[i] = -1
		}
		in[0] = 0
		if entryHeld {
			in[0] = 1
		}
		work := []int{0}
		outState := func(b *ssa.BasicBlock, st int, report bool) int {
			held := st == 1
			for _, ins := range b.Instrs {
				switch v := ins.(type) {
				case *ssa.Call:
					if cl, lock, ok := lockOp(&v.Call); ok && cl == mu {
						held = lock
						continue
					}
					if report && onCall != nil {
						onCall(v, held)
					}
				case *ssa.Go:
					if report && onCall != nil {
						onCall(v, false) // a new goroutine starts without the lock
					}
				case *ssa.FieldAddr:
					if !report || onAccess == nil {
						continue
					}
					pt, ok := v.X.Type().Underlying().(*types.Pointer)
					if !ok {
						continue
					}
					named, ok := pt.Elem().(*types.Named)
					if !ok || named.Obj().Name() != "Client" {
						continue
					}
					stt := named.Underlying().(*types.Struct)
					name := stt.Field(v.Field).Name()
					if !guarded[name] {
						continue
					}
					write := false
					for _, ref := range *v.Referrers() {
						if s, ok := ref.(*ssa.Store); ok && s.Addr == v {
							write = true
						}
					}
					pos := v.Pos()
					if pos == token.NoPos {
						for _, ref := range *v.Referrers() {
							if ref.Pos() != token.NoPos {
								pos = ref.Pos()
								break
							}
						}
					}
					onAccess(access{name, f.String(), prog.Fset.Position(pos).String(), write, held})
				}
			}
			if held {
				return 1
			}
			return 0
		}
		for len(work) > 0 {
			bi := work[0]
			work = work[1:]
			o := outState(f.Blocks[bi], in[bi], false)
			for _, succ := range f.Blocks[bi].Succs {
				n := in[succ.Index]
				switch {
				case n == -1:
					n = o
				case n == 1 && o == 0:
					n = 0
				}
				if n != in[succ.Index] {
					in[succ.Index] = n
					work = append(work, succ.Index)
				}
			}
		}
		for bi, b := range f.Blocks {
			if in[bi] >= 0 {
				outState(b, in[bi], true)
			}
		}
	}

	// which functions are only ever called with the lock held? iterate downwards from "all"
	calledHeld := map[*ssa.Function]bool{}
	hasCaller := map[*ssa.Function]bool{}
	inSet := map[*ssa.Function]bool{}
	for _, f := range funcs {
		inSet[f] = true
	}
	for changed := true; changed; {
		changed = false
		next := map[*ssa.Function]bool{}
		seenCaller := map[*ssa.Function]bool{}
		for _, f := range funcs {
			next[f] = true
		}
		for _, f := range funcs {
			analyse(f, calledHeld[f], nil, func(site ssa.CallInstruction, held bool) {
				n := cg.Nodes[f]
				if n == nil {
					return
				}
				for _, e := range n.Out {
					if e.Site == site && e.Callee != nil && inSet[e.Callee.Func] {
						seenCaller[e.Callee.Func] = true
						if !held {
							next[e.Callee.Func] = false
						}
					}
				}
			})
		}
		for _, f := range funcs {
			v := next[f] && seenCaller[f]
			if f.Parent() != nil && !seenCaller[f] {
				v = false
			}
			if v != calledHeld[f] {
				calledHeld[f] = v
				changed = true
			}
			hasCaller[f] = seenCaller[f]
		}
	}

	var accs []access
	for _, f := range funcs {
		analyse(f, calledHeld[f], func(a access) { accs = append(accs, a) }, nil)
	}
	sort.Slice(accs, func(i, j int) bool {
		if accs[i].pos != accs[j].pos {
			return accs[i].pos < accs[j].pos
		}
		return accs[i].field < accs[j].field
	})
	var sb strings.Builder
	sb.WriteString("(* Generated by /verif/lockgraph -fields from /repo's working tree — do not edit. *)\n")
	sb.WriteString("From Coq Require Import List String Bool.\nImport ListNotations.\nOpen Scope string_scope.\n\n")
	sb.WriteString("(* (field, function, position, is a write, Client.mutex held on every path, inside the constructor New) *)\n")
	sb.WriteString("Definition guarded_accesses : list (string * string * string * bool * bool * bool) := [\n")
	for i, a := range accs {
		sep := ";"
		if i == len(accs)-1 {
			sep = ""
		}
		ctor := strings.HasSuffix(a.fn, "imapclient.New")
		fn := strings.ReplaceAll(strings.ReplaceAll(a.fn, "github.com/emersion/go-imap/v2/", ""), "\"", "'")
		fmt.Fprintf(&sb, "  (\"%s\", \"%s\", \"%s\", %v, %v, %v)%s\n", a.field, fn, strings.TrimPrefix(a.pos, dir+"/"), a.write, a.held, ctor, sep)
		fmt.Fprintf(os.Stderr, "ACCESS %-13s write=%-5v held=%-5v %s %s\n", a.field, a.write, a.held, strings.TrimPrefix(a.pos, dir+"/"), fn)
	}
	sb.WriteString("].\n")
	os.WriteFile(out, []byte(sb.String()), 0o644)
}
