package main

import (
	"fmt"
	"go/token"
	"go/types"
	"os"
	"sort"
	"strings"

	"golang.org/x/tools/go/callgraph/cha"
	"golang.org/x/tools/go/packages"
	"golang.org/x/tools/go/ssa"
	"golang.org/x/tools/go/ssa/ssautil"
)

// guardedFields returns the fields of the named struct that the source declares as protected
// by its mutex: the block of fields following "mutex sync.Mutex" in the struct declaration.
func guardedFields(pkg *packages.Package, typeName string) (map[string]bool, error) {
	obj := pkg.Types.Scope().Lookup(typeName)
	if obj == nil {
		return nil, fmt.Errorf("type %s not found", typeName)
	}
	st, ok := obj.Type().Underlying().(*types.Struct)
	if !ok {
		return nil, fmt.Errorf("%s is not a struct", typeName)
	}
	out := map[string]bool{}
	after := false
	for i := 0; i < st.NumFields(); i++ {
		f := st.Field(i)
		if f.Name() == "mutex" {
			after = true
			continue
		}
		if after {
			out[f.Name()] = true
		}
	}
	if len(out) == 0 {
		return nil, fmt.Errorf("no fields after %s.mutex", typeName)
	}
	return out, nil
}

// guardSpec names one struct whose fields after "mutex" are meant to be guarded.
type guardSpec struct {
	pkgSuffix string // "/imapclient"
	typeName  string // "Client"
	class     string // lock class of its own mutex, as computed by mutexClass
}

var clientSpecs = []guardSpec{{"/imapclient", "Client", "imapclient.Client.mutex"}}
var serverSpecs = []guardSpec{
	{"/imapserver/imapmemserver", "Mailbox", "imapmemserver.Mailbox.mutex"},
	{"/imapserver/imapmemserver", "User", "imapmemserver.User.mutex"},
	{"/imapserver/imapmemserver", "Server", "imapmemserver.Server.mutex"},
	{"/imapserver", "MailboxTracker", "imapserver.MailboxTracker.mutex"},
	{"/imapserver", "SessionTracker", "imapserver.SessionTracker.mutex"},
}

type access struct {
	field, fn, pos string
	write, fresh   bool
	held           uint64 // must-hold set of lock classes at the access
}

// fieldAccess writes the table of accesses to the guarded fields, each with the set of lock
// classes that a must-hold analysis finds held on EVERY path reaching the access — locally, or
// because every caller of the function holds them (greatest fixpoint over the call graph:
// functions only ever called with a lock held).
//
// client = imapclient.Client: one table entry carries a boolean "Client.mutex is held" (C13).
// server = the mutex-bearing structs of imapserver / imapmemserver: each entry carries the whole
// set, and Coq checks the Eraser lockset condition (a common lock for every field) (C14).
func fieldAccess(dir, out string, server bool) {
	cfg := &packages.Config{Mode: packages.LoadAllSyntax, Dir: dir, Env: append(os.Environ(), "GOFLAGS=-mod=mod", "GOPROXY=off")}
	patterns, specs := []string{"./imapclient"}, clientSpecs
	if server {
		patterns, specs = []string{"./imapserver/..."}, serverSpecs
	}
	pkgs, err := packages.Load(cfg, patterns...)
	if err != nil || packages.PrintErrors(pkgs) > 0 {
		fmt.Fprintln(os.Stderr, "load error", err)
		os.Exit(2)
	}
	prog, _ := ssautil.AllPackages(pkgs, ssa.InstantiateGenerics)
	prog.Build()
	cg := cha.CallGraph(prog)

	// guarded fields per (type)
	type tkey struct{ pkg, typ string }
	guarded := map[tkey]map[string]bool{}
	for _, sp := range specs {
		var pkg *packages.Package
		for _, p := range pkgs {
			if strings.HasSuffix(p.PkgPath, sp.pkgSuffix) {
				pkg = p
			}
		}
		if pkg == nil {
			fmt.Fprintln(os.Stderr, "package not found for", sp.typeName)
			os.Exit(2)
		}
		g, err := guardedFields(pkg, sp.typeName)
		if err != nil {
			fmt.Fprintln(os.Stderr, err)
			os.Exit(2)
		}
		guarded[tkey{sp.pkgSuffix, sp.typeName}] = g
	}
	specOf := func(named *types.Named) (guardSpec, bool) {
		if named.Obj().Pkg() == nil {
			return guardSpec{}, false
		}
		for _, sp := range specs {
			if named.Obj().Name() == sp.typeName && strings.HasSuffix(named.Obj().Pkg().Path(), sp.pkgSuffix) {
				return sp, true
			}
		}
		return guardSpec{}, false
	}

	var funcs []*ssa.Function
	for f := range ssautil.AllFunctions(prog) {
		p := f.Pkg
		if p == nil && f.Parent() != nil {
			p = f.Parent().Pkg
		}
		if p == nil && f.Origin() != nil {
			p = f.Origin().Pkg
		}
		if p == nil || len(f.Blocks) == 0 {
			continue
		}
		path := p.Pkg.Path()
		if (!server && strings.HasSuffix(path, "/imapclient")) || (server && strings.Contains(path, "/imapserver")) {
			funcs = append(funcs, f)
		}
	}
	sort.Slice(funcs, func(i, j int) bool { return funcs[i].String() < funcs[j].String() })

	// lock classes -> bit index
	classIdx := map[string]uint{}
	var classes []string
	bit := func(cl string) uint64 {
		i, ok := classIdx[cl]
		if !ok {
			i = uint(len(classes))
			if i >= 63 {
				fmt.Fprintln(os.Stderr, "too many lock classes")
				os.Exit(2)
			}
			classIdx[cl] = i
			classes = append(classes, cl)
		}
		return 1 << i
	}
	for _, sp := range specs {
		bit(sp.class)
	}
	const top = ^uint64(0)

	// must-hold at each instruction, given the set held on entry
	analyse := func(f *ssa.Function, entry uint64, onAccess func(a access), onCall func(site ssa.CallInstruction, held uint64)) {
		in := make([]uint64, len(f.Blocks))
		seen := make([]bool, len(f.Blocks))
		in[0], seen[0] = entry, true
		work := []int{0}
		outState := func(b *ssa.BasicBlock, held uint64, report bool) uint64 {
			for _, ins := range b.Instrs {
				switch v := ins.(type) {
				case *ssa.Call:
					if cl, lock, ok := lockOp(&v.Call); ok {
						if lock {
							held |= bit(cl)
						} else {
							held &^= bit(cl)
						}
						continue
					}
					if report && onCall != nil {
						onCall(v, held)
					}
				case *ssa.Go:
					if report && onCall != nil {
						onCall(v, 0) // a new goroutine starts without any lock
					}
				case *ssa.Defer:
					// a deferred Unlock leaves the lock held for the rest of the body; any other
					// deferred call runs at return time: nothing is assumed held then
					if _, _, ok := lockOp(&v.Call); !ok && report && onCall != nil {
						onCall(v, 0)
					}
				case *ssa.FieldAddr:
					if !report || onAccess == nil {
						continue
					}
					pt, ok := v.X.Type().Underlying().(*types.Pointer)
					if !ok {
						continue
					}
					named, ok := pt.Elem().(*types.Named)
					if !ok {
						continue
					}
					sp, ok := specOf(named)
					if !ok {
						continue
					}
					stt := named.Underlying().(*types.Struct)
					name := stt.Field(v.Field).Name()
					if !guarded[tkey{sp.pkgSuffix, sp.typeName}][name] {
						continue
					}
					write := false
					for _, ref := range *v.Referrers() {
						if s, ok := ref.(*ssa.Store); ok && s.Addr == v {
							write = true
						}
					}
					pos := v.Pos()
					if pos == token.NoPos {
						for _, ref := range *v.Referrers() {
							if ref.Pos() != token.NoPos {
								pos = ref.Pos()
								break
							}
						}
					}
					// an access through the function's own fresh allocation (composite literal
					// in a constructor) touches an object that is not shared yet
					_, fresh := v.X.(*ssa.Alloc)
					fname := name
					if server {
						fname = sp.typeName + "." + name
					}
					onAccess(access{fname, f.String(), prog.Fset.Position(pos).String(), write, fresh, held})
				}
			}
			return held
		}
		for len(work) > 0 {
			bi := work[0]
			work = work[1:]
			o := outState(f.Blocks[bi], in[bi], false)
			for _, succ := range f.Blocks[bi].Succs {
				n := o
				if seen[succ.Index] {
					n = in[succ.Index] & o
				}
				if !seen[succ.Index] || n != in[succ.Index] {
					in[succ.Index], seen[succ.Index] = n, true
					work = append(work, succ.Index)
				}
			}
		}
		for bi, b := range f.Blocks {
			if seen[bi] {
				outState(b, in[bi], true)
			}
		}
	}

	// server table: only code that can run in a server using the in-memory backend (reachable
	// from Server.Serve or from an exported function of imapmemserver); API entry points that
	// this configuration never calls (e.g. SessionTracker.DecodeSeqNum) are listed in the log
	reach := map[*ssa.Function]bool{}
	if server {
		var stack []*ssa.Function
		for _, f := range funcs {
			p := f.Pkg
			isRoot := false
			if p != nil && strings.HasSuffix(p.Pkg.Path(), "/imapmemserver") && f.Parent() == nil && (f.Object() == nil || f.Object().Exported()) {
				isRoot = true
			}
			if p != nil && strings.HasSuffix(p.Pkg.Path(), "/imapserver") && (f.String() == "(*github.com/emersion/go-imap/v2/imapserver.Server).Serve" || f.String() == "(*github.com/emersion/go-imap/v2/imapserver.Server).ListenAndServe") {
				isRoot = true
			}
			if isRoot {
				reach[f] = true
				stack = append(stack, f)
			}
		}
		for len(stack) > 0 {
			f := stack[len(stack)-1]
			stack = stack[:len(stack)-1]
			if n := cg.Nodes[f]; n != nil {
				for _, e := range n.Out {
					if c := e.Callee.Func; c != nil && !reach[c] {
						reach[c] = true
						stack = append(stack, c)
					}
				}
			}
			for _, af := range f.AnonFuncs {
				if !reach[af] {
					reach[af] = true
					stack = append(stack, af)
				}
			}
		}
	}
	// calledHeld[f]: locks held at EVERY call site of f. Greatest fixpoint: start from "all"
	// for functions that have callers inside the analysed packages, "none" for entry points,
	// and intersect downwards until stable (recursive functions keep what their outside callers hold).
	inSet := map[*ssa.Function]bool{}
	for _, f := range funcs {
		if !server || reach[f] {
			inSet[f] = true
		}
	}
	calledHeld := map[*ssa.Function]uint64{}
	hasCaller := map[*ssa.Function]bool{}
	for _, f := range funcs {
		if n := cg.Nodes[f]; n != nil {
			for _, e := range n.In {
				if e.Caller != nil && inSet[e.Caller.Func] {
					hasCaller[f] = true
				}
			}
		}
		if hasCaller[f] {
			calledHeld[f] = top
		}
	}
	for changed := true; changed; {
		changed = false
		next := map[*ssa.Function]uint64{}
		for _, f := range funcs {
			if hasCaller[f] {
				next[f] = top
			}
		}
		for _, f := range funcs {
			if !inSet[f] {
				continue
			}
			analyse(f, calledHeld[f], nil, func(site ssa.CallInstruction, held uint64) {
				n := cg.Nodes[f]
				if n == nil {
					return
				}
				for _, e := range n.Out {
					if e.Site == site && e.Callee != nil && inSet[e.Callee.Func] {
						next[e.Callee.Func] &= held
					}
				}
			})
		}
		for _, f := range funcs {
			if next[f] != calledHeld[f] {
				calledHeld[f] = next[f]
				changed = true
			}
		}
	}

	var accs []access
	for _, f := range funcs {
		if server && !reach[f] {
			analyse(f, calledHeld[f], func(a access) {
				fmt.Fprintf(os.Stderr, "UNREACHABLE-FROM-MEMSERVER %s %s %s\n", a.field, strings.TrimPrefix(a.pos, dir+"/"), a.fn)
			}, nil)
			continue
		}
		analyse(f, calledHeld[f], func(a access) { accs = append(accs, a) }, nil)
	}
	sort.Slice(accs, func(i, j int) bool {
		if accs[i].pos != accs[j].pos {
			return accs[i].pos < accs[j].pos
		}
		return accs[i].field < accs[j].field
	})
	heldList := func(m uint64) []string {
		var l []string
		for i, cl := range classes {
			if m&(1<<uint(i)) != 0 && m != top {
				l = append(l, cl)
			}
		}
		sort.Strings(l)
		return l
	}
	var sb strings.Builder
	sb.WriteString("(* Generated by /verif/lockgraph -fields / -server-fields from /repo's working tree — do not edit. *)\n")
	sb.WriteString("From Coq Require Import List String Bool.\nImport ListNotations.\nOpen Scope string_scope.\n\n")
	if !server {
		sb.WriteString("(* (field, function, position, is a write, Client.mutex held on every path, inside the constructor New) *)\n")
		sb.WriteString("Definition guarded_accesses : list (string * string * string * bool * bool * bool) := [\n")
	} else {
		sb.WriteString("(* (field, function, position, is a write, lock classes held on every path, exempt: through the function's own fresh allocation) *)\n")
		sb.WriteString("Definition server_guarded_accesses : list (string * string * string * bool * list string * bool) := [\n")
	}
	for i, a := range accs {
		sep := ";"
		if i == len(accs)-1 {
			sep = ""
		}
		fn := strings.ReplaceAll(strings.ReplaceAll(a.fn, "github.com/emersion/go-imap/v2/", ""), "\"", "'")
		pos := strings.TrimPrefix(a.pos, dir+"/")
		if !server {
			held := a.held&bit(clientSpecs[0].class) != 0
			ctor := strings.HasSuffix(a.fn, "imapclient.New")
			fmt.Fprintf(&sb, "  (\"%s\", \"%s\", \"%s\", %v, %v, %v)%s\n", a.field, fn, pos, a.write, held, ctor, sep)
			fmt.Fprintf(os.Stderr, "ACCESS %-13s write=%-5v held=%-5v %s %s\n", a.field, a.write, held, pos, fn)
		} else {
			var q []string
			for _, c := range heldList(a.held) {
				q = append(q, "\""+c+"\"")
			}
			fmt.Fprintf(&sb, "  (\"%s\", \"%s\", \"%s\", %v, [%s], %v)%s\n", a.field, fn, pos, a.write, strings.Join(q, "; "), a.fresh, sep)
			fmt.Fprintf(os.Stderr, "ACCESS %-26s write=%-5v exempt=%-5v held=%v %s %s\n", a.field, a.write, a.fresh, heldList(a.held), pos, fn)
		}
	}
	sb.WriteString("].\n")
	os.WriteFile(out, []byte(sb.String()), 0o644)
}
