// Command lockgraph is the translator of the C14/C13 checks: from /repo's current working
// tree it regenerates (1) the lock-class order graph of the server packages and (2) the table
// of accesses to the client's mutex-guarded fields, as Coq source files.
//
// Lock classes are sync.Mutex struct fields ("pkg.Type.field"). An edge A -> B is emitted when
// some function may acquire B (directly, or through any callee according to the CHA call
// graph, including closures and interface methods) while A may be held. Held sets are computed
// by a forward may-analysis over the SSA blocks of each function; a deferred Unlock keeps the
// lock held until the function returns; functions that return holding a lock, or release a
// lock they did not take (newResponseEncoder / responseEncoder.end), are summarised and applied
// at their call sites.
package main

import (
	"flag"
	"fmt"
	"go/token"
	"go/types"
	"os"
	"sort"
	"strings"

	"golang.org/x/tools/go/callgraph"
	"golang.org/x/tools/go/callgraph/cha"
	"golang.org/x/tools/go/packages"
	"golang.org/x/tools/go/ssa"
	"golang.org/x/tools/go/ssa/ssautil"
)

type set map[string]bool

func (s set) clone() set {
	o := set{}
	for k := range s {
		o[k] = true
	}
	return o
}
func (s set) addAll(o set) bool {
	ch := false
	for k := range o {
		if !s[k] {
			s[k] = true
			ch = true
		}
	}
	return ch
}
func (s set) sorted() []string {
	var l []string
	for k := range s {
		l = append(l, k)
	}
	sort.Strings(l)
	return l
}

// mutexClass returns the class of the mutex a Lock/Unlock receiver designates, or "".
func mutexClass(v ssa.Value) string {
	switch v := v.(type) {
	case *ssa.FieldAddr:
		st := v.X.Type().Underlying()
		if p, ok := st.(*types.Pointer); ok {
			st = p.Elem().Underlying()
		}
		s, ok := st.(*types.Struct)
		if !ok {
			return ""
		}
		owner := v.X.Type()
		if p, ok := owner.(*types.Pointer); ok {
			owner = p.Elem()
		}
		name := owner.String()
		if i := strings.LastIndex(name, "/"); i >= 0 {
			name = name[i+1:]
		}
		return name + "." + s.Field(v.Field).Name()
	case *ssa.UnOp:
		return mutexClass(v.X)
	case *ssa.Phi:
		for _, e := range v.Edges {
			if c := mutexClass(e); c != "" {
				return c
			}
		}
	}
	return ""
}

func lockOp(c *ssa.CallCommon) (class string, lock bool, ok bool) {
	f := c.StaticCallee()
	if f == nil || f.Pkg == nil || f.Pkg.Pkg.Path() != "sync" {
		return "", false, false
	}
	recv := f.Signature.Recv()
	if recv == nil || !strings.HasSuffix(recv.Type().String(), "sync.Mutex") {
		return "", false, false
	}
	switch f.Name() {
	case "Lock":
		lock = true
	case "Unlock":
		lock = false
	default:
		return "", false, false
	}
	if len(c.Args) == 0 {
		return "", false, false
	}
	cl := mutexClass(c.Args[0])
	if cl == "" {
		cl = "unknown:" + c.Args[0].String()
	}
	return cl, lock, true
}

type summary struct {
	acquires set // classes possibly locked by the function or its callees
	netHeld  set // classes possibly still held when the function returns
	netRel   set // classes released without having been taken here
}

func main() {
	dir := flag.String("repo", "/repo", "repository root")
	out := flag.String("out", "", "output Coq file for the lock graph")
	fieldsOut := flag.String("fields", "", "output Coq file for the guarded-field access table of imapclient.Client (skips the lock graph)")
	serverFieldsOut := flag.String("server-fields", "", "output Coq file for the guarded-field access table of the server's mutex-bearing structs (skips the lock graph)")
	flag.Parse()
	if *fieldsOut != "" {
		fieldAccess(*dir, *fieldsOut, false)
		return
	}
	if *serverFieldsOut != "" {
		fieldAccess(*dir, *serverFieldsOut, true)
		return
	}
	cfg := &packages.Config{Mode: packages.LoadAllSyntax, Dir: *dir, Env: append(os.Environ(), "GOFLAGS=-mod=mod", "GOPROXY=off")}
	pkgs, err := packages.Load(cfg, "./imapserver/...", "./internal/...", ".")
	if err != nil || packages.PrintErrors(pkgs) > 0 {
		fmt.Fprintln(os.Stderr, "load error", err)
		os.Exit(2)
	}
	prog, _ := ssautil.AllPackages(pkgs, ssa.InstantiateGenerics)
	prog.Build()
	cg := cha.CallGraph(prog)

	inRepo := func(f *ssa.Function) bool {
		return f != nil && f.Pkg != nil && strings.HasPrefix(f.Pkg.Pkg.Path(), "github.com/emersion/go-imap/v2")
	}
	// all functions of the repo (incl. anonymous ones)
	var funcs []*ssa.Function
	for f := range ssautil.AllFunctions(prog) {
		if inRepo(f) || (f.Parent() != nil && inRepo(f.Parent())) {
			funcs = append(funcs, f)
		}
	}
	sort.Slice(funcs, func(i, j int) bool { return funcs[i].String() < funcs[j].String() })

	callees := func(site ssa.CallInstruction) []*ssa.Function {
		var out []*ssa.Function
		n := cg.Nodes[site.Parent()]
		if n == nil {
			return nil
		}
		for _, e := range n.Out {
			if e.Site == site && e.Callee != nil && e.Callee.Func != nil {
				f := e.Callee.Func
				if inRepo(f) || (f.Parent() != nil && inRepo(f.Parent())) {
					out = append(out, f)
				}
			}
		}
		return out
	}
	_ = callgraph.Node{}

	sums := map[*ssa.Function]*summary{}
	for _, f := range funcs {
		sums[f] = &summary{set{}, set{}, set{}}
	}
	// flow-insensitive net effect + acquires, iterated to a fixpoint through calls
	rounds := 0
	for changed := true; changed; {
		changed = false
		for _, f := range funcs {
			s := sums[f]
			locked, unlocked, deferredUnlock := set{}, set{}, set{}
			for _, b := range f.Blocks {
				for _, ins := range b.Instrs {
					var cc *ssa.CallCommon
					isDefer := false
					switch ins := ins.(type) {
					case *ssa.Call:
						cc = &ins.Call
					case *ssa.Defer:
						cc = &ins.Call
						isDefer = true
					case *ssa.Go:
						continue
					}
					if cc == nil {
						continue
					}
					if cl, lock, ok := lockOp(cc); ok {
						if lock {
							locked[cl] = true
							if !s.acquires[cl] {
								s.acquires[cl] = true
								changed = true
							}
						} else if isDefer {
							deferredUnlock[cl] = true
						} else {
							unlocked[cl] = true
						}
						continue
					}
					for _, g := range callees(ins.(ssa.CallInstruction)) {
						gs := sums[g]
						if gs == nil {
							continue
						}
						if s.acquires.addAll(gs.acquires) {
							changed = true
						}
						for k := range gs.netHeld {
							locked[k] = true
						}
						for k := range gs.netRel {
							if isDefer {
								deferredUnlock[k] = true
							} else {
								unlocked[k] = true
							}
						}
					}
				}
			}
			// net effects are recomputed from scratch each round (they are not monotone: a
			// release summary found later cancels a hold)
			nh, nr := set{}, set{}
			for k := range locked {
				if !unlocked[k] && !deferredUnlock[k] {
					nh[k] = true
				}
			}
			for k := range unlocked {
				if !locked[k] {
					nr[k] = true
				}
			}
			for k := range deferredUnlock {
				if !locked[k] {
					nr[k] = true
				}
			}
			if fmt.Sprint(nh.sorted()) != fmt.Sprint(s.netHeld.sorted()) || fmt.Sprint(nr.sorted()) != fmt.Sprint(s.netRel.sorted()) {
				s.netHeld, s.netRel = nh, nr
				changed = true
			}
		}
		rounds++
		if rounds > 50 {
			fmt.Fprintln(os.Stderr, "lockgraph: summaries did not stabilise")
			os.Exit(2)
		}
	}

	// per-function forward may-hold analysis -> edges
	type edge struct{ a, b string }
	edges := map[edge]string{}
	addEdge := func(a, b string, pos token.Pos, why string) {
		e := edge{a, b}
		if _, ok := edges[e]; !ok {
			edges[e] = prog.Fset.Position(pos).String() + " " + why
		}
	}
	for _, f := range funcs {
		if len(f.Blocks) == 0 {
			continue
		}
		in := make([]set, len(f.Blocks))
		for i := range in {
			in[i] = set{}
		}
		work := []int{0}
		inWork := map[int]bool{0: true}
		visited := map[int]bool{}
		for len(work) > 0 {
			bi := work[0]
			work = work[1:]
			inWork[bi] = false
			visited[bi] = true
			b := f.Blocks[bi]
			held := in[bi].clone()
			for _, ins := range b.Instrs {
				var cc *ssa.CallCommon
				isDefer := false
				switch ins := ins.(type) {
				case *ssa.Call:
					cc = &ins.Call
				case *ssa.Defer:
					cc = &ins.Call
					isDefer = true
				}
				if cc == nil {
					continue
				}
				if cl, lock, ok := lockOp(cc); ok {
					if lock && !isDefer {
						for h := range held {
							addEdge(h, cl, ins.Pos(), "in "+f.String())
						}
						held[cl] = true
					} else if !lock && !isDefer {
						delete(held, cl)
					}
					continue
				}
				if isDefer {
					continue // runs at return: releases are ignored (lock stays held), acquisitions by deferred calls are rare here
				}
				for _, g := range callees(ins.(ssa.CallInstruction)) {
					gs := sums[g]
					if gs == nil {
						continue
					}
					for h := range held {
						for c := range gs.acquires {
							addEdge(h, c, ins.Pos(), "in "+f.String()+" via "+g.String())
						}
					}
				}
				// net effect of the callees on the held set
				for _, g := range callees(ins.(ssa.CallInstruction)) {
					if gs := sums[g]; gs != nil {
						for k := range gs.netHeld {
							held[k] = true
						}
					}
				}
				for _, g := range callees(ins.(ssa.CallInstruction)) {
					if gs := sums[g]; gs != nil {
						for k := range gs.netRel {
							delete(held, k)
						}
					}
				}
			}
			for _, succ := range b.Succs {
				if in[succ.Index].addAll(held) || !visited[succ.Index] {
					if !inWork[succ.Index] {
						work = append(work, succ.Index)
						inWork[succ.Index] = true
					}
				}
			}
		}
	}

	classes := set{}
	for _, f := range funcs {
		for c := range sums[f].acquires {
			classes[c] = true
		}
	}
	cl := classes.sorted()
	idx := map[string]int{}
	for i, c := range cl {
		idx[c] = i
	}
	var es []edge
	for e := range edges {
		es = append(es, e)
	}
	sort.Slice(es, func(i, j int) bool {
		if es[i].a != es[j].a {
			return es[i].a < es[j].a
		}
		return es[i].b < es[j].b
	})
	var sb strings.Builder
	sb.WriteString("(* Generated by /verif/lockgraph from /repo's working tree — do not edit. *)\n")
	sb.WriteString("From Coq Require Import List NArith String.\nImport ListNotations.\nOpen Scope N_scope.\n\n")
	sb.WriteString("Definition lock_classes : list (N * string) := [\n")
	for i, c := range cl {
		sep := ";"
		if i == len(cl)-1 {
			sep = ""
		}
		fmt.Fprintf(&sb, "  (%d, \"%s\"%%string)%s\n", i, c, sep)
	}
	sb.WriteString("].\n\nDefinition lock_edges : list (N * N) := [\n")
	for i, e := range es {
		sep := ";"
		if i == len(es)-1 {
			sep = ""
		}
		fmt.Fprintf(&sb, "  (%d, %d)%s   (* %s -> %s : %s *)\n", idx[e.a], idx[e.b], sep, e.a, e.b, strings.ReplaceAll(strings.ReplaceAll(edges[e], "*)", "* )"), "(*", "( *"))
	}
	sb.WriteString("].\n")
	if *out == "" {
		fmt.Print(sb.String())
	} else {
		os.WriteFile(*out, []byte(sb.String()), 0o644)
	}
	for _, e := range es {
		fmt.Fprintf(os.Stderr, "EDGE %s -> %s   [%s]\n", e.a, e.b, edges[e])
	}
	if os.Getenv("LOCKGRAPH_DEBUG") != "" {
		for _, f := range funcs {
			if len(sums[f].netHeld) > 0 || len(sums[f].netRel) > 0 {
				fmt.Fprintf(os.Stderr, "SUMMARY %s held=%v rel=%v\n", f, sums[f].netHeld.sorted(), sums[f].netRel.sorted())
			}
		}
	}
}
